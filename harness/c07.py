"""C07 -- namespaces, includes, URI resolution.

Specification: spec/UriPath.tla (segments, Norm, AdjustUri + memo, Locate), spec/Namespaces.tla
(four scenario families: uri / nsprec / inh / include, with the invariants RelativeToWriter,
AbsoluteToRoot, UnresolvableRaisesLookup, MemoConsistent, InlineDefsWin, ImportsBeforeContext,
InheritableReachable, IncludeIndependent, IncludeArgsFirst), spec/MC_Namespaces.tla (bounded
enumeration + Emit), spec/Trace_Namespaces.tla (validation of recorded lookup sessions).

 1. TLC enumerates every scenario of the tier, checks the invariants and prints scenario + expected
    tokens.
 2. R: every scenario is built for real -- directory trees with one or two roots (file-backed
    TemplateLookup) and put_string lookups -- rendered, and the tokens / exception class compared.
 3. V: seeded random sessions (several requests on one TemplateLookup, optionally with a bounded
    collection) are recorded and judged by Trace_Namespaces.tla.
"""
import json
import multiprocessing
import os
import re
import signal
import sys

from . import core
from .core import MachineryError

TOK = re.compile(r"\{([^{}]*)\}")
GUARD = ("<%!\n"
         "def g(context, tok, err, fn):\n"
         "    context.write('{' + tok + '}')\n"
         "    try:\n"
         "        r = fn()\n"
         "        if r:\n"
         "            context.write(str(r))\n"
         "    except Exception as e:\n"
         "        if type(e).__name__ == '_Alarm':\n"
         "            raise\n"
         "        context.write('{' + err + '}')\n"
         "    return ''\n"
         "%>\n")


class _Alarm(Exception):
    pass


def _on_alarm(sig, frm):
    raise _Alarm()


_W = {}


def _worker_init(scratch):
    _W.clear()
    _W["scratch"] = scratch


def _timed(fn):
    signal.signal(signal.SIGALRM, _on_alarm)
    signal.setitimer(signal.ITIMER_REAL, core.tscale(10))
    try:
        return fn()
    finally:
        signal.setitimer(signal.ITIMER_REAL, 0)


def _observe(fn):
    """Run fn() -> output text; returns the tokens, with the exception class appended if it raised."""
    from mako import exceptions
    try:
        return TOK.findall(_timed(fn))
    except BaseException as e:  # noqa -- an unexpected exception of mutated code is an observation
        if isinstance(e, (KeyboardInterrupt, SystemExit)):
            raise
        if isinstance(e, exceptions.TemplateLookupException):
            return ["exc|lookup"]
        return ["exc:" + ("Timeout" if isinstance(e, _Alarm) else type(e).__name__)]


def _observe_render(get_template, how=0, **kw):
    """Like _observe for `get_template().render(**kw)`, but keeps the tokens written before an exception (a render
    that reaches several writers)."""
    from mako import exceptions
    from mako.runtime import Context
    from mako.util import FastEncodingBuffer
    buf = FastEncodingBuffer()
    try:
        if how == 0:
            _timed(lambda: get_template().render_context(Context(buf, **kw)))
        else:
            r = _timed(lambda: get_template().render(**kw) if how == 1 else get_template().render_unicode(**kw))
            buf.write(r.decode() if isinstance(r, bytes) else r)
        return TOK.findall(buf.getvalue())
    except BaseException as e:  # noqa
        if isinstance(e, (KeyboardInterrupt, SystemExit)):
            raise
        toks = TOK.findall(buf.getvalue())
        if isinstance(e, exceptions.TemplateLookupException):
            return toks + ["exc|lookup"]
        return toks + ["exc:" + ("Timeout" if isinstance(e, _Alarm) else type(e).__name__)]


# --------------------------------------------------------------------------- family "uri"
def spelled(u, fname):
    if u["empty"]:
        return ""
    return ("/" if u["abs"] else "") + "/".join(list(u["segs"]) + [fname])


def writer_text(kind, uri):
    q = json.dumps(uri)
    if kind == "include":
        return "<%%include file=%s/>" % q
    if kind == "nsfile":
        return "<%%namespace name=\"n\" file=%s/>${n.body()}" % q
    if kind == "inherit":
        return "<%%inherit file=%s/>" % q
    if kind == "getns":
        return "${local.get_namespace(%s).body()}" % q
    if kind == "gettmpl":
        return "${local.get_template(%s).render()}" % q
    if kind == "incfile":
        return "<%% local.include_file(%s) %%>" % q
    raise MachineryError("unknown kind %r" % kind)


def api_call(ns, api, uri):
    """a lookup made through the Namespace API of namespace expression `ns`"""
    q = json.dumps(uri)
    if api == "gettmpl":
        return "${%s.get_template(%s).render()}" % (ns, q)
    if api == "incfile":
        return "<%% %s.include_file(%s) %%>" % (ns, q)
    if api == "getns":
        return "${%s.get_namespace(%s).body()}" % (ns, q)
    raise MachineryError("unknown api %r" % api)


def uri_files(layouts, layout, reqs, reach="none"):
    """All files of a scenario: {(root, 'a/b/name.html'): text}; entry URIs of the requests."""
    lay = layouts[layout - 1]
    files = {}
    for d in lay["dirs"]:
        path = "/".join(d["path"])
        for r in d["troots"]:
            files[(r, (path + "/" if path else "") + "t.html")] = "{at|%s|%d}" % (path, r)
    entries = []
    for rq in reqs:
        k2 = rq.get("k2", "include")
        api = k2.split(".")[1] if "." in k2 else None
        if not rq["s2"]:
            hopname, hoptext = "t.html", None
        elif api is None:                      # hop file u: an <%include> carrying the second spelling
            hopname, hoptext = "u%d.html" % rq["s2"], writer_text("include", spelled(rq["u2"], "t.html"))
        else:                                  # helper H; its def show() makes the second lookup for the in.<api> kinds
            hopname = "h%d_%s.html" % (rq["s2"], k2.replace(".", "_"))
            call = api_call("self" if api == "gettmpl" else "local", api, spelled(rq["u2"], "t.html"))
            hoptext = '<%%def name="show()">%s</%%def>helper-body' % (call if k2.startswith("in.") else "nothing")
        if hoptext is not None:
            for d in lay["dirs"]:
                path = "/".join(d["path"])
                files[(1, (path + "/" if path else "") + hopname)] = hoptext
        wname = "w_%d_%s_%d_%s.html" % (rq["s1"], rq["k1"], rq["s2"], k2.replace(".", "_"))
        wpath = "/".join(rq["w"])
        u1 = spelled(rq["u1"], hopname)
        if api is None:
            wtext = writer_text(rq["k1"], u1)
        else:
            q = json.dumps(u1)
            wtext = ('<%%namespace name="h" file=%s/>' % q) if rq["k1"] == "nsfile" else ("<%% h = local.get_namespace(%s) %%>" % q)
            wtext += "${h.show()}" if k2.startswith("in.") else api_call("h", api, spelled(rq["u2"], "t.html"))
        if rq.get("base") or rq.get("entry", "render") == "def":
            # the lookup is written inside def d of the writer, which may inherit a base in another directory
            wname = "d_%d_%s_%s" % (rq.get("base", 0), rq["entry"], wname)
            inh = ""
            if rq.get("base"):
                bpath = "/".join(rq["bdir"])
                files[(1, (bpath + "/" if bpath else "") + "bb.html")] = "${next.body()}"
                inh = '<%%inherit file="/%sbb.html"/>' % (bpath + "/" if bpath else "")
            wtext = '%s<%%def name="d()">%s</%%def>${d()}' % (inh, wtext)
        if reach == "inherit" and not entries:      # the first writer is inherited by the entry template
            wname = "nb_" + wname
            wtext += "${next.body()}"
        files[(1, (wpath + "/" if wpath else "") + wname)] = wtext
        entries.append("/" + (wpath + "/" if wpath else "") + wname + ("#def" if rq.get("entry", "render") == "def" else ""))
    if reach != "none":
        # ONE render: an entry template at the root reaches every writer (absolute URIs)
        if reach == "include":
            etext = "".join('<%%include file="%s"/>' % e for e in entries)
        elif reach == "nsbody":
            etext = "".join('<%%namespace name="x%d" file="%s"/>' % (k, e) for k, e in enumerate(entries)) \
                + "".join("${x%d.body()}" % k for k in range(len(entries)))
        else:
            etext = '<%%inherit file="%s"/>' % entries[0] + "".join('<%%include file="%s"/>' % e for e in entries[1:])
        import hashlib
        ename = "e_%s.html" % hashlib.sha1(etext.encode()).hexdigest()[:12]
        files[(1, ename)] = etext
        entries = ["/" + ename]
    return files, entries


def run_uri(layouts, c, backed, size=-1):
    from mako.lookup import TemplateLookup
    files, entries = uri_files(layouts, c["layout"], c["reqs"], c.get("reach", "none"))
    nroots = layouts[c["layout"] - 1]["nroots"]
    if backed:
        base = os.path.join(_W["scratch"], "tree-%d-%d" % (os.getpid(), c["layout"]))
        have = _W.setdefault(("have", c["layout"]), {})
        if not have:
            os.makedirs(base, exist_ok=True)
            with open(os.path.join(base, "t.html"), "w") as f:      # a decoy above the roots
                f.write("{at|OUTSIDE|0}")
        for (r, rel), text in files.items():
            if have.get((r, rel)) == text:
                continue
            p = os.path.join(base, "root%d" % r, rel)
            os.makedirs(os.path.dirname(p), exist_ok=True)
            with open(p, "w") as f:
                f.write(text)
            have[(r, rel)] = text
        for r in range(1, nroots + 1):
            os.makedirs(os.path.join(base, "root%d" % r), exist_ok=True)
        lk = TemplateLookup(directories=[os.path.join(base, "root%d" % r) for r in range(1, nroots + 1)],
                            collection_size=size, filesystem_checks=False)
    else:
        lk = TemplateLookup(collection_size=size)
        for (r, rel), text in files.items():
            lk.put_string("/" + rel, text)
    out = []
    for n, e in enumerate(entries):
        # whole template, or Template.get_def("d"); through render_context / render / render_unicode
        # (a one-render session keeps to render_context: the tokens written before an exception are part of the observation)
        rot = 0 if c.get("reach", "none") != "none" else 1
        if e.endswith("#def"):
            out += _observe_render(lambda: lk.get_template(e[:-4]).get_def("d"), how=rot * ((c.get("nc", 0) + n) % 3))
        else:
            out += _observe_render(lambda: lk.get_template(e), how=rot * ((c.get("nc", 0) + n) % 3))
    return out


# --------------------------------------------------------------------------- the other families
def _modules_dir():
    d = _W.get("moddir")
    if d is None:
        d = os.path.join(_W["scratch"], "mods-%d" % os.getpid())
        os.makedirs(d, exist_ok=True)
        sys.path.insert(0, d)
        _W["moddir"] = d
    return d


def _module_for(fset):
    name = "c07mod_%s_%d" % ("".join(sorted(fset)) or "none", os.getpid())
    p = os.path.join(_modules_dir(), name + ".py")
    if not os.path.exists(p):
        with open(p, "w") as f:
            f.write("_hidden = 1\n")
            for x in sorted(fset):
                f.write("def %s(context):\n    context.write('{F|%s}')\n    return ''\n" % (x, x))
        import importlib
        importlib.invalidate_caches()
    return name


# Member names are opaque in Namespaces.tla; the concretiser writes them in one of these classes (c["nc"], rotated over
# the scenarios).  Module namespaces keep ordinary names (import="*" of a module skips underscore names, as Python does;
# the property does not speak about it); names equal to Namespace attributes/methods are not used (undocumented).
NAME_CLASSES = [lambda n: n, lambda n: "_" + n, lambda n: "__" + n,
                lambda n: {"p": "match", "q": "case"}.get(n, "async_" + n), lambda n: n[0].upper() + n[1:] + "Mixed_Case"]


def cn(c, name, kind=None):
    if kind == "module":
        return name
    return NAME_CLASSES[c.get("nc", 0) % len(NAME_CLASSES)](name)


def _ns_tag(kind, iset, fset, extra="", c=None):
    attrs = 'name="ns"' + extra
    if kind == "file":
        attrs += ' file="/o.html"'
    elif kind == "module":
        attrs += ' module="%s"' % _module_for(fset)
    if iset:
        return "<%%namespace %s>\n%s\n</%%namespace>\n" % (attrs, "\n".join('<%%def name="%s()">{I|%s}</%%def>' % (cn(c or {}, x, kind), x) for x in sorted(iset)))
    return "<%%namespace %s/>\n" % attrs


def _lookup_with(templates, backed, tag):
    from mako.lookup import TemplateLookup
    if backed:
        _W["n"] = _W.get("n", 0) + 1
        base = os.path.join(_W["scratch"], "%s-%d-%d" % (tag, os.getpid(), _W["n"]))
        os.makedirs(base)
        for uri, text in templates.items():
            with open(os.path.join(base, uri.lstrip("/")), "w") as f:
                f.write(text)
        return TemplateLookup(directories=[base])
    lk = TemplateLookup()
    for uri, text in templates.items():
        lk.put_string(uri, text)
    return lk


def run_nsprec(c, backed):
    sep = [", ", ",", " , "][(len(c["I"]) + 2 * len(c["C"]) + len(c["F"])) % 3]      # spelling of the import list (cosmetic)
    kind = c["kind"]
    P, Q = cn(c, "p", kind), cn(c, "q", kind)
    imp = {"none": "", "p": ' import="%s"' % P, "pq": ' import="%s%s%s"' % (P, sep, Q), "star": ' import="*"'}[c["imp"]]
    m = GUARD + _ns_tag(kind, c["I"], c["F"], imp, c)
    for x in ("p", "q"):
        m += "${g(context, 'call|ns.%s', 'ERR|%s', lambda: ns.%s())}\n" % (x, x, cn(c, x, kind))
        m += "${g(context, 'call|%s', 'ERR|%s', lambda: %s())}\n" % (x, x, cn(c, x, kind))
    o = "".join('<%%def name="%s()">{F|%s}</%%def>\n' % (cn(c, x, kind), x) for x in sorted(c["F"])) + "o-body\n"
    lk = _lookup_with({"/m.html": m, "/o.html": o}, backed, "ns")
    kw = {cn(c, x, kind): (lambda x=x: "{C|%s}" % x) for x in c["C"]}
    return _observe(lambda: lk.get_template("/m.html").render(**kw))


def run_inh(c, backed):
    t = {}
    for i in range(1, c["N"] + 1):
        s = GUARD
        if i > 1:
            s += '<%%inherit file="%s"/>\n' % ("/t%d.html" % (i - 1) if i % 2 else "t%d.html" % (i - 1))
        if i == c["d"]:
            s += _ns_tag(c["kind"], {"p"} if c["kind"] == "inline" else set(), {"p"}, ' inheritable="True"')
        s += "{open|%d}\n" % i
        if i >= c["d"]:
            call = "${g(context, 'call|self.ns.p|%d', 'ERR|p', lambda: self.ns.p())}" % i
            if c.get("viadef"):      # the namespace of an ancestor used from inside a def of the derived template
                s = s.replace("{open|%d}\n" % i, '<%%def name="u%d()">%s</%%def>\n{open|%d}\n' % (i, call, i))
                s += "${u%d()}\n" % i
            else:
                s += call + "\n"
        if i < c["N"]:
            s += "${next.body()}\n"
        t["/t%d.html" % i] = s
    t["/o.html"] = '<%def name="p()">{F|p}</%def>\n'
    lk = _lookup_with(t, backed, "inh")
    return _observe(lambda: lk.get_template("/t%d.html" % c["N"]).render())


def run_include(c, backed):
    def who(n):
        return '<%%def name="who()">{who|%s}</%%def>\n' % n

    def calls(names):
        return "".join("${g(context, 'call|%s.who', 'ERR', lambda: %s.who())}\n" % (n, n) for n in names)
    args = ", ".join("%s=1" % z for z, pat in (("a", c["pa"]), ("b", c["pb"])) if pat in ("args", "both"))
    if c["via"] == "tag":
        inc = '<%%include file="/t.html"%s/>\n' % (' args="%s"' % args if args else "")
    else:
        inc = '<%% local.include_file("/t.html"%s) %%>\n' % (", " + args if args else "")
    t = {}
    if c["tgt"] == "solo":
        t["/t.html"] = GUARD + '<%page args="a=0, b=0"/>\n' + who("T") + "{open|T}{arg|a|${a}}{arg|b|${b}}\n" \
            + calls(["self", "local", "parent", "next"]) + "{close|T}\n"
    elif c["tgt"] == "hasns":
        t["/t.html"] = GUARD + '<%namespace name="tn" file="o.html"/>\n' + who("T") + "{open|T}\n" \
            + calls(["tn", "self", "local", "parent", "next"]) + "{close|T}\n"
        t["/o.html"] = who("O")
    else:
        t["/t.html"] = GUARD + '<%inherit file="/tb.html"/>\n' + who("T") + "{open|T}\n" + calls(["self", "local", "parent", "next"]) + "{close|T}\n"
        t["/tb.html"] = GUARD + who("TB") + "{open|TB}\n" + calls(["self", "next", "parent"]) + "${next.body()}\n{close|TB}\n"
    if c["pos"] == "solo":
        t["/m.html"] = who("M") + "{open|M}\n" + inc + "{close|M}\n"
        top = "/m.html"
    elif c["pos"] == "derived":
        t["/b.html"] = who("B") + "{open|B}\n${next.body()}\n{close|B}\n"
        t["/d.html"] = '<%inherit file="/b.html"/>\n' + who("D") + "{open|D}\n" + inc + "{close|D}\n"
        top = "/d.html"
    else:
        t["/b.html"] = who("B") + "{open|B}\n" + inc + "${next.body()}\n{close|B}\n"
        t["/d.html"] = '<%inherit file="b.html"/>\n' + who("D") + "{open|D}\n{close|D}\n"
        top = "/d.html"
    kw = {z: 2 for z, pat in (("a", c["pa"]), ("b", c["pb"])) if pat in ("ctx", "both")}
    lk = _lookup_with(t, backed, "inc")
    return _observe(lambda: lk.get_template(top).render(**kw))


PROBE = ("{probe|%s}${self.sib()}{uri|${local.uri}}{suri|${self.uri}}{attr|${self.attr.m}}"
         "${local.get_template('t.html').render()}{ctx|${v}}")


def _probe_module():
    name = "c07probe_%d" % os.getpid()
    p = os.path.join(_modules_dir(), name + ".py")
    if not os.path.exists(p):
        with open(p, "w") as f:
            f.write("def probe(context):\n    context.write('{probe|P}{ctx|%s}' % context.get('v'))\n    return ''\n")
        import importlib
        importlib.invalidate_caches()
    return name


def run_multins(c, backed):
    """One template declaring several namespaces; a def of each reports what it sees.  URIs in the output are
    projected to the ids of the spec (A, B, M) by normalising them."""
    import posixpath
    rel = c["spell"] == "rel"
    t = {"/t.html": "{at||1}", "/a/t.html": "{at|a|1}", "/a/b/t.html": "{at|a/b|1}", "/x/t.html": "{at|x|1}"}
    for ident, uri in (("A", "/a/b/na.html"), ("B", "/x/nb.html")):
        t[uri] = '<%%! m = "%s" %%>\n<%%def name="sib()">{sib|%s}</%%def>\n<%%def name="probe()">%s</%%def>\nbody-%s\n' % (
            ident, ident, PROBE % ident, ident)
    m = '<%! m = "M" %>\n<%def name="sib()">{sib|M}</%def>\n'
    for kind in c["decl"]:
        if kind == "fa":
            m += '<%%namespace name="fa" file="%s"/>\n' % ("b/na.html" if rel else "/a/b/na.html")
        elif kind == "fb":
            m += '<%%namespace name="fb" file="%s"/>\n' % ("../x/nb.html" if rel else "/x/nb.html")
        elif kind == "inl":
            m += '<%%namespace name="inl">\n<%%def name="probe()">%s</%%def>\n</%%namespace>\n' % (PROBE % "I")
        else:
            m += '<%%namespace name="mod" module="%s"/>\n' % _probe_module()
    if c["assign"]:
        m += "<% v = 99 %>\n"
    for kind in c["decl"]:
        m += "{call|%s}${%s.probe()}\n" % (kind, kind)
    t["/a/m.html"] = m
    ids = {"/a/b/na.html": "A", "/x/nb.html": "B", "/a/m.html": "M"}
    if backed:
        _W["n"] = _W.get("n", 0) + 1
        base = os.path.join(_W["scratch"], "multi-%d-%d" % (os.getpid(), _W["n"]))
        for uri, text in t.items():
            pth = os.path.join(base, uri.lstrip("/"))
            os.makedirs(os.path.dirname(pth), exist_ok=True)
            with open(pth, "w") as f:
                f.write(text)
        from mako.lookup import TemplateLookup
        lk = TemplateLookup(directories=[base])
    else:
        lk = _lookup_with(t, False, "multi")
    obs = _observe(lambda: lk.get_template("/a/m.html").render(v=7))
    out = []
    for tok in obs:
        k, _, rest = tok.partition("|")
        if k in ("uri", "suri"):
            tok = k + "|" + ids.get(posixpath.normpath(rest), rest)
        out.append(tok)
    return out


def _import_module(k):
    name = "c07imp%d_%d" % (k, os.getpid())
    p = os.path.join(_modules_dir(), name + ".py")
    if not os.path.exists(p):
        with open(p, "w") as f:      # d<k> writes through the context, e<k> ignores it and returns the text
            f.write("def d%d(context):\n    context.write('{P%d|d%d}')\n    return ''\n\n" % (k, k, k))
            f.write("def e%d(context):\n    return '{P%d|e%d}'\n" % (k, k, k))
            f.write("m = 1\n_inner = 2\n")      # a module has non-callable and private members too
        import importlib
        importlib.invalidate_caches()
    return name


def run_imports(c, backed):
    """1..3 <%namespace ... import=...> tags, named or anonymous, in a given source layout."""
    t = {}
    tags = []
    names = []
    for k, tag in enumerate(c["tags"], 1):
        kd = tag["kind"]
        names += [(cn(c, "d%d" % k, kd), "d%d" % k), (cn(c, "e%d" % k, kd), "e%d" % k)]
        attrs = ("" if tag["anon"] else 'name="n%d" ' % k) + ('import="%s"' % cn(c, "d%d" % k, kd) if tag["imp"] == "one" else 'import="*"')
        defs = "".join('<%%def name="%s()">{P%d|%s%d}</%%def>' % (cn(c, "%s%d" % (z, k), kd), k, z, k) for z in "de")
        if tag["kind"] == "file":
            # the target also HAS, without exporting them: body(), a def nested in d<k>, a <%! %> function render_helper,
            # a module attribute m
            nested = defs.replace("</%def>", '<%def name="inner()">nested</%def></%def>', 1)
            t["/o%d.html" % k] = "<%!\ndef render_helper(context):\n    return 'helper'\nm = 1\n%>\n" + nested + "\nbody-of-o%d\n" % k
            tags.append('<%%namespace %s file="/o%d.html"/>' % (attrs, k))
        elif tag["kind"] == "module":
            tags.append('<%%namespace %s module="%s"/>' % (attrs, _import_module(k)))
        else:
            tags.append("<%%namespace %s>%s</%%namespace>" % (attrs, defs))
    m = GUARD + {"lines": "\n", "oneline": "", "text": " x "}[c["layout"]].join(tags) + "\n"
    for k, tag in enumerate(c["tags"], 1):
        for z in "de":
            m += "${g(context, 'call|%s%d', 'ERR|%s%d', lambda: %s())}\n" % (z, k, z, k, cn(c, "%s%d" % (z, k), tag["kind"]))
        if not tag["anon"]:
            m += "${g(context, 'call|n%d.e%d', 'ERR|e%d', lambda: n%d.%s())}\n" % (k, k, k, k, cn(c, "e%d" % k, tag["kind"]))
    others = ["body", "helper", "inner", "m"]
    if c["ctx"]:
        for x in others:
            m += "{read|%s}${%s}\n" % (x, x)
    t["/m.html"] = m
    kw = {cname: (lambda x=x: "{C|%s}" % x) for cname, x in names} if c["ctx"] else {}
    if c["ctx"]:
        kw.update({x: "{C|%s}" % x for x in others})
    lk = _lookup_with(t, backed, "imports")
    return _observe(lambda: lk.get_template("/m.html").render(**kw))


VALS = {"truthy": None, "False": "False", "zero": "0", "empty": "''", "list": "[]", "None": "None"}


def _vt(v):
    """value -> the label Namespaces.tla uses for it"""
    if v is False:
        return "False"
    if v is None:
        return "None"
    if isinstance(v, int) and v == 0:
        return "zero"
    if isinstance(v, str) and v == "":
        return "empty"
    if isinstance(v, list) and v == []:
        return "list"
    return str(v)


def run_incval(c, backed):
    """Explicit / context values of every truthiness for the <%page> arguments of an included template (and, for
    comparison, the arguments of a def called through a namespace)."""
    def lit(side, cls):
        return repr(side) if cls == "truthy" else VALS[cls]
    given = ", ".join("%s=%s" % (z, lit("E", c["e" + z])) for z in "ab" if c["e" + z] != "absent")
    show = "{open|T}{arg|a|${vt(a)}}{arg|b|${vt(b)}}{close|T}"
    t = {"/t.html": "<%page args=\"a='default', b='default'\"/>\n" + show + "\n",
         "/t2.html": "<%def name=\"show(a='default', b='default')\">" + show + "</%def>\n"}
    if c["via"] == "tag":
        m = '<%%include file="/t.html"%s/>\n' % (' args="%s"' % given if given else "")
    elif c["via"] == "call":
        m = '<%% local.include_file("/t.html"%s) %%>\n' % (", " + given if given else "")
    else:
        m = '<%%namespace name="ns" file="/t2.html"/>\n${ns.show(%s)}\n' % given
    t["/m.html"] = m
    kw = {"vt": _vt}
    for z in "ab":
        if c["c" + z] != "absent":
            kw[z] = eval(lit("C", c["c" + z]))
    lk = _lookup_with(t, backed, "incval")
    return _observe(lambda: lk.get_template("/m.html").render(**kw))


def run_incpos(c, backed):
    """The <%include> at different places of the includer; values for T's page args a, b from different sources."""
    sa, sb = set(c["sa"]), set(c["sb"])
    src = {"a": sa, "b": sb}
    t = {"/t.html": '<%page args="a=0, b=0"/>\n{open|T}{arg|a|${a}}{ctx|a|${context.get("a", -1)}}'
                    '{arg|b|${b}}{ctx|b|${context.get("b", -1)}}{close|T}\n'}
    args = ", ".join("%s=1" % z for z in "ab" if "args" in src[z])
    inc = '<%%include file="/t.html"%s/>' % (' args="%s"' % args if args else "")
    m = ""
    pageargs = ", ".join("%s=4" % z for z in "ab" if "page" in src[z])
    if pageargs:
        m += '<%%page args="%s"/>\n' % pageargs
    if c["pos"] in ("topdef", "selfdef"):
        m += '<%%def name="d()">%s</%%def>\n' % inc
    elif c["pos"] == "nested":
        m += '<%%def name="d()"><%%def name="inner()">%s</%%def>${inner()}</%%def>\n' % inc
    elif c["pos"] == "calltag":
        m += '<%def name="w()">${caller.body()}</%def>\n'
    m += "{open|M}\n"
    for z in "ab":
        if "assign" in src[z]:
            m += "<%% %s = 3 %%>\n" % z
    if c["pos"] == "body":
        m += inc + "\n"
    elif c["pos"] in ("topdef", "nested"):
        m += "${d()}\n"
    elif c["pos"] == "selfdef":
        m += "${self.d()}\n"
    else:
        m += '<%%call expr="w()">%s</%%call>\n' % inc
    m += "{close|M}\n"
    t["/m.html"] = m
    kw = {z: 2 for z in "ab" if "render" in src[z]}
    lk = _lookup_with(t, backed, "incpos")
    return _observe(lambda: lk.get_template("/m.html").render(**kw))


def _plain(u):
    return not u["empty"] and all(s not in ("", ".", "..") for s in u["segs"])


def _run_batch(args):
    layouts, items, seed = args
    res = []
    for idx, c, backed in items:
        c = dict(c, nc=idx + seed)
        try:
            if c["fam"] == "uri":
                obs = run_uri(layouts, c, backed)
            elif c["fam"] == "nsprec":
                obs = run_nsprec(c, backed)
            elif c["fam"] == "inh":
                obs = run_inh(c, backed)
            elif c["fam"] == "multins":
                obs = run_multins(c, backed)
            elif c["fam"] == "incpos":
                obs = run_incpos(c, backed)
            elif c["fam"] == "incval":
                obs = run_incval(c, backed)
            elif c["fam"] == "imports":
                obs = run_imports(c, backed)
            else:
                obs = run_include(c, backed)
        except MachineryError:
            raise
        except Exception as e:  # noqa -- e.g. the compiler of a mutated tree rejecting a template
            obs = ["exc:" + type(e).__name__]
        res.append((idx, backed, obs))
    return res


# --------------------------------------------------------------------------- signatures
def _features(u):
    f = []
    if u["empty"]:
        return "empty-uri"
    f.append("abs" if u["abs"] else "rel")
    if ".." in u["segs"]:
        f.append("dotdot")
    if "." in u["segs"]:
        f.append("dot")
    if "" in u["segs"]:
        f.append("empty-seg")
    return "+".join(f)


def _cls(tok):
    if tok is None:
        return "END"
    if tok.startswith("at|"):
        return "found"
    return tok.split("|")[0] if tok.startswith("exc:") else tok


def signature(c, exp, obs):
    d = next((k for k in range(min(len(exp), len(obs))) if exp[k] != obs[k]), min(len(exp), len(obs)))
    e = exp[d] if d < len(exp) else None
    o = obs[d] if d < len(obs) else None
    if c["fam"] == "uri":
        rq = c["reqs"][min(d, len(c["reqs"]) - 1)]
        if rq["u1"]["empty"] or (rq["s2"] and rq["u2"]["empty"]):
            return "uri:empty-uri:expected(%s):observed(%s)" % (_cls(e), _cls(o)), d
        what = "wrong-target" if (e or "").startswith("at|") and (o or "").startswith("at|") else "expected(%s):observed(%s)" % (_cls(e), _cls(o))
        hop2 = (":hop2(%s)-" % rq.get("k2", "include") + _features(rq["u2"])) if rq["s2"] else ""
        indef = (":in-def(%s%s)" % (rq["entry"], ",inherits" if rq.get("base") else "")) \
            if rq.get("base") or rq.get("entry", "render") == "def" else ""
        sess = ((":one-render(%s)" % c["reach"] if c.get("reach", "none") != "none" else "") + ":request%d" % (d + 1)) if len(c["reqs"]) > 1 else ""
        return "uri:%s:%s%s%s%s:%s" % (rq["k1"], _features(rq["u1"]), hop2, indef, sess, what), d
    prev = exp[d - 1] if d else "START"
    if c["fam"] == "nsprec" and c["imp"] == "star" and e and o and e[0] == "I" and o[0] == "F" and prev == "call|" + e[2:] \
            and e[2:] in c["I"] and e[2:] in c["F"]:
        return "nsprec:import-star:name-defined-inline-and-in-%s:unqualified-call-gets-the-%s-def" % (
            "file" if c["kind"] == "file" else "module", "file" if c["kind"] == "file" else "module"), d
    return "%s:after(%s):expected(%s):observed(%s)" % (c["fam"], prev, e or "END", _cls(o) if (o or "").startswith("exc") else (o or "END")), d


# --------------------------------------------------------------------------- V: random sessions
def random_session(rng, nsp, plain_sp, thorough):
    layout = rng.choice([1, 2, 3])
    n = rng.randrange(3, 8 if thorough else 6)
    kinds = ["include", "nsfile", "inherit", "getns", "gettmpl", "incfile"]
    reqs = []
    for _ in range(n):
        s2 = rng.choice([0, 0] + list(range(1, nsp)))       # (nsp = the empty URI, not used for hop files)
        k2 = "none" if not s2 else rng.choice(["include", "include", "out.gettmpl", "out.incfile", "out.getns", "in.gettmpl", "in.incfile", "in.getns"])
        k1 = rng.choice(kinds) if not s2 else ("include" if k2 == "include" else rng.choice(["nsfile", "getns"]))
        reqs.append({"w": rng.randrange(1, 6), "s1": rng.randrange(1, nsp + 1) if not s2 else rng.randrange(1, nsp),
                     "k1": k1, "s2": s2, "k2": k2})
    reach = rng.choice(["none", "none", "include", "nsbody"])
    if reach != "none":      # (a writer that itself inherits is not reached through body() in a one-render session)
        for q in reqs:
            if q["k1"] == "inherit":
                q["k1"] = "include"
    for q in reqs:           # entry points: the lookup inside a def of a writer that inherits, requested whole or via get_def
        q["base"], q["entry"] = 0, "render"
        if reach == "none" and not q["s2"] and q["k1"] in ("include", "getns", "gettmpl", "incfile") and rng.random() < 0.5:
            q["base"], q["entry"] = rng.choice([0, 1, 2, 3, 4, 5]), rng.choice(["render", "def"])
    return {"fam": "uri", "reach": reach, "layout": layout, "reqs": reqs}


INVS = ["RelativeToWriter", "AbsoluteToRoot", "UnresolvableRaisesLookup", "MemoConsistent", "InlineDefsWin",
        "ImportsBeforeContext", "InheritableReachable", "IncludeIndependent", "IncludeArgsFirst", "NamespaceDefsKeepTheirOwnSelf"]


def check(run):
    thorough = run.thorough
    workers = 8 if os.environ.get("VERIF_FULL_CPU", "1") == "1" else 4
    nproc = min(core.NCPU, 12)
    cfg = ("CONSTANTS Tier = \"%s\"\nSPECIFICATION Spec\n" % run.tier) + "".join("INVARIANT %s\n" % i for i in INVS) \
        + "INVARIANT Emit\nCHECK_DEADLOCK FALSE\n"
    res = run.tlc("MC_Namespaces", cfg, name="mc-namespaces", heap="4g", coverage=True, workers=workers, timeout=1200)
    if res.violated:
        run.spec_violation(res)
        return {"rule": "TLC found the design model violating %s" % res.violated, "exhaustive": True}
    for a in ("Resolve", "PopulateImports", "Calls", "GenNamespaces", "Bodies", "Include", "IncludeAt", "IncludeValues", "PopulateTag", "TagCalls", "ReadOthers", "MakeNamespace", "Probe", "Finish"):
        if not res.coverage.get(a, [0, 0])[1]:
            raise MachineryError("vacuous model checking: action %s never taken (%s)" % (a, res.coverage))
    run.extra["action_coverage"] = {a: v[1] for a, v in res.coverage.items() if a[0].isupper()}
    recs, seen, layouts = [], set(), None
    for r in res.json_lines():
        if isinstance(r, dict) and "layouts" in r:
            layouts = r["layouts"]
        elif isinstance(r, dict) and "cfg" in r and "out" in r:
            key = json.dumps(r, sort_keys=True)
            if key not in seen:
                seen.add(key)
                recs.append(r)
    if layouts is None or len(recs) < 1000:
        raise MachineryError("TLC printed %d scenarios, layouts=%s" % (len(recs), layouts is not None))
    recs.sort(key=lambda r: json.dumps(r, sort_keys=True))
    fams = {}
    for r in recs:
        fams[r["cfg"]["fam"]] = fams.get(r["cfg"]["fam"], 0) + 1
    run.extra["scenarios"] = fams
    alltoks = {t.split("|")[0] for r in recs for t in r["out"]}
    for k in ("at", "exc", "I", "F", "C", "ERR", "who", "arg", "open"):
        if k not in alltoks:
            raise MachineryError("vacuous enumeration: no expected output contains a %r token" % k)

    # ------------------------------------------------------------------ R
    items = []
    for idx, r in enumerate(recs):
        c = r["cfg"]
        if c["fam"] == "uri":
            items.append((idx, c, True))
            if c["layout"] != 3 and all(_plain(q["u1"]) and (not q["s2"] or _plain(q["u2"])) for q in c["reqs"]):
                items.append((idx, c, False))
        elif c["fam"] == "multins":
            # a relative "../x/nb.html" needs normalisation: file-backed only; everything else on both kinds of lookup
            items.append((idx, c, True))
            if not (c["spell"] == "rel" and "fb" in c["decl"]):
                items.append((idx, c, False))
        else:
            items.append((idx, c, (idx + run.seed) % 2 == 0))
            if thorough:
                items.append((idx, c, (idx + run.seed) % 2 == 1))
    chunks = [items[k::nproc * 4] for k in range(nproc * 4)]
    scratch = run.subdir("trees")
    ctxmp = multiprocessing.get_context("fork")
    with ctxmp.Pool(nproc, initializer=_worker_init, initargs=(scratch,)) as pool:
        try:
            batches = pool.map_async(_run_batch, [(layouts, c, run.seed) for c in chunks if c]).get(timeout=core.tscale(900 if thorough else 200))
        except multiprocessing.TimeoutError:
            pool.terminate()
            raise MachineryError("replay workers timed out")
    bad = {}
    n_exec = 0
    good = None
    for batch in batches:
        for idx, backed, obs in batch:
            n_exec += 1
            exp = recs[idx]["out"]
            if exp != obs:
                sig, d = signature(recs[idx]["cfg"], exp, obs)
                bad.setdefault(sig, []).append((idx, backed, obs, d))
            elif good is None and len(exp) > 1:
                good = (idx, obs)
    run.traces += n_exec
    run.transitions += sum(len(r["out"]) for r in recs)
    for sig in sorted(bad):
        idx, backed, obs, d = min(bad[sig], key=lambda z: (len(json.dumps(recs[z[0]]["cfg"])), z[0]))
        c = recs[idx]["cfg"]
        rep = {"scenario": c, "file_backed": backed, "expected": recs[idx]["out"], "observed": obs, "first_difference": d}
        if c["fam"] == "uri":
            files, entries = uri_files(layouts, c["layout"], c["reqs"], c.get("reach", "none"))
            rq = c["reqs"][min(d, len(c["reqs"]) - 1)]
            rep["render"] = entries
            rep["files"] = {"root%d/%s" % k: v for k, v in files.items() if "w_" in k[1] or k[1].split("/")[-1][0] in "uhe"}
            rep["spelled"] = spelled(rq["u1"], "t.html")
        run.violation(sig, "real mako disagrees with Namespaces.tla at token %d: expected %s, observed %s (%d scenarios in this class)"
                      % (d, recs[idx]["out"][d] if d < len(recs[idx]["out"]) else "END", obs[d] if d < len(obs) else "END", len(bad[sig])), rep)
    if good is None:
        if not bad:
            raise MachineryError("nothing was replayed")
    else:
        exp = list(recs[good[0]]["out"])
        run.negative_control(exp[:-1] + [exp[-1] + "x"] != good[1], "comparer accepted a corrupted token")
        run.negative_control(exp[:-1] != good[1], "comparer accepted a dropped token")
    for r in recs[:: max(1, len(recs) // 4)][:4]:
        run.sample({"direction": "R", "scenario": r["cfg"], "expected_tokens": r["out"]})

    # ------------------------------------------------------------------ V: recorded sessions judged by Trace_Namespaces
    nsp = 21
    n_sessions = 400 if thorough else 150
    _worker_init(run.subdir("trees-v"))
    spell = {}
    for r in recs:     # spelling index -> expanded URI, as printed by TLC
        if r["cfg"]["fam"] == "uri":
            for q in r["cfg"]["reqs"]:
                spell[q["s1"]] = q["u1"]
                if q["s2"]:
                    spell[q["s2"]] = q["u2"]
    if len(spell) < nsp:
        raise MachineryError("spellings seen in the enumeration: %d of %d" % (len(spell), nsp))
    dirs = [d["path"] for d in layouts[0]["dirs"]]
    traces = []
    for t in range(n_sessions):
        s = random_session(run.rng, nsp, None, thorough)
        conc = {"fam": "uri", "reach": s["reach"], "layout": s["layout"],
                "reqs": [{"w": dirs[q["w"] - 1], "k1": q["k1"], "k2": q["k2"], "s1": q["s1"], "s2": q["s2"], "u1": spell[q["s1"]],
                          "base": q["base"], "bdir": dirs[q["base"] - 1] if q["base"] else [], "entry": q["entry"],
                          "u2": spell[q["s2"]] if q["s2"] else {"abs": False, "segs": [], "empty": True}} for q in s["reqs"]]}
        size = run.rng.choice([-1, -1, 1, 2])       # a bounded collection also bounds the _uri_cache memo
        try:
            obs = run_uri(layouts, conc, True, size=size)
        except Exception as e:  # noqa
            obs = ["exc:" + type(e).__name__]
        traces.append({"id": t + 1, "cfg": s, "out": obs, "size": size, "conc": conc})
    # negative controls: corrupt recordings; only those whose original is accepted count (corrupting a recording of
    # misbehaving code can make it right by accident)
    ncs = []
    for base in [t for t in traces if any(o.startswith("at|") for o in t["out"])][:6]:
        b1 = json.loads(json.dumps(base))
        b1["id"] = 10 ** 6 + 2 * base["id"]
        k = next(i for i, o in enumerate(b1["out"]) if o.startswith("at|"))
        b1["out"][k] = "exc|lookup"
        b2 = json.loads(json.dumps(base))
        b2["id"] = 10 ** 6 + 2 * base["id"] + 1
        del b2["out"][k]
        b1["base"] = b2["base"] = base["id"]
        ncs += [b1, b2]
    tcfg = "CONSTANTS Tier = \"quick\"\nSPECIFICATION TSpec\n" + "".join("INVARIANT %s\n" % i for i in INVS[:4]) + "CHECK_DEADLOCK FALSE\n"
    verdicts = run.validate_traces("Trace_Namespaces", tcfg, [{"id": t["id"], "cfg": t["cfg"], "out": t["out"]} for t in traces + ncs],
                                   name="trace-namespaces", workers=workers, timeout=600)
    run.traces -= len(ncs)
    for nc in ncs:
        if verdicts[nc["base"]]["ok"]:
            run.negative_control(not verdicts[nc["id"]]["ok"], "Trace_Namespaces accepted a corrupted session (%d)" % nc["id"])
    vbad = {}
    for t in traces:
        v = verdicts[t["id"]]
        run.transitions += len(t["out"])
        if not v["ok"]:
            exp = list(t["out"])
            d = v["i"] - 1
            exp = exp[:d] + [v["exp"]]
            sig, _ = signature(t["conc"], exp, t["out"][:d + 1] if d < len(t["out"]) else t["out"])
            vbad.setdefault(sig, []).append((t, v))
    for sig in sorted(vbad):
        t, v = min(vbad[sig], key=lambda z: (len(z[0]["out"]), z[0]["id"]))
        run.violation(sig, "recorded lookup session is not a behaviour of Namespaces.tla at request %d: expected %s, observed %s (%d sessions in this class)"
                      % (v["i"], v["exp"], t["out"][v["i"] - 1] if v["i"] - 1 < len(t["out"]) else "END", len(vbad[sig])),
                      {"session": t["conc"], "collection_size": t["size"], "observed": t["out"], "verdict": v})
    if traces:
        run.sample({"direction": "V", "session": traces[0]["conc"], "collection_size": traces[0]["size"], "observed": traces[0]["out"]})
    run.assumptions += [
        "a call that finds no callable (missing member, UNDEFINED name, parent/next absent) is observed as 'some exception inside the guarded call'",
        "on put_string lookups URIs are opaque keys: only spellings without '.', '..' and empty segments are replayed there",
        "filesystem_checks=False on the file-backed trees of the uri family (files are written once per worker and never change)",
    ]
    return {"rule": "TLC enumerates every scenario of the four families (layouts x writer directory x URI spelling x tag kind x memo pairs x "
                    "two hops; namespace precedence patterns; inheritable namespaces; include position x target x argument patterns) and checks "
                    "the invariants; each scenario is built on real directory trees / put_string lookups and compared; random lookup sessions "
                    "are judged by Trace_Namespaces.tla. A case is one scenario / session.",
            "exhaustive": True}
