"""C14 -- lookup freshness, stability, directory priority, LRU over time.

Specification: spec/Lookup.tla (design model + invariants), spec/MC_Lookup.tla (bounded
instances), spec/Trace_Lookup.tla (trace validation).

 1. TLC checks the invariants / action properties of Lookup.tla exhaustively on small constants.
 2. R: `tlc -simulate` behaviours are replayed, action by action, on a real TemplateLookup over a
    temp directory tree with a simulated clock; result, rendered version, object identity, key set
    and construction count are compared with the spec state after every action.
 3. V: seeded random histories are recorded from a real TemplateLookup and validated in batch by
    Trace_Lookup.tla (property invariants evaluated after every event).
"""
import copy
import os
import shutil
import tempfile

from . import core
from .core import MachineryError

BASE = 1_000_000_000
TPS = 2
OLD_ATIME = BASE - 100000


class World:
    """A real TemplateLookup over temp directories with a simulated clock."""

    def __init__(self, ndirs, size, fsc, moddir=False, base=None, symlinks=False):
        # symlinks: every template path inside a lookup directory is a symbolic link to a file kept elsewhere (the file
        # is rewritten / deleted in place: the link stays) -- the same abstract file system, another concrete one
        self.symlinks = symlinks
        import mako.codegen as cg
        import mako.lookup as ml
        import mako.util as mu
        from mako import exceptions
        self.ml, self.cg, self.mu, self.exc = ml, cg, mu, exceptions
        self.ticks = 0
        self.lru = 0
        w = self

        class _T:
            @staticmethod
            def time():
                return BASE + w.ticks / TPS

            @staticmethod
            def default_timer():
                w.lru += 1
                return w.lru
        self._saved = (cg.time, mu.timeit, ml.Template)
        cg.time = _T
        mu.timeit = _T
        self.unreadable = set()
        self._read_file = mu.read_file

        def read_file(path, mode="rb"):
            if os.path.abspath(path) in w.unreadable:
                raise PermissionError(13, "Permission denied (simulated)", path)
            return w._read_file(path, mode)
        mu.read_file = read_file
        self.root = tempfile.mkdtemp(prefix="mv-lk-", dir=base)
        self.dirs = []
        for i in range(ndirs):
            d = os.path.join(self.root, "d%d" % (i + 1))
            os.makedirs(d)
            self.dirs.append(d)
        self.moddir = os.path.join(self.root, "mods") if moddir else None
        self.built = 0
        self.objs = {}
        self.keep = []
        T0 = self._saved[2]

        class T(T0):
            def __init__(self, *a, **kw):
                super().__init__(*a, **kw)
                w.built += 1
                w._number(self)
        self.T0 = T0
        ml.Template = T
        self.lk = ml.TemplateLookup(self.dirs, collection_size=(size or -1), filesystem_checks=fsc,
                                    module_directory=self.moddir)
        self.ver = 0
        self.size = size

    def _number(self, t):
        self.keep.append(t)
        return self.objs.setdefault(id(t), len(self.objs) + 1)

    def close(self):
        self.cg.time, self.mu.timeit, self.ml.Template = self._saved
        self.mu.read_file = self._read_file
        shutil.rmtree(self.root, ignore_errors=True)

    # ---- projection
    def keys(self):
        return sorted(self.lk._collection.keys())

    def _fix_module_mtimes(self):
        # module files written during an operation belong to the simulated present
        if not self.moddir or not os.path.isdir(self.moddir):
            return
        for dp, _, fns in os.walk(self.moddir):
            for fn in fns:
                p = os.path.join(dp, fn)
                if os.stat(p).st_mtime > BASE + 10 ** 8:
                    os.utime(p, (OLD_ATIME, BASE + self.ticks // TPS))

    # ---- operations
    def tick(self):
        self.ticks += 1
        return {"ev": "tick"}

    def write(self, d, u, kind):
        if kind is True or kind is False:
            kind = "ok" if kind else "broken"
        self.ver += 1
        p = os.path.join(self.dirs[d - 1], u)
        if self.symlinks:
            store = os.path.join(self.root, "store")
            os.makedirs(store, exist_ok=True)
            target = os.path.join(store, "d%d_%s" % (d, u))
            if not os.path.islink(p):
                os.symlink(target, p)
        with open(p, "w") as f:          # through the link, if it is one
            f.write("${ broken" if kind == "broken" else ("%s-v%d" % (u, self.ver)))
        if kind == "unreadable":
            self.unreadable.add(os.path.abspath(p))
        else:
            self.unreadable.discard(os.path.abspath(p))
        mt = self.ticks // TPS
        os.utime(p, (OLD_ATIME, BASE + mt))
        return {"ev": "write", "d": d, "u": u, "kind": kind, "ver": self.ver, "mt": mt}

    def delete(self, d, u):
        p = os.path.join(self.dirs[d - 1], u)
        if not os.path.exists(p):
            return None
        if self.symlinks and self.ver % 2:
            os.remove(os.path.realpath(p))       # the file goes, a dangling link stays
        else:
            os.remove(p)
        self.unreadable.discard(os.path.abspath(p))
        return {"ev": "delete", "d": d, "u": u}

    def _classify(self, e, ex):
        exc = self.exc
        if isinstance(ex, exc.TopLevelLookupException):
            e["res"] = "toplevel_exc"
        elif isinstance(ex, exc.TemplateLookupException):
            e["res"] = "lookup_exc"
        elif isinstance(ex, (exc.SyntaxException, exc.CompileException)):
            e["res"] = "compile_error"
        elif isinstance(ex, OSError):
            e["res"] = "os_error"
        else:
            e["res"] = "exc:" + type(ex).__name__

    def get(self, u):
        e = {"ev": "get", "u": u, "ver": 0, "obj": 0}
        try:
            t = self.lk.get_template(u)
            out = t.render()
            try:
                v = int(out.rsplit("-v", 1)[1])
            except Exception:
                v = -1
            e.update(res="tmpl", ver=v, obj=self.objs.get(id(t), -1))
        except Exception as ex:  # noqa
            self._classify(e, ex)
        self._fix_module_mtimes()
        e["keys"] = self.keys()
        e["built"] = self.built
        return e

    def has(self, u):
        e = {"ev": "has", "u": u}
        try:
            r = self.lk.has_template(u)
            e["res"] = "true" if r is True else "false" if r is False else "other:%r" % (r,)
        except Exception as ex:  # noqa
            self._classify(e, ex)
        self._fix_module_mtimes()
        e["keys"] = self.keys()
        e["built"] = self.built
        return e

    def put(self, u, by_lookup=True):
        self.ver += 1
        text = "%s-v%d" % (u, self.ver)
        if by_lookup:
            self.lk.put_string(u, text)
            t = self._raw(u)
        else:
            t = self.T0(text, uri=u, lookup=self.lk)
            self._number(t)
            self.lk.put_template(u, t)
        return {"ev": "put" if by_lookup else "puttmpl", "u": u, "obj": self.objs.get(id(t), -1) if t is not None else 0,
                "keys": self.keys(), "built": self.built}

    def putfile(self, u, d, v):
        """put_template(u, Template(filename=<dir d>/v, uri=v)) -- a file-backed template under another URI"""
        path = os.path.join(self.dirs[d - 1], v)
        try:
            t = self.T0(filename=path, uri=v, lookup=self.lk)
        except Exception:
            return None
        self._number(t)
        self.lk.put_template(u, t)
        return {"ev": "putfile", "u": u, "d": d, "v": v, "obj": self.objs.get(id(t), -1), "keys": self.keys(), "built": self.built}

    def _raw(self, u):
        c = self.lk._collection
        if u not in c:
            return None
        if self.size:
            return dict.__getitem__(c, u).value
        return c[u]


# --------------------------------------------------------------------------- V: record histories
OPS = ["tick", "tick", "write", "write", "write", "break", "unread", "delete", "get", "get", "get", "get", "get", "has", "put", "puttmpl", "putfile"]


# short scripted sequences spliced into the random histories so that multi-step situations (a reload
# followed by another request, a vanished file, a repaired file, directory priority, ...) occur often;
# roles: u, v = URIs, d, e = directories
MACROS = [
    [("write", "d", "u"), ("get", "u"), ("tick",), ("tick",), ("write", "d", "u"), ("get", "u"), ("get", "u")],
    [("write", "d", "v"), ("putfile", "u", "d", "v"), ("get", "u"), ("tick",), ("tick",), ("write", "d", "v"), ("get", "u"), ("get", "u"), ("has", "v")],
    [("write", "d", "u"), ("get", "u"), ("delete", "d", "u"), ("get", "u"), ("get", "u"), ("write", "d", "u"), ("get", "u")],
    [("break", "d", "u"), ("get", "u"), ("write", "d", "u"), ("get", "u"), ("get", "u")],
    [("write", "e", "u"), ("get", "u"), ("write", "d", "u"), ("get", "u"), ("tick",), ("tick",), ("get", "u")],
    [("write", "d", "u"), ("get", "u"), ("tick",), ("tick",), ("break", "d", "u"), ("get", "u"), ("write", "d", "u"), ("get", "u")],
    [("put", "u"), ("write", "d", "u"), ("get", "u"), ("tick",), ("tick",), ("get", "u")],
    [("write", "d", "u"), ("write", "d", "v"), ("get", "u"), ("get", "v"), ("get", "u"), ("tick",), ("get", "v"), ("get", "u")],
    [("unread", "d", "u"), ("get", "u"), ("has", "u"), ("write", "d", "u"), ("get", "u")],
    [("write", "d", "u"), ("get", "u"), ("tick",), ("tick",), ("unread", "d", "u"), ("get", "u"), ("get", "u"), ("write", "d", "u"), ("get", "u")],
]


def record(rng, n_ops, ndirs, uris, size, fsc, moddir, allow_put, base=None, symlinks=False):
    w = World(ndirs, size, fsc, moddir, base=base, symlinks=symlinks)
    ev = []

    def do(op, u, d, v=None):
        if op == "tick":
            ev.append(w.tick())
        elif op in ("write", "break", "unread"):
            ev.append(w.write(d, u, {"write": "ok", "break": "broken", "unread": "unreadable"}[op]))
        elif op == "delete":
            e = w.delete(d, u)
            if e:
                ev.append(e)
        elif op == "get":
            ev.append(w.get(u))
        elif op == "has":
            ev.append(w.has(u))
        elif op in ("put", "puttmpl") and allow_put:
            ev.append(w.put(u, op == "put"))
        elif op == "putfile" and allow_put and not moddir:
            if os.path.isfile(os.path.join(w.dirs[d - 1], v)):
                e = w.putfile(u, d, v)
                if e:
                    ev.append(e)
    try:
        while len(ev) < n_ops:
            if rng.random() < 0.12:
                roles = {"u": rng.choice(uris), "v": rng.choice(uris), "d": rng.randrange(ndirs) + 1, "e": rng.randrange(ndirs) + 1}
                for step in rng.choice(MACROS):
                    a = [roles[x] for x in step[1:]]
                    if step[0] == "tick":
                        do("tick", None, None)
                    elif step[0] in ("write", "break", "unread", "delete"):
                        do(step[0], a[1], a[0])
                    elif step[0] == "putfile":
                        do("putfile", a[0], a[1], a[2])
                    else:
                        do(step[0], a[0], None)
                continue
            do(rng.choice(OPS), rng.choice(uris), rng.randrange(ndirs) + 1, rng.choice(uris))
    finally:
        w.close()
    return ev


def trace_cfg(ndirs, uris, size, fsc, moddir):
    return ("CONSTANTS NDirs = %d  Uris = {%s}  MaxVer = 100000  MaxTick = 100000  Size = %d  FsChecks = %s  TPS = %d  AllowPut = TRUE  ModDir = %s\n"
            "SPECIFICATION TSpec\nCHECK_DEADLOCK FALSE\n"
            % (ndirs, ", ".join('"%s"' % u for u in uris), size, "TRUE" if fsc else "FALSE", TPS, "TRUE" if moddir else "FALSE"))


# --------------------------------------------------------------------------- R: replay behaviours
def replay_behaviour(steps, ndirs, size, fsc, moddir, base=None, symlinks=False):
    """steps: [(action, state)] from a simulate file.  Returns None or a mismatch description."""
    w = World(ndirs, size, fsc, moddir, base=base, symlinks=symlinks)
    try:
        for idx, (act, st) in enumerate(steps):
            last = st["last"]
            op = last["op"]
            if op == "init":
                continue
            if op == "tick":
                w.tick()
                continue
            if op == "write":
                e = w.write(last["d"], last["u"], last["kind"])
                exp = st["fs"][last["d"] - 1][last["u"]] if isinstance(st["fs"], list) else st["fs"][last["d"]][last["u"]]
                if e["ver"] != exp["ver"] or e["mt"] != exp["mt"]:
                    return {"step": idx, "clause": "write-args", "expected": exp, "observed": e}
                continue
            if op == "delete":
                w.delete(last["d"], last["u"])
                continue
            keys = sorted(u for u, c in st["coll"].items() if c["kind"] != "none")
            if op == "get":
                e = w.get(last["u"])
                exp = {"res": last["res"], "ver": last.get("ver", 0), "obj": last.get("obj", 0), "keys": keys, "built": st["built"]}
                obs = {k: e[k] for k in exp}
            elif op == "has":
                e = w.has(last["u"])
                m = {"tmpl": "true", "toplevel_exc": "false", "lookup_exc": "false", "compile_error": "compile_error", "os_error": "os_error"}
                exp = {"res": m[last["res"]], "keys": keys, "built": st["built"]}
                obs = {k: e[k] for k in exp}
            elif op in ("put", "puttmpl"):
                e = w.put(last["u"], op == "put")
                exp = {"obj": last["obj"], "keys": keys, "built": st["built"]}
                obs = {k: e[k] for k in exp}
            elif op == "putfile":
                e = w.putfile(last["u"], last["d"], last["v"])
                if e is None:
                    return {"step": idx, "clause": "putfile-construction-failed", "op": last}
                exp = {"obj": last["obj"], "keys": keys, "built": st["built"]}
                obs = {k: e[k] for k in exp}
            else:
                raise MachineryError("unknown op in behaviour: %r" % (last,))
            if exp != obs:
                clause = [k for k in exp if exp[k] != obs[k]][0]
                return {"step": idx, "clause": clause, "op": last, "expected": exp, "observed": obs}
        return None
    finally:
        w.close()


MC_PROPS = """SPECIFICATION Spec
INVARIANT Fresh
INVARIANT SizeBound
PROPERTY StableIdentity
PROPERTY FirstDirWins
PROPERTY MissRaisesTopLevel
PROPERTY VanishedRaisesLookup
PROPERTY NoChecksSticky
PROPERTY RecoverAfterFailure
VIEW View
CONSTRAINT Bound
CHECK_DEADLOCK FALSE
"""


def mc_cfg(ndirs, uris, maxver, maxtick, size, fsc, allow_put, depth, put_served=True, moddir=False, own_file=True):
    return ("CONSTANTS NDirs = %d  Uris = {%s}  MaxVer = %d  MaxTick = %d  Size = %d  FsChecks = %s  TPS = %d  AllowPut = %s  Depth = %d  ModDir = %s  WB = \"hit\"\n"
            % (ndirs, ", ".join('"%s"' % u for u in uris), maxver, maxtick, size, "TRUE" if fsc else "FALSE", TPS,
               "TRUE" if allow_put else "FALSE", depth, "TRUE" if moddir else "FALSE")
            + MC_PROPS + ("INVARIANT PutServed\nINVARIANT PutFileServed\n" if put_served else "") + ("INVARIANT ServedFromOwnFile\n" if own_file else ""))


def events_of_counterexample(ce):
    return [st.get("last") for _, st in ce]


def check(run):
    thorough = run.thorough
    # ------------------------------------------------------------------ 1. exhaustive model checking
    mcs = [  # name, ndirs, uris, maxver, maxtick, size, fsc, allow_put, depth
        ("mc-fs-unl", 2, ["a", "b"], 3, 4, 0, True, False, 9 if not thorough else 11),
        ("mc-fs-put", 1, ["a", "b"], 3, 2, 0, True, True, 7 if not thorough else 9),
        ("mc-fs-s1", 2, ["a", "b", "c"], 3, 3, 1, True, False, 8 if not thorough else 10),
        ("mc-nofs-s1", 2, ["a", "b"], 3, 3, 1, False, False, 8 if not thorough else 10),
    ]
    acts = {}
    for (name, nd, uris, mv, mt, size, fsc, ap, depth) in mcs:
        res = run.tlc("MC_Lookup", mc_cfg(nd, uris, mv, mt, size, fsc, ap, depth), name=name, coverage=True, timeout=1500)
        if res.violated:
            run.spec_violation(res)
        for a, (d, g) in res.coverage.items():
            acts[a] = acts.get(a, 0) + g
    for a in ("Tick", "WriteFile", "DeleteFile", "Get", "Has", "Put", "PutFile"):
        if not acts.get(a):
            raise MachineryError("vacuous model checking: action %s never taken (%s)" % (a, acts))
    run.extra["action_coverage"] = acts
    # put_string under a bounded collection: the design (as coded) admits a counterexample to PutServed
    res = run.tlc("MC_Lookup", mc_cfg(1, ["a", "b"], 2, 0, 1, True, True, 6), name="mc-put-s1")
    if res.violated:
        if res.violated not in (["PutServed"], ["PutFileServed"]):
            run.spec_violation(res)
        else:
            # confirm the counterexample on the real code before calling it a finding
            ce = res.counterexample()
            steps = [("ce", st) for _, st in ce]
            mm = replay_behaviour(steps, 1, 1, True, False, base=run.scratch)
            last = ce[-1][1]["last"]
            if mm is None:
                run.violation("lru-evicts-put-entry",
                              "a put_string/put_template entry evicted by the LRU is no longer served (%s -> %s)" % (last.get("u"), last.get("res")),
                              {"history": events_of_counterexample(ce), "source": "TLC counterexample to PutServed, reproduced on the real TemplateLookup"})
            else:
                run.violation("model-mismatch-on-PutServed-counterexample", "real code does not follow the model on the PutServed counterexample", mm)

    # module_directory with several directories: the module path depends on the URI only
    res = run.tlc("MC_Lookup", mc_cfg(2, ["a"], 3, 4, 0, True, False, 9, moddir=True), name="mc-moddir-2dirs")
    if res.violated:
        if res.violated != ["ServedFromOwnFile"]:
            run.spec_violation(res)
        else:
            ce = res.counterexample()
            mm = replay_behaviour([("ce", st) for _, st in ce], 2, 0, True, True, base=run.scratch)
            if mm is None:
                run.violation("module-file-shared-across-directories",
                              "with a module_directory and several directories, a module file generated from dir1/<uri> is reused for dir2/<uri>",
                              {"history": events_of_counterexample(ce), "source": "TLC counterexample to ServedFromOwnFile, reproduced on the real TemplateLookup"})
            else:
                run.violation("model-mismatch-on-ServedFromOwnFile-counterexample", "real code does not follow the model on the counterexample", mm)
    res = run.tlc("MC_Lookup", mc_cfg(1, ["a", "b"], 3, 3, 1, True, False, 8 if not thorough else 10, moddir=True), name="mc-moddir-1dir", coverage=True)
    if res.violated:
        run.spec_violation(res)

    # ------------------------------------------------------------------ 1b. witnesses: TLC finds a behaviour reaching every branch; replay it
    wit = []   # (name, invariant, WB, ndirs, uris, size, fsc, moddir, allow_put)
    for b in ("hit", "vanished", "reload", "reload-broken", "reload-unreadable", "miss", "load", "load-broken", "load-unreadable"):
        wit.append(("w-" + b, "NotWBranch", b, 2, ["a", "b"], 1, True, False, False))
    wit.append(("w-hit-nocheck", "NotWBranch", "hit-nocheck", 1, ["a", "b"], 0, False, False, False))
    for b in ("load-reuse",):
        wit.append(("w-" + b, "NotWBranch", b, 1, ["a", "b"], 1, True, True, False))
    for b in ("hit", "reload"):
        wit.append(("w-alias-" + b, "NotWAliasBranch", b, 1, ["a", "b"], 0, True, False, True))
    wit.append(("w-evicted", "NotWEvicted", "hit", 1, ["a", "b", "c"], 1, True, False, False))

    def one_witness(w):
        name, inv, wb, nd, uris, size, fsc, moddir, ap = w
        cfg = ("CONSTANTS NDirs = %d  Uris = {%s}  MaxVer = 4  MaxTick = 6  Size = %d  FsChecks = %s  TPS = %d  AllowPut = %s  Depth = 9  ModDir = %s  WB = \"%s\"\n"
               % (nd, ", ".join('"%s"' % u for u in uris), size, "TRUE" if fsc else "FALSE", TPS, "TRUE" if ap else "FALSE",
                  "TRUE" if moddir else "FALSE", wb)
               + "SPECIFICATION Spec\nINVARIANT %s\nCONSTRAINT Bound\nCHECK_DEADLOCK FALSE\n" % inv)
        res = run.tlc("MC_Lookup", cfg, name=name, workers=2, timeout=600, count=False)
        if res.violated != [inv]:
            return name, None, "witness %s not reached (violated=%s)" % (name, res.violated)
        return name, res.counterexample(), w
    import concurrent.futures as cf
    with cf.ThreadPoolExecutor(max_workers=6) as ex:      # TLC runs in parallel ...
        outs = list(ex.map(one_witness, wit))
    nw = 0
    for name, ce, w in outs:
        if ce is None:
            raise MachineryError(w)
        # ... the replays one at a time: a World interposes on module attributes of mako (clock, Template class)
        _, _, _, nd, _, size, fsc, moddir, _ = w
        mm = replay_behaviour([("ce", st) for _, st in ce], nd, size, fsc, moddir, base=run.scratch)
        nw += 1
        run.transitions += len(ce)
        if mm:
            run.violation("witness-replay:%s:%s" % (name, mm.get("clause")),
                          "real TemplateLookup disagrees with the TLC behaviour reaching witness %s at step %s: expected %s, observed %s"
                          % (name, mm.get("step"), mm.get("expected"), mm.get("observed")),
                          {"witness": name, "history": events_of_counterexample(ce), "mismatch": mm})
    run.traces += nw
    run.extra["witness_behaviours_replayed"] = nw

    # ------------------------------------------------------------------ 2. R: simulate -> replay
    sims = [  # name, ndirs, uris, size, fsc, moddir, allow_put, num, depth
        ("sim-s1", 2, ["a", "b", "c"], 1, True, False, True, 60, 30),
        ("sim-unl-mod", 3, ["a", "b", "c"], 0, True, True, True, 40, 30),
        ("sim-s2", 2, ["a", "b", "c", "d", "e", "f"], 2, True, False, False, 60, 40),
        ("sim-nofs", 2, ["a", "b", "c"], 1, False, False, True, 30, 30),
        ("sim-nofs-mod-s2", 2, ["a", "b", "c", "d"], 2, False, True, True, 20, 30),
        ("sim-s4-mod", 1, ["a", "b", "c", "d", "e", "f", "g"], 4, True, True, False, 20, 40),
    ]
    if thorough:
        sims = [(n, nd, u, s, f, m, ap, num * 16, dp) for (n, nd, u, s, f, m, ap, num, dp) in sims]
        sims.append(("sim-s4", 3, ["a", "b", "c", "d", "e", "f", "g", "h", "i", "j", "k"], 4, True, True, True, 300, 40))
    replayed = 0
    for (name, nd, uris, size, fsc, moddir, ap, num, depth) in sims:
        cfg = mc_cfg(nd, uris, 100000, 100000, size, fsc, ap, 100000, put_served=False, moddir=moddir, own_file=False).replace("CONSTRAINT Bound\n", "")
        cfg = cfg.replace("INVARIANT Fresh\n", "INVARIANT Fresh\n")
        simdir = run.subdir("simtr-" + name)
        run.tlc("MC_Lookup", cfg, name=name, workers=1, simulate="file=%s/tr,num=%d" % (simdir, num), depth=depth, timeout=900, count=False)
        files = sorted(os.listdir(simdir))
        if len(files) < num:
            raise MachineryError("simulate produced %d of %d behaviours" % (len(files), num))
        for fn in files:
            steps = core.parse_simulate_file(os.path.join(simdir, fn))
            mm = replay_behaviour(steps, nd, size, fsc, moddir, base=run.scratch, symlinks=replayed % 3 == 2)
            replayed += 1
            run.transitions += len(steps)
            if mm:
                hist = [s[1]["last"] for s in steps[: mm["step"] + 1]]
                run.violation("replay:%s:%s" % (mm.get("op", {}).get("op", "?"), mm["clause"]),
                              "real TemplateLookup disagrees with the spec behaviour at step %d (%s): expected %s, observed %s"
                              % (mm["step"], mm["clause"], mm.get("expected"), mm.get("observed")),
                              {"config": {"ndirs": nd, "size": size, "fs_checks": fsc, "module_directory": moddir}, "history": hist, "mismatch": mm})
                break
        if replayed <= 2 and steps:
            run.sample({"direction": "R", "config": name, "history": [s[1]["last"] for s in steps[:12]]})
    run.extra["behaviours_replayed"] = replayed
    run.traces += replayed

    # ------------------------------------------------------------------ 3. V: record -> validate
    groups = [  # ndirs, uris, size, fsc, moddir, n, ops
        (2, ["a", "b", "c"], 1, True, False, 80, 30),
        (2, ["a", "b", "c"], 0, True, True, 50, 30),
        (3, ["a", "b", "c", "d", "e", "f"], 2, True, False, 80, 40),
        (2, ["a", "b", "c"], 1, False, False, 40, 30),
        (1, ["a", "b", "c", "d", "e", "f", "g", "h"], 2, True, True, 50, 40),
        (2, ["a", "b", "c", "d", "e", "f", "g", "h", "i", "j", "k"], 4, True, False, 30, 60),
        # the remaining corners of filesystem_checks x collection_size x module_directory
        (2, ["a", "b", "c"], 0, False, True, 20, 30),
        (2, ["a", "b", "c", "d", "e", "f"], 4, False, False, 20, 40),
        (3, ["a", "b", "c"], 1, True, True, 30, 30),
        (1, ["a", "b", "c", "d", "e"], 2, False, True, 20, 40),
        (3, ["a", "b"], 0, True, False, 30, 40),
    ]
    if thorough:
        groups = [(nd, u, s, f, m, n * 12, ops) for (nd, u, s, f, m, n, ops) in groups]
        groups.append((3, ["a", "b", "c", "d", "e", "f", "g", "h", "i", "j", "k"], 4, True, True, 300, 40))
    tid = 0
    for gi, (nd, uris, size, fsc, moddir, n, ops) in enumerate(groups):
        traces = []
        for _ in range(n):
            tid += 1
            traces.append({"id": tid, "events": record(run.rng, ops, nd, uris, size, fsc, moddir, True, base=run.scratch, symlinks=tid % 3 == 0)})
        # negative controls: a corrupted field and a deleted event must be rejected
        ncs = []
        for t in traces:
            gets = [i for i, e in enumerate(t["events"]) if e["ev"] == "get" and e.get("res") == "tmpl"]
            if len(gets) >= 2:
                bad = copy.deepcopy(t)
                bad["id"] = 10 ** 6 + 1
                bad["events"][gets[-1]]["ver"] += 1
                ncs.append(bad)
                bad2 = copy.deepcopy(t)
                bad2["id"] = 10 ** 6 + 2
                # drop the write event whose version a later get observes
                seen = {e["ver"] for e in bad2["events"] if e["ev"] == "get" and e.get("res") == "tmpl"}
                dropped = False
                for i, e in enumerate(bad2["events"]):
                    if e["ev"] == "write" and e["ver"] in seen:
                        del bad2["events"][i]
                        dropped = True
                        break
                if dropped:
                    ncs.append(bad2)
                break
        verdicts = run.validate_traces("Trace_Lookup", trace_cfg(nd, uris, size, fsc, moddir), traces + ncs, name="trace-g%d" % gi)
        run.traces -= len(ncs)
        for nc in ncs:
            run.negative_control(not verdicts[nc["id"]]["ok"], "Trace_Lookup accepted a corrupted history (%d)" % nc["id"])
        for t in traces:
            v = verdicts[t["id"]]
            run.transitions += len(t["events"])
            if not v["ok"]:
                i = v["i"]
                e = t["events"][i - 1] if i else None
                run.violation("trace:%s:%s" % (e["ev"] if e else "?", v["clause"]),
                              "recorded history not explained by Lookup.tla at event %d (%s): %s" % (i, v["clause"], e),
                              {"config": {"ndirs": nd, "uris": uris, "size": size, "fs_checks": fsc, "module_directory": moddir},
                               "events": t["events"][:i], "verdict": v})
            elif "PutServed" in v.get("findings", []):
                run.violation("lru-evicts-put-entry", "a put_string/put_template entry evicted by the LRU is no longer served",
                              {"config": {"ndirs": nd, "uris": uris, "size": size, "fs_checks": fsc}, "events": t["events"]})
        if gi == 0 and traces:
            run.sample({"direction": "V", "config": {"ndirs": nd, "size": size, "fs_checks": fsc}, "events": traces[0]["events"][:10]})
    run.assumptions += [
        "time is simulated: mako.codegen.time and mako.util.timeit are interposed; file mtimes are set with os.utime",
        "Template constructions are counted by a subclass installed as mako.lookup.Template",
        "unreadable files are simulated by interposing mako.util.read_file (the sandbox runs as root)",
        "in every third history the template paths are symbolic links to files kept outside the lookup directories (rewritten / deleted in place)",
    ]
    return {"rule": "TLC exhaustive on bounded Lookup.tla instances; -simulate behaviours replayed action by action on a real "
                    "TemplateLookup (simulated clock); seeded random histories recorded from the real TemplateLookup and validated "
                    "against Trace_Lookup.tla. A case is one history; distinct by construction (seeded).",
            "exhaustive": False}
