"""C11 -- compile-time errors name the template and the line/column of the fault.

Specification: spec/Lines.tla (layout calculus, fault instance), spec/MC_Lines.tla.

 1. The harness writes a catalog of construct texts (well-formed ones and ones carrying exactly one
    planted fault) and MEASURES them (physical line widths, where the markers sit).
 2. TLC enumerates every layout (<= MaxPre constructs before the fault, optionally one after) x
    fault entry x line terminator, steps the lexer cursor and the pyparser line arithmetic, checks
    ReportAtFault / CursorIsPrefixSum, and prints one case per terminal state with the report the
    PROPERTY demands (line of the offending Python line / position where the construct begins).
 3. R: every case is concretised into a real template and compiled by the real mako from a string
    (all cases) and from a file, through a TemplateLookup and into a module directory (a seeded
    sample that covers every fault entry); exc.lineno / pos / filename / source, RichTraceback and
    the text / html error templates are compared with TLC's expectation.
"""
import hashlib
import html as _html
import json
import os
import re
import shutil
import signal

from . import core
from . import lines_common as lc
from .core import MachineryError

F0 = {"cls": "none", "site": "none", "noff": 0, "nc": 0, "ind": 0, "coff": 0, "lead": 0, "pfx": 0,
      "pyl": 0, "foff": 0, "exact": False, "fr": []}


def _entry(eid, text, group, cls="none", site="none", pfx=0, ls=False, swallow=False, **kw):
    g = lc.measure(text)
    f = dict(F0)
    if cls != "none":
        f.update(cls=cls, site=site, pfx=pfx, noff=g["noff"], nc=g["nc"], ind=g["ind"], coff=g["coff"],
                 lead=g["lead"], pyl=g["pyl"], foff=g["foff"])
    e = {"id": eid, "text": text, "group": group, "w": g["w"], "ls": bool(ls), "f": f, "swallow": swallow}
    e.update(kw)
    return e


def build_catalog(rng):
    """Catalog for this run; the cosmetics (indentation, filler widths, blank-line counts) come from
    the seed, the construct kinds and fault classes are fixed."""
    c = lc.cosmetics(rng)
    I, W, S = c["I"], c["W"], c["S"]
    B, P = c["B"], c["P"]
    N, C, F = lc.MN, lc.MC, lc.MF
    E = []

    def good(eid, text, ls=False):
        E.append(_entry(eid, text, "good", ls=ls))

    def tail(eid, text):
        E.append(_entry(eid, text, "tail"))

    def py(eid, text, site, pfx=0, ls=False, design=False):
        E.append(_entry("py." + eid, text, "design" if design else "fault", "py", site, pfx, ls))

    def st(eid, text, ls=False, swallow=False, eof=False):
        E.append(_entry("st." + eid, text, "fault", "st", "none", 0, ls, swallow, eof_only=eof))

    # ---- well-formed surroundings
    good("txt", W + " ")
    good("txtnl", W + "\n")
    good("txtml", "l1\n" + W + "\nxy ")
    good("blank", "\n")
    good("blank2", "\n\n")
    good("cont", W + " \\\nde")
    good("cmt", I + "## c\n", ls=True)
    good("doc", "<%doc>a\nb</%doc>")
    good("expr", "${%sv%s}" % (S, S))
    good("exprml", "${ (1 +\n 2) }\n")
    good("ctl", "%s%% if v:\nx\n%s%% endif\n" % (I, I), ls=True)
    good("ctlcont", "% if v and \\\n   v:\nx\n% endif\n", ls=True)
    good("block", "<%\n" + "\n" * B + "   a = 1\n%>")
    good("def", '<%def name="f@(a,\n   b=1)">d</%def>')
    good("call", '<%call expr="str(v)">c</%call>')
    good("texttag", "<%text>${ a\n</%text>")
    good("pct", "%% lit\n", ls=True)
    tail("t.txt", " tail " + W + "\n")
    # ---- boundaries: exactly 0 / 1 / 2 / 3 / many characters before the construct on its line (first line, a later line,
    # after a continuation) and the construct ending at the last / second-to-last character, with and without a final terminator
    for eid, text in (("pad1", "x"), ("pad2", "xy"), ("pad3", "xyz"), ("pad-nl", "q\n"), ("pad-cont0", "ab \\\n"), ("pad-cont1", "ab \\\nx")):
        E.append(_entry(eid, text, "good-b"))
    for eid, text in (("t.1", "z"), ("t.nl", "\n"), ("t.1nl", "z\n")):
        E.append(_entry(eid, text, "tail-b"))

    # ---- Python-level faults: F marks the offending Python line, C where the Python string begins
    bad = "= ="
    py("expr", "${%s%s%s %s}" % (C, S, F, bad), "code")
    py("exprml2", "${%s (1 +\n %s%s) }" % (C, F, bad), "code")
    py("exprml3", "${%s (1 +\n 2 +\n %s%s) }" % (C, F, bad), "code")
    py("exprlead", "${%s\n (1 +\n %s%s) }" % (C, F, bad), "code")
    py("filter", "${ v |%s %s%s }" % (C, F, bad), "filter")
    py("filterml", "${ v |%s h,\n %s%s }" % (C, F, bad), "filter")
    py("filter-on-later-line", "${ v\n |%s %s%s }" % (C, F, bad), "filter", design=True)
    py("filter-after-newline", "${ v |%s\n %s%s }" % (C, F, bad), "filter", design=True)
    for kw, head in (("if", "if %s:"), ("for", "for x in %s:"), ("while", "while %s:"), ("with", "with %s as z:")):
        py("ctl." + kw, "%s%% %s\nx\n%s%% end%s\n" % (I, head % (F + bad), I, kw), "code", ls=True)
    py("ctlcont2", "%s%% if v and \\\n   %s%s:\nx\n%% endif\n" % (I, F, bad), "code", ls=True)
    py("ctlcont3", "% if v and \\\n v and \\\n  " + F + bad + ":\nx\n% endif\n", "code", ls=True)
    py("elif", "%% if v:\nx\n%s%s%% elif %s%s:\ny\n%% endif\n" % (N, I, F, bad), "code", pfx=1, ls=True)
    py("elifcont", "%% if v:\nx\n%s%% elif v and \\\n %s%s:\ny\n%% endif\n" % (N, F, bad), "code", pfx=1, ls=True)
    py("except", "%% try:\nx\n%s%s%% except %s%s:\ny\n%% endtry\n" % (N, I, F, bad), "code", pfx=1, ls=True)
    py("block", "<%" + C + "\n" + "\n" * B + "   a = 1\n" * P + "   z = " + F + bad + "\n%>", "code")
    py("block1", "<%%%s z = %s%s %%>" % (C, F, bad), "code")
    py("modblock", "<%!" + C + "\n" + "\n" * B + "   import os\n" * P + "   z = " + F + bad + "\n%>", "code")
    py("defsig", '<%%def name="%sf@(a, b=%s %s)">d</%%def>' % (C, F, bad), "parse")
    py("defsigml", '<%%def name="%sf@(a,\n   b=%s %s)">d</%%def>' % (C, F, bad), "parse")
    py("defsig-on-later-tag-line", '<%%def\n  name="%sf@(a, b=%s %s)">d</%%def>' % (C, F, bad), "parse", design=True)
    py("pageargs", '<%%page args="%sa,\n b=%s %s"/>' % (C, F, bad), "parse")
    py("blockargs", '<%%block name="b@" args="%sa,\n %s%s">x</%%block>' % (C, F, bad), "parse")
    py("callexpr", '<%%call expr="%sstr(1,\n %s%s)">c</%%call>' % (C, F, bad), "code")
    py("callargs", '<%%call expr="str(1)" args="%sa,\n %s%s">c</%%call>' % (C, F, bad), "parse")
    py("nscall", '<%%ns:foo x="${%s%s%s}"/>' % (C, F, bad), "code")
    py("attrexpr", '<%%include file="${%s(1 +\n %s%s)}"/>' % (C, F, bad), "code")
    py("attrexpr-on-later-tag-line", '<%%include\n file="${%s%s%s}"/>' % (C, F, bad), "code", design=True)
    py("includeargs", '<%%include file="x" args="%sa=1,\n %s%s"/>' % (C, F, bad), "code")
    py("deffilter", '<%%def name="f@()" filter="%s%s%s">d</%%def>' % (C, F, bad), "parse")
    py("textfilter", '<%%text filter="%s%s%s">x</%%text>' % (C, F, bad), "parse")
    py("blockfilter", '<%%block filter="%s%s%s">x</%%block>' % (C, F, bad), "parse")
    py("pagefilter", '<%%page expression_filter="%s%s%s"/>' % (C, F, bad), "parse")

    # ---- the same Python-level faults with every style of line break / blank line inside the construct
    # (lc.BRK: empty lines, lines of blanks, lines of tabs, trailing blanks after the opening delimiter, a mix)
    K = lc.BRK
    brk = [
        ("expr", "${%s%s (1 +%s %s%s) }" % (C, K, K, F, bad), "code"),
        ("expr-first-line", "${%s%s %s%s }" % (C, K, F, bad), "code"),
        ("filter", "${ v |%s h,%s %s%s }" % (C, K, F, bad), "filter"),
        ("block", "<%" + C + K + "   a = 1" + K + "   z = " + F + bad + "\n%>", "code"),
        ("block-first-stmt", "<%" + C + K + "   z = " + F + bad + K + "%>", "code"),
        ("modblock", "<%!" + C + K + "   import os" + K + "   z = " + F + bad + "\n%>", "code"),
        ("defsig", '<%%def name="%sf@(a,%s   b=%s %s)">d</%%def>' % (C, K, F, bad), "parse"),
        ("pageargs", '<%%page args="%sa,%s b=%s %s"/>' % (C, K, F, bad), "parse"),
        ("callexpr", '<%%call expr="%sstr(1,%s %s%s)">c</%%call>' % (C, K, F, bad), "code"),
        ("attrexpr", '<%%include file="${%s(1 +%s %s%s)}"/>' % (C, K, F, bad), "code"),
        ("attrexpr-lead", '<%%include file="${%s%s %s%s}"/>' % (C, K, F, bad), "code"),
        ("includeargs", '<%%include file="x" args="%sa=1,%s %s%s"/>' % (C, K, F, bad), "code"),
    ]
    for eid, text, site in brk:
        for style, t in lc.break_variants(text):
            if style != "plain":
                E.append(_entry("py.%s.brk-%s" % (eid, style), t, "fault-brk", "py", site, 0, False))
    for style, t in lc.break_variants("<%" + K + "   a = 1" + K + "%>"):
        if style in ("trailing-blanks", "blank-line-of-tabs", "mixed"):
            E.append(_entry("block.brk-" + style, t, "good-brk"))
    for style, t in lc.break_variants("${ (1 +" + K + " 2) }" + K):
        if style in ("blank-line-of-blanks", "mixed"):
            E.append(_entry("exprml.brk-" + style, t, "good-brk"))

    # ---- the fault ALPHABET: every construct that carries Python x every class of faulty Python text (data-dependent
    # faults).  All on one line, so the offending line is the construct's line whichever layer notices the fault.
    texts = [("reserved-word", "class"), ("reserved-word-for", "for"), ("reserved-word-import", "import"), ("reserved-word-lambda", "lambda"),
             ("reserved-word-in", "in"), ("soft-keyword-statement", "match v:"), ("closing-bracket", "v)"), ("stray-operator", "v +* 1"),
             ("unterminated-string", "'abc"), ("invalid-token", "v ? 1"), ("keyword-in-expression", "v + class"),
             ("keyword-as-argument", "str(import)"), ("assignment-to-keyword", "None = 1")]
    sites = [("expr", "${ %s }", "code", False), ("exprfilter", "${ v | %s }", "filter", False),
             ("block-rhs", "<%% z = %s %%>", "code", False), ("block-stmt", "<%%\n   %s\n%%>", "code", False),
             ("modblock-rhs", "<%%! z = %s %%>", "code", False),
             ("ctl.if", "%% if %s:\nx\n%% endif\n", "code", True), ("ctl.for", "%% for x in %s:\nx\n%% endfor\n", "code", True),
             ("ctl.while", "%% while %s:\nx\n%% endwhile\n", "code", True), ("ctl.with", "%% with %s as z:\nx\n%% endwith\n", "code", True),
             ("ctl.elif", "%% if v:\nx\n" + N + "%% elif %s:\ny\n%% endif\n", "code", True),
             ("ctl.except", "%% try:\nx\n" + N + "%% except %s:\ny\n%% endtry\n", "code", True),
             ("defsig", '<%%def name="f@(a=%s)">d</%%def>', "parse", False), ("pageargs", '<%%page args="a=%s"/>', "parse", False),
             ("blockargs", '<%%block name="b@" args="a=%s">x</%%block>', "parse", False),
             ("callexpr", '<%%call expr="str(%s)">c</%%call>', "code", False), ("callargs", '<%%call expr="str(1)" args="a=%s">c</%%call>', "parse", False),
             ("attrexpr", '<%%include file="${%s}"/>', "code", False), ("includeargs", '<%%include file="x" args="a=%s"/>', "code", False),
             ("deffilter", '<%%def name="f@()" filter="%s">d</%%def>', "parse", False), ("nscall", '<%%ns:foo x="${%s}"/>', "code", False)]
    for sid, tmpl, site, ls in sites:
        for tid, t in texts:
            if sid == "block-stmt" and tid == "soft-keyword-statement":
                continue        # (a statement header on a line of its own: Python reports the line after it)
            pfx = 1 if sid in ("ctl.elif", "ctl.except") else 0
            # the F marker goes right in front of the faulty text; block-stmt carries its own N on the statement line
            txt = tmpl.replace("%s", F + t.replace("%", "%%"), 1) if "%s" in tmpl else tmpl
            txt = txt.replace("%%", "%")
            E.append(_entry("py.%s.%s" % (sid, tid), txt, "fault-alpha", "py", site, pfx, ls))
    # empty / whitespace-only Python where an expression is required
    # (an empty ${} / expr=" " compiles and renders nothing - not a fault, the property is silent - so only the control lines)
    for sid, txt, site, ls in (("ctl.if", "% if " + F + ":\nx\n% endif\n", "code", True), ("ctl.for", "% for x in " + F + ":\nx\n% endfor\n", "code", True),
                               ("ctl.while", "% while " + F + " :\nx\n% endwhile\n", "code", True)):
        E.append(_entry("py.%s.empty" % sid, txt, "fault-alpha", "py", site, 0, ls))
    E.append(_entry("py.block-stmt.bad-indentation", "<%\n   a = 1\n" + F + "        b = 2\n%>", "fault-alpha", "py", "code", 0, False))
    E.append(_entry("py.block-stmt.unclosed-bracket", "<% z = " + F + "[v %>", "fault-alpha", "py", "code", 0, False))

    # ---- structural faults: N marks the construct the report must point at
    st("unterminated-expr", "${ v ", swallow=True)
    st("unterminated-expr-ml", "${ (v +\n 1", swallow=True)
    st("unterminated-expr-filter", "${ v | h ", swallow=True)
    st("unterminated-expr-filter-ml", "${ v\n | h ", swallow=True)
    st("expr-comment-to-eof", "${ v # c }", swallow=True, eof=True)
    st("expr-comment-then-eof", "${ v # c }\n", swallow=True)
    st("unterminated-block", "<% v = 1 ", swallow=True)
    st("unterminated-modblock", "<%!\n v = 1\n", swallow=True)
    st("unknown-tag", "<%foo/>")
    st("unknown-tag-open", "<%foo>x</%foo>")
    st("mismatched-close", '<%def name="f@()">\n  ' + N + "</%block>")
    st("mismatched-close-sameline", '<%def name="f@()">y ' + N + "</%call>")
    st("orphan-close", W + " " + N + "</%def>")
    st("unclosed-tag.def", '<%def name="f@()">\nx\n')
    st("unclosed-tag.block", "<%block>x")
    st("unclosed-tag.call", '<%call expr="str(1)">\nx\n')
    st("unclosed-tag.outer", '<%def name="f@()">\n<%def name="g@()">x\n</%def>')
    st("unclosed-text", "<%text>\nx\n", swallow=True)
    st("unterminated-ctl.if", I + "% if v:\nx\n", ls=True)
    st("unterminated-ctl.for", I + "% for x in v:\n", ls=True)
    st("unterminated-ctl.outer", I + "% if v:\n% while v:\nx\n% endwhile\n", ls=True)
    st("mismatched-end", "% if v:\nx\n" + N + I + "% endfor\n", ls=True)
    st("orphan-end", I + "% endfor\n", ls=True)
    st("illegal-ternary", "% for x in v:\n" + N + I + "% elif z:\n% endfor\n", ls=True)
    st("orphan-ternary.else", I + "% else:\nx\n", ls=True)
    st("orphan-ternary.elif", I + "% elif v:\nx\n", ls=True)
    st("orphan-ternary.except", I + "% except:\nx\n", ls=True)
    st("invalid-ctl", I + "% :\n", ls=True)
    st("unsupported-keyword", I + "% foo x:\n", ls=True)
    st("not-a-partial-statement", I + "% if v\n", ls=True)
    st("missing-attr.include", "<%include/>")
    st("missing-attr.inherit", "<%inherit/>")
    st("missing-attr.def", "<%def>x</%def>")
    st("missing-attr.call", "<%call>x</%call>")
    st("illegal-attr.include", '<%include file="x" foo="y"/>')
    st("illegal-attr.def", '<%def name="f@()" foo="y">x</%def>')
    st("illegal-attr.ml", '<%namespace name="n"\n   foo="y"/>')
    st("expr-in-nonexpr-attr", '<%def name="${x}()">x</%def>')
    st("dup-block", '<%block name="b@">x</%block>\n  ' + N + '<%block name="b@">y</%block>')
    st("def-and-block-same-name", '<%def name="b@()">x</%def> ' + N + '<%block name="b@">y</%block>')
    st("block-in-def", '<%def name="f@()">\n  ' + N + '<%block name="b@">y</%block></%def>')
    st("block-in-call", '<%call expr="str(1)">' + N + '<%block name="b@">y</%block></%call>')
    st("def-without-parens", '<%def name="f@">x</%def>')
    st("block-with-signature", '<%block name="b@()">x</%block>')
    st("anon-block-args", '<%block args="x">x</%block>')
    st("namespace-without-name", '<%namespace file="x"/>')
    st("namespace-file-and-module", '<%namespace name="n" file="x" module="y"/>')
    st("anon-block-in-namespace", '<%namespace name="n">\n  ' + N + "<%block>x</%block></%namespace>")
    return E, c


def catalog_module(E):
    """LinesCat.tla for this run: the measured geometry as a TLA+ literal."""
    items = [core.to_tla({"id": e["id"], "w": e["w"], "ls": e["ls"], "f": e["f"], "ev": e.get("ev", [])}) for e in E]
    return ("---- MODULE LinesCat ----\n(* generated by the harness: measured geometry of this run's construct texts *)\n"
            "CatDef == <<\n  " + ",\n  ".join(items) + " >>\n====\n")


def idx(E, group, pred=None):
    return [i + 1 for i, e in enumerate(E) if e["group"] == group and (pred is None or pred(e))]


ROUTES = ["string", "file", "file+mod", "lookup", "lookup+mod", "include", "include+mod", "inherit", "inherit+mod",
          "namespace", "namespace+mod"]


OPTS = ["none", "pre-identity", "pre-delete", "pre-insert", "pre-list", "bytes-magic", "bom", "strict_undefined", "enable_loop-false",
        "imports", "future_imports", "default_filters"]


def apply_option(opt, text):
    """Realise one option configuration of Lines.tla: (what is given to Template, keyword arguments, the text the
    lexer lexes = the source every node and exception must carry)."""
    import codecs
    del2 = lambda t: t.split("\n", 2)[2]        # noqa -- deletes the 2 lines in front
    ins2 = lambda t: "ins 1\nins 2\n" + t        # noqa -- puts 2 lines in front
    if opt == "pre-identity":
        return text, {"preprocessor": lambda t: t}, text
    if opt == "pre-delete":
        return "junk 1\njunk 2\n" + text, {"preprocessor": del2}, text
    if opt == "pre-insert":
        return text, {"preprocessor": ins2}, "ins 1\nins 2\n" + text
    if opt == "pre-list":
        return "junk 1\njunk 2\n" + text, {"preprocessor": [del2, ins2]}, "ins 1\nins 2\n" + text
    if opt == "bytes-magic":
        full = "## -*- coding: utf-8 -*-\n" + text
        return full.encode("utf-8"), {}, full
    if opt == "bom":
        return codecs.BOM_UTF8 + text.encode("utf-8"), {}, text
    kw = {"strict_undefined": {"strict_undefined": True}, "enable_loop-false": {"enable_loop": False}, "imports": {"imports": ["import os", "import re"]},
          "future_imports": {"future_imports": ["annotations"]}, "default_filters": {"default_filters": ["str", "trim"]}}.get(opt, {})
    return text, kw, text


def cfg(good, faulty, tails, maxpre, nlkinds, invariants, routes=("string",), rich_overrides=True, opts=("none",), source_lexed=True):
    s = "CONSTANTS\n  Good = {%s}\n  Faulty = {%s}\n  Tails = {%s}\n  MaxPre = %d\n  NLKinds = {%s}\n  Routes = {%s}\n  RichOverrides = %s\n  Opts = {%s}\n  SourceIsLexedText = %s\n" % (
        ", ".join(map(str, good)), ", ".join(map(str, faulty)), ", ".join(map(str, tails)), maxpre,
        ", ".join('"%s"' % x for x in nlkinds), ", ".join('"%s"' % x for x in routes), "TRUE" if rich_overrides else "FALSE",
        ", ".join('"%s"' % x for x in opts), "TRUE" if source_lexed else "FALSE")
    s += "SPECIFICATION Spec\nCHECK_DEADLOCK FALSE\n"
    for i in invariants:
        s += "INVARIANT %s\n" % i
    return s


# --------------------------------------------------------------------------- observing the real code
class _Timeout(Exception):
    pass


def _alarm(signum, frame):
    raise _Timeout()


_TMPL = []


def _record(o, e, text, fn, want_rich, want_html=True):
    """Fill observation `o` from the Mako exception `e` being handled (must be called inside the except block)."""
    from mako import exceptions
    o.update(res="exc", type=type(e).__name__, lineno=e.lineno, pos=e.pos,
             filename_ok=(e.filename == fn) if fn else (e.filename is None),
             filename=e.filename, source_ok=(e.source == text),
             source_line=(e.source.split("\n")[e.lineno - 1].rstrip("\r") if isinstance(e.source, str) and isinstance(e.lineno, int)
                          and 0 < e.lineno <= e.source.count("\n") + 1 else None), msg_ok=("line: %s char: %s" % (e.lineno, e.pos)) in str(e))
    if not want_rich:
        return
    try:
        rt = exceptions.RichTraceback()
        o["rich_lineno"] = rt.lineno
        o["rich_source_ok"] = rt.source == text
        last = rt.records[-1] if rt.records else None
        o["rich_last_record_python"] = bool(last) and last[4] is None and last[5] is None
        if not _TMPL:
            _TMPL.extend([exceptions.text_error_template(), exceptions.html_error_template()])
        txt = _TMPL[0].render_unicode()
        o["text_tmpl_ok"] = ("line: %s char: %s" % (e.lineno, e.pos)) in txt and type(e).__name__ in txt
        if want_html:
            html = _TMPL[1].render_unicode(full=False, css=False)
            m = re.search(r'class="error [^"]*"><table[^>]*><tr><td class="linenos"><div class="linenodiv"><pre>'
                          r'(?:<span[^>]*>)?\s*(\d+)', html)
            if m:       # pygments formatter: the offending line is marked and numbered
                o["html_error_line"] = int(m.group(1))
                mm = re.search(r'class="error [^"]*">.*?<td class="code"><div><pre>(.*?)</pre>', html, re.S)
                o["html_error_text"] = _html.unescape(re.sub(r"<[^>]*>", "", mm.group(1))).strip() if mm else None
            else:       # plain fallback: lines line-4 .. line+4 are shown
                m = re.search(r'<div class="sample">\s*<div class="nonhighlight">(.*?)</div>\s*</div>', html, re.S)
                o["html_window"] = [x.strip() for x in m.group(1).split("\n") if x.strip()] if m else None
    except Exception as e2:  # noqa
        o["rich_exc"] = type(e2).__name__


def observe(text, path, work, want_rich=False):
    """Compile `text` on one construction path; return the observation (never raises)."""
    from mako import exceptions
    from mako.template import Template
    from mako.lookup import TemplateLookup
    o = {"path": path}
    fn = None
    old = signal.signal(signal.SIGALRM, _alarm)
    signal.alarm(core.tscale(20))
    try:
        try:
            if path == "string":
                Template(text)
            else:
                d = os.path.join(work, "t-" + path)
                shutil.rmtree(d, ignore_errors=True)
                shutil.rmtree(os.path.join(work, "mods"), ignore_errors=True)
                os.makedirs(d)
                fn = os.path.join(d, "t.html")
                with open(fn, "wb") as f:
                    f.write(text.encode("utf-8"))
                if path == "file":
                    Template(filename=fn)
                elif path == "lookup":
                    TemplateLookup(directories=[d]).get_template("t.html")
                else:
                    md = os.path.join(work, "mods")
                    Template(filename=fn, module_directory=md)
            o["res"] = "noexc"
        except (exceptions.SyntaxException, exceptions.CompileException) as e:
            _record(o, e, text, fn, want_rich)
        except _Timeout:
            o["res"] = "raw:Timeout"
        except Exception as e:  # noqa -- an observation, not a harness failure
            o["res"] = "raw:" + type(e).__name__
    finally:
        signal.alarm(0)
        signal.signal(signal.SIGALRM, old)
    return o


def observe_option(raw, kw, lexed, path, work, want_html):
    """Compile with one option configuration on one path; `lexed` is the text the exception must carry."""
    from mako import exceptions
    from mako.template import Template
    from mako.lookup import TemplateLookup
    o = {"path": path}
    fn = None
    old = signal.signal(signal.SIGALRM, _alarm)
    signal.alarm(core.tscale(20))
    try:
        try:
            if path == "string":
                Template(raw, **kw)
            else:
                d = os.path.join(work, "o")
                shutil.rmtree(d, ignore_errors=True)
                os.makedirs(os.path.join(d, "tpl"))
                fn = os.path.join(d, "tpl", "f.html")
                with open(fn, "wb") as f:
                    f.write(raw if isinstance(raw, bytes) else raw.encode("utf-8"))
                if path == "file":
                    Template(filename=fn, **kw)
                else:
                    TemplateLookup(directories=[os.path.join(d, "tpl")], module_directory=os.path.join(d, "mods"), **kw).get_template("/f.html")
            o["res"] = "noexc"
        except (exceptions.SyntaxException, exceptions.CompileException) as e:
            _record(o, e, lexed, fn, True, want_html)
        except _Timeout:
            o["res"] = "raw:Timeout"
        except Exception as e:  # noqa
            o["res"] = "raw:" + type(e).__name__
    finally:
        signal.alarm(0)
        signal.signal(signal.SIGALRM, old)
    return o


def outer_template(kind, pre_lines, uri):
    """A well-formed template that makes the lookup compile `uri` while it renders; it has its own
    preceding lines, so the line of its tag differs from lines of the inner template."""
    pre = "".join("outer line %d\n" % (i + 1) for i in range(pre_lines))
    if kind == "include":
        return pre + "o <%%include file='%s'/>\nafter\n" % uri
    if kind == "inherit":
        return pre + "<%%inherit file='%s'/>\nbody\n" % uri
    return pre + "<%%namespace name='ns' file='%s'/>\nx ${ns.body()}\n" % uri


def observe_route(text, route, work, pre_lines, want_html):
    """Compile `text` along one compile route (Lines.tla `Routes`); RichTraceback and the error templates are
    always observed.  Never raises."""
    from mako import exceptions
    from mako.template import Template
    from mako.lookup import TemplateLookup
    kind, _, mod = route.partition("+")
    o = {"path": route}
    fn = None
    old = signal.signal(signal.SIGALRM, _alarm)
    signal.alarm(core.tscale(20))
    try:
        try:
            if kind == "string":
                Template(text)
            else:
                d = os.path.join(work, "r")
                shutil.rmtree(d, ignore_errors=True)
                os.makedirs(os.path.join(d, "tpl"))
                kw = {"module_directory": os.path.join(d, "mods")} if mod else {}
                fn = os.path.join(d, "tpl", "f.html")
                with open(fn, "wb") as f:
                    f.write(text.encode("utf-8"))
                if kind == "file":
                    Template(filename=fn, **kw)
                else:
                    lk = TemplateLookup(directories=[os.path.join(d, "tpl")], **kw)
                    if kind == "lookup":
                        lk.get_template("/f.html")
                    else:
                        with open(os.path.join(d, "tpl", "outer.html"), "w") as f:
                            f.write(outer_template(kind, pre_lines, "/f.html"))
                        lk.get_template("/outer.html").render(v=1)
            o["res"] = "noexc"
        except (exceptions.SyntaxException, exceptions.CompileException) as e:
            _record(o, e, text, fn, True, want_html)
        except _Timeout:
            o["res"] = "raw:Timeout"
        except Exception as e:  # noqa
            o["res"] = "raw:" + type(e).__name__
    finally:
        signal.alarm(0)
        signal.signal(signal.SIGALRM, old)
    return o


def html_window(text, line):
    from mako.filters import html_escape
    ls = text.split("\n")
    return [x for x in (html_escape(l).strip() for l in ls[max(0, line - 4):min(len(ls), line + 5)]) if x]


def compare(case, E, text, o):
    """First failing clause of the comparison of observation `o` with TLC's expectation, or None."""
    if o["res"] != "exc":
        return o["res"] if o["res"] != "noexc" else "no-exception"
    if o.get("module_left"):
        return "module-file-left-behind"
    if (o["lineno"] != case["line"] or o["pos"] not in case["cols"]) and (o["lineno"], o["pos"]) == lc.eof_position(text):
        return "reported-at-eof"
    if o["lineno"] != case["line"]:
        return "line-early" if o["lineno"] < case["line"] else "line-late"
    if o["pos"] not in case["cols"]:
        return "column"
    if "source_line" in o and o["source_line"] != lc.physical_line(text, case["line"]):
        return "source-inconsistent-with-line"     # exc.source, split on newlines and indexed by exc.lineno, is not the faulty line
    if not o["filename_ok"]:
        return "filename"
    if not o["source_ok"]:
        return "source"
    if not o["msg_ok"]:
        return "message-position"
    if "rich_exc" in o:
        return "richtraceback-raises:" + o["rich_exc"]
    if "rich_lineno" in o:
        if not o["rich_source_ok"]:
            return "richtraceback-shows-other-template"
        if o["rich_lineno"] != case["line"]:
            return "richtraceback-line"
        if not o.get("rich_last_record_python", True):
            return "richtraceback-last-record"
        if not o["text_tmpl_ok"]:
            return "text-error-template"
        if "html_error_line" in o:
            if o["html_error_line"] != case["line"] or (o.get("html_error_text") is not None and
                                                        o["html_error_text"] != (lc.physical_line(text, case["line"]) or "").strip()):
                return "html-error-template"
        elif "html_window" not in o:
            pass
        elif o.get("html_window") != html_window(text, case["line"]):
            return "html-error-template"
    return None


def check(run):
    thorough = run.thorough
    E, cos = build_catalog(run.rng)
    ids = [e["id"] for e in E]
    if len(set(ids)) != len(ids):
        raise MachineryError("duplicate catalog ids")
    for e in E:      # the measured geometry must describe the text (binding self-test of the measuring code)
        if e["f"]["cls"] == "py" and lc.MF not in e["text"]:
            raise MachineryError("catalog entry %s lacks the F marker" % e["id"])
    good, tails = idx(E, "good"), idx(E, "tail")
    faulty = idx(E, "fault", lambda e: not e.get("eof_only"))
    eof_only = idx(E, "fault", lambda e: e.get("eof_only"))
    design = idx(E, "design")
    files = {"LinesCat.tla": catalog_module(E)}
    env = {}
    maxpre = 2
    deep = [i + 1 for i, e in enumerate(E) if e["id"] in ("txt", "txtnl", "txtml", "cont", "cmt", "doc", "exprml", "ctlcont", "block")]
    nlk = ["lf", "crlf"]
    workers = int(os.environ.get("VERIF_TLC_WORKERS", "0")) or (None if thorough else 8)
    inv = ["CatalogOK", "ReportAtFault", "CursorIsPrefixSum"]
    cases = []

    seen = set()

    def take(res, group):
        n0 = len(seen)
        for c in res.json_lines():
            if not isinstance(c, dict) or "seq" not in c:
                continue
            key = (tuple(c["seq"]), c["nl"])
            if key in seen:
                continue
            seen.add(key)
            c["group"] = group
            cases.append(c)
        return len(seen) - n0

    # ------------------------------------------------------------------ 1. TLC: main instance
    res = run.tlc("MC_Lines", cfg(good, faulty, tails, maxpre, nlk, inv), name="mc-faults", workers=workers,
                  coverage=True, extra_files=files, env=env, timeout=1500)
    if res.violated:
        run.spec_violation(res, "Lines.tla: the line arithmetic of the design does not report the fault where the property demands")
        return {"rule": "model violated", "exhaustive": False}
    for a in ("AddPre", "Plant", "AddTail", "NoTail", "LexStep", "LexEnd", "Emit"):
        if not res.coverage.get(a, [0, 0])[1]:
            raise MachineryError("vacuous model checking: action %s never taken (%s)" % (a, res.coverage))
    n_main = take(res, "main")
    if thorough:     # deeper layouts (3 constructs before the fault) over the surroundings that move lines and columns most
        res = run.tlc("MC_Lines", cfg(deep, faulty, tails, 3, nlk, inv), name="mc-faults-deep", workers=workers,
                      extra_files=files, env=env, timeout=2400)
        if res.violated:
            run.spec_violation(res)
        n_main += take(res, "main")
    # faults that only exist at the very end of the input (no tail)
    res = run.tlc("MC_Lines", cfg(good, eof_only, [], maxpre, nlk, inv), name="mc-eof", workers=workers,
                  extra_files=files, env=env)
    if res.violated:
        run.spec_violation(res)
    n_eof = take(res, "eof")
    # ------------------------------------------------------------------ 2. TLC: Python strings that begin on a later line
    # Code-shaped arithmetic (nobody adds `coff`, nobody counts what the lexer stripped off a filter
    # list): TLC is expected to find ReportAtFault violated here; the cases are exported without the
    # invariant and the real code decides whether this is a finding.
    resd = run.tlc("MC_Lines", cfg(good, design, tails, 1, nlk, ["CatalogOK", "ReportAtFault"]), name="mc-design",
                   workers=workers, extra_files=files, env=env, expect_ok=False)
    run.extra["design_model_violation"] = resd.violated
    if resd.violated and resd.violated != ["ReportAtFault"]:
        run.spec_violation(resd)
    resd2 = run.tlc("MC_Lines", cfg(good, design, tails, maxpre, nlk, ["CatalogOK"]), name="mc-design-cases",
                    workers=workers, extra_files=files, env=env)
    n_design = take(resd2, "design")
    # ------------------------------------------------------------------ 2b. TLC: how the faulty template gets compiled
    few = [i + 1 for i, e in enumerate(E) if e["id"] in ("txtml", "cont", "block", "ctlcont")]
    # every style of line break / blank line inside the Python-bearing constructs (and inside what precedes them)
    brkf, brkg = idx(E, "fault-brk"), idx(E, "good-brk")
    resk = run.tlc("MC_Lines", cfg(few + brkg, brkf, tails, 1, nlk, inv), name="mc-break-styles", workers=workers,
                   extra_files=files, env=env)
    if resk.violated:
        run.spec_violation(resk)
    n_brk = take(resk, "main")
    bfaults = [i + 1 for i, e in enumerate(E) if e["id"] in (
        "py.expr", "py.block1", "py.modblock", "py.defsig", "py.callexpr", "py.attrexpr", "st.unknown-tag", "st.unterminated-expr", "st.unterminated-block",
        "st.missing-attr.include", "st.orphan-close", "st.unclosed-text", "st.illegal-attr.def", "st.def-without-parens")]
    resb = run.tlc("MC_Lines", cfg(idx(E, "good-b"), bfaults, idx(E, "tail-b"), 2, nlk, inv), name="mc-boundaries", workers=workers, extra_files=files, env=env)
    if resb.violated:
        run.spec_violation(resb)
    n_bnd = take(resb, "bnd")
    if n_bnd < 1000 or not any(c["group"] == "bnd" and c["bline"] == 1 and c["bcol"] == 2 for c in cases):
        raise MachineryError("boundary instance: no construct at line 1 column 2 among %d cases" % n_bnd)
    alpha = idx(E, "fault-alpha")
    resa = run.tlc("MC_Lines", cfg(few[:2], alpha, tails, 1, ["lf"], inv), name="mc-fault-alphabet", workers=workers, extra_files=files, env=env)
    if resa.violated:
        run.spec_violation(resa)
    n_alpha = take(resa, "alpha")
    if n_alpha < len(alpha) * 2:
        raise MachineryError("fault-alphabet instance exported only %d cases" % n_alpha)
    if n_brk < len(brkf) * 4:
        raise MachineryError("break-style instance exported only %d cases" % n_brk)
    allf = faulty + eof_only
    resr = run.tlc("MC_Lines", cfg(few, allf, [], 1, ["lf"], inv + ["RichShowsFault"], routes=ROUTES), name="mc-routes",
                   workers=workers, extra_files=files, env=env)
    if resr.violated:
        run.spec_violation(resr)
    route_cases = {}
    for c in resr.json_lines():
        if isinstance(c, dict) and "seq" in c and "route" in c:
            route_cases.setdefault((tuple(c["seq"]), c["route"]), c)
    route_cases = [route_cases[k] for k in sorted(route_cases)]
    covered = {(E[c["seq"][c["fpos"] - 1] - 1]["id"], c["route"]) for c in route_cases}
    if len(covered) != len(allf) * len(ROUTES):
        raise MachineryError("route instance covers %d of %d (fault entry, route) pairs" % (len(covered), len(allf) * len(ROUTES)))
    # witness: a RichTraceback that prefers the frames of the traceback over the error's own fields
    resw = run.tlc("MC_Lines", cfg(few, allf[:3], [], 0, ["lf"], ["RichShowsFault"], routes=ROUTES, rich_overrides=False),
                   name="mc-routes-witness", workers=2, extra_files=files, env=env, expect_ok=False)
    if resw.violated != ["RichShowsFault"]:
        raise MachineryError("witness: RichOverrides = FALSE must violate RichShowsFault on a lazy route (%s)" % resw.violated)
    # ------------------------------------------------------------------ 2c. TLC: options that transform the text before lexing
    inv_o = inv + ["SourceConsistent"]
    reso = run.tlc("MC_Lines", cfg(few[:2], allf, [], 1, ["lf"], inv_o, opts=OPTS), name="mc-options", workers=workers, extra_files=files, env=env)
    if reso.violated:
        run.spec_violation(reso)
    opt_cases = {}
    for c in reso.json_lines():
        if isinstance(c, dict) and "seq" in c and "opt" in c:
            opt_cases.setdefault((tuple(c["seq"]), c["opt"]), c)
    opt_cases = [opt_cases[k] for k in sorted(opt_cases)]
    if len({(E[c["seq"][c["fpos"] - 1] - 1]["id"], c["opt"]) for c in opt_cases}) != len(allf) * len(OPTS):
        raise MachineryError("option instance does not cover every (fault entry, option) pair")
    resw = run.tlc("MC_Lines", cfg(few[:1], allf[:3], [], 0, ["lf"], ["SourceConsistent"], opts=OPTS, source_lexed=False),
                   name="mc-options-witness", workers=2, extra_files=files, env=env, expect_ok=False)
    if resw.violated != ["SourceConsistent"]:
        raise MachineryError("witness: a source taken before the preprocessors ran must violate SourceConsistent (%s)" % resw.violated)
    run.extra["cases"] = {"main": n_main, "eof": n_eof, "design": n_design, "routes": len(route_cases), "options": len(opt_cases), "break-styles": n_brk}
    run.extra["catalog"] = {"good": len(good), "faults": len(faulty) + len(eof_only), "design_faults": len(design), "cosmetics": cos}
    if n_main < 1000:
        raise MachineryError("TLC exported only %d cases" % n_main)

    # ------------------------------------------------------------------ 3. R: concretise, compile, compare
    work = run.subdir("tpl")
    paths_all = ["file", "lookup", "moddir"]
    seen_multi = set()
    mism = {}
    checked = 0
    multi = 0
    cases.sort(key=lambda c: (c["seq"], c["nl"]))
    stride = 13 if thorough else 97
    for ci, case in enumerate(cases):
        nl = "\n" if case["nl"] == "lf" else "\r\n"
        text = lc.compose(E, case["seq"], nl)
        fe = E[case["seq"][case["fpos"] - 1] - 1]
        h = int(hashlib.sha1(("%d:%d" % (run.seed, ci)).encode()).hexdigest()[:8], 16)
        paths = ["string"]
        key = (fe["id"], case["nl"])
        if fe["group"] == "fault-alpha":     # the alphabet: a module directory for every entry (nothing may be left behind), the rest sampled
            if key not in seen_multi:
                seen_multi.add(key)
                paths += ["moddir"] + (["file", "lookup"] if h % 8 == 0 else [])
        elif key not in seen_multi or h % stride == 0:
            seen_multi.add(key)
            paths += paths_all
            multi += 1
        for p in paths:
            o = observe(text, p, work, want_rich=(p == "file" or (p == "string" and h % 211 == 0)))
            clause = compare(case, E, text, o)
            checked += 1
            if clause:
                sig = "%s:%s" % (fe["id"], clause)
                if sig not in mism:
                    mism[sig] = []
                mism[sig].append({"template": text, "path": p, "expected": {"line": case["line"], "cols": case["cols"]},
                                  "observed": o, "layout": [E[i - 1]["id"] for i in case["seq"]], "nl": case["nl"],
                                  "design_model_reports": {"line": case["mline"], "col": case["mcol"]}})
        if ci < 3:
            run.sample({"layout": [E[i - 1]["id"] for i in case["seq"]], "nl": case["nl"], "template": text,
                        "expected": {"line": case["line"], "cols": case["cols"]}})
    # ---- every fault entry x every compile route: exception fields, RichTraceback, error templates
    seen_html = set()
    for ci, case in enumerate(route_cases):
        text = lc.compose(E, case["seq"], "\n")
        fe = E[case["seq"][case["fpos"] - 1] - 1]
        h = int(hashlib.sha1(("%d:r:%d" % (run.seed, ci)).encode()).hexdigest()[:8], 16)
        key = (fe["id"], case["route"])
        want_html = key not in seen_html or h % 31 == 0
        seen_html.add(key)
        o = observe_route(text, case["route"], work, 1 + h % 4, want_html)
        clause = compare(case, E, text, o)
        checked += 1
        if clause:
            kind = case["route"].split("+")[0]
            sig = "%s:%s" % (fe["id"], clause)
            if clause.startswith(("richtraceback", "html-", "text-")) and kind in ("include", "inherit", "namespace"):
                sig += ":compiled-via-" + kind
            mism.setdefault(sig, []).append({"template": text, "path": case["route"], "expected": {"line": case["line"], "cols": case["cols"]},
                                             "observed": o, "layout": [E[i - 1]["id"] for i in case["seq"]], "nl": "lf",
                                             "design_model_reports": {"line": case["mline"], "col": case["mcol"]}})
    # ---- every fault entry x every option configuration: positions in the lexed text, the carried source, RichTraceback
    seen_oh = set()
    for ci, case in enumerate(opt_cases):
        text = lc.compose(E, case["seq"], "\n")
        fe = E[case["seq"][case["fpos"] - 1] - 1]
        h = int(hashlib.sha1(("%d:o:%d" % (run.seed, ci)).encode()).hexdigest()[:8], 16)
        raw, kw, lexed = apply_option(case["opt"], text)
        hk = (case["opt"], fe["f"]["cls"], fe["f"]["site"])
        want_html = hk not in seen_oh or h % 40 == 0
        seen_oh.add(hk)
        path = "string" if h % 3 else ("file" if h % 2 else "lookup+mod")
        o = observe_option(raw, kw, lexed, path, work, want_html)
        clause = compare(case, E, lexed, o)
        checked += 1
        if clause:
            sig = "%s:%s" % (fe["id"], clause)
            if case["opt"] != "none" and sig not in mism:
                sig += ":option-" + case["opt"]     # a failure of this class that is not seen without the option
            mism.setdefault(sig, []).append({"template": text, "path": path, "option": case["opt"], "expected": {"line": case["line"], "cols": case["cols"]},
                                             "observed": o, "layout": [E[i - 1]["id"] for i in case["seq"]], "nl": "lf",
                                             "design_model_reports": {"line": case["mline"], "col": case["mcol"]}})
    run.traces += checked
    run.extra["compilations_compared"] = checked
    run.extra["cases_on_all_four_paths"] = multi
    for sig in sorted(mism):
        lst = mism[sig]
        lst.sort(key=lambda m: len(m["template"]))
        m0 = lst[0]
        obs = m0["observed"]
        what = ("fault %s: property demands line %s col %s; %s path gives %s"
                % (sig.split(":")[0], m0["expected"]["line"], m0["expected"]["cols"], m0["path"],
                   ("line %s col %s (%s)" % (obs.get("lineno"), obs.get("pos"), obs.get("type"))) if obs["res"] == "exc" else obs["res"]))
        m0["occurrences"] = len(lst)
        run.violation(sig, what, m0)

    # ------------------------------------------------------------------ 4. negative controls
    pick = [c for c in cases if c["group"] == "main" and E[c["seq"][c["fpos"] - 1] - 1]["id"] in ("py.block", "st.unknown-tag")][:40]
    rejected = 0
    for case in pick:
        nl = "\n" if case["nl"] == "lf" else "\r\n"
        text = lc.compose(E, case["seq"], nl)
        o = observe(text, "string", work)
        if compare(case, E, text, o) is not None:
            continue
        bad = dict(case)
        bad["line"] = case["line"] + 1
        r1 = compare(bad, E, text, o) is not None
        if not mism:
            o2 = observe(nl + text, "string", work)          # an unaccounted line before everything
        else:       # on a tree with violations: the same comparer on a synthetic shifted observation
            o2 = dict(o, lineno=o["lineno"] + 1, source_ok=True)
        r2 = compare(case, E, nl + text, o2) is not None
        bad = dict(case)
        bad["cols"] = [x + 1 for x in case["cols"]] if len(case["cols"]) == 1 else [max(case["cols"]) + 1]
        r3 = compare(bad, E, text, o) is not None
        run.negative_control(r1 and r2 and r3, "comparer accepted a corrupted expectation / shifted template (%s)" % case["seq"])
        rejected += 1
    # the same controls on a synthetic observation (independent of how the tree under test behaves)
    for case in pick[:10]:
        text = lc.compose(E, case["seq"], "\n" if case["nl"] == "lf" else "\r\n")
        syn = {"res": "exc", "type": "SyntaxException", "lineno": case["line"], "pos": case["cols"][0], "filename_ok": True,
               "source_ok": True, "msg_ok": True, "source_line": lc.physical_line(text, case["line"])}
        ok = compare(case, E, text, syn) is None
        ok = ok and compare(case, E, text, dict(syn, lineno=case["line"] + 1)) is not None
        ok = ok and compare(case, E, text, dict(syn, pos=max(case["cols"]) + 1)) is not None
        ok = ok and compare(case, E, text, dict(syn, source_ok=False)) is not None
        ok = ok and compare(case, E, text, dict(syn, source_line="some other line")) is not None
        run.negative_control(ok, "comparer mis-judged a synthetic observation (%s)" % case["seq"])
        rejected += 1
    if not rejected:
        raise MachineryError("no negative control could be run")
    run.assumptions += [
        "the catalog texts are fixed construct kinds with seed-dependent cosmetics; only their measured geometry goes to TLC",
        "column of an indented control line: with or without the indentation is accepted (the property is silent)",
        "SyntaxException and CompileException are both accepted for every fault class",
        "three file-based paths + RichTraceback/error templates are run on a seeded sample covering every fault entry x line terminator",
        "options: preprocessor identity / deleting 2 lines / inserting 2 lines / a list of both, bytes with a magic-comment first line, BOM, "
        "strict_undefined, enable_loop=False, imports, future_imports, default_filters: every fault entry x every option each run (<=1 preceding construct "
        "of 2 kinds); positions are positions in the text the lexer lexes, and exc.source indexed by exc.lineno must be the faulty line",
        "boundaries: 0 / 1 / 2 / 3 / many characters before the construct on its line x first line / later line / after a continuation x LF/CRLF, and the "
        "construct ending at the last / second-to-last character with and without a final terminator, for 14 inline fault entries; the column must be exact",
        "fault alphabet: 20 Python-carrying sites x 13 classes of faulty text (reserved words alone, soft-keyword statement, closing bracket, stray "
        "operator, unterminated string, invalid token, keyword inside an expression / as argument, assignment to a keyword) + empty conditions, bad "
        "indentation, unclosed bracket; all on one line; an empty ${} or expr=\" \" compiles and renders nothing and is not counted as a fault; with a "
        "module directory no .py file may remain after the failed compile",
        "compile routes (direct string/file/lookup, lazily via include/inherit/namespace from a rendering outer template, each with and "
        "without module_directory): every fault entry x every route each run, over <=1 preceding construct of 4 kinds; html template on a sample per pair",
    ]
    return {"rule": "TLC enumerates layouts (<=%d constructs before [3 over a 9-entry subset in the thorough tier], <=1 after) x %d fault entries x {LF,CRLF} and checks ReportAtFault/"
                    "CursorIsPrefixSum; every exported case is compiled by the real mako and exc.lineno/pos/filename/source, RichTraceback, "
                    "text/html error templates are compared with the exported expectation. A case = (layout, fault entry, terminator)."
                    % (maxpre, len(faulty) + len(eof_only) + len(design)),
            "exhaustive": True}
