"""Backends used by the C17 check.

* RecordingDictImpl -- a reference CacheImpl: a plain dict store[cache.id][key], registered with
  mako.cache.register_plugin("verif_rec", ...).  It logs every call it receives (operation, cache
  id, key, keyword arguments) into the Recorder that is current when the Cache object is built.
* RecordingProxy -- wraps the CacheImpl of any other backend (Beaker, dogpile.cache) and logs the
  same way before delegating.

Nothing here knows what the calls *should* be; the log is compared with the TLA+ model elsewhere.
"""
PLUGIN = "verif_rec"


def tag(v):
    """Tagged value: ints and strings stay distinguishable inside TLC ("i:7" / "s:7")."""
    if isinstance(v, bool):
        return "o:bool"
    if isinstance(v, int):
        return "i:%d" % v
    if isinstance(v, str):
        return "s:" + v
    return "o:" + type(v).__name__


class Recorder:
    """Shared state of one history: the backend content (reference backend only) and the call log."""

    def __init__(self, pass_context=False):
        self.store = {}
        self.log = []
        self.pass_context = pass_context
        self.counter = None      # the counter object of the render in progress (to recognise its context)

    def norm_kw(self, kw):
        out = []
        for k in sorted(kw):
            v = kw[k]
            if k == "context":
                ok = False
                try:
                    from mako.runtime import Context
                    ok = isinstance(v, Context) and self.counter is not None and v.get("c", None) is self.counter
                except Exception:  # noqa
                    ok = False
                out.append([k, "CTX" if ok else "o:not-the-rendering-context"])
            else:
                out.append([k, tag(v)])
        return out

    def record(self, op, cache_id, key, kw):
        self.log.append({"op": op, "ns": cache_id, "key": key, "kw": self.norm_kw(kw)})

    def take(self):
        log, self.log = self.log, []
        return log


CURRENT = [None]


def install(recorder):
    """Make `recorder` the one picked up by RecordingDictImpl instances built from now on."""
    from mako.cache import register_plugin
    register_plugin(PLUGIN, __name__, "RecordingDictImpl")
    CURRENT[0] = recorder


def _base():
    from mako.cache import CacheImpl
    return CacheImpl


def _make_classes():
    CacheImpl = _base()

    class RecordingDictImpl(CacheImpl):
        def __init__(self, cache):
            super().__init__(cache)
            self.rec = CURRENT[0]

        @property
        def pass_context(self):
            return self.rec.pass_context

        def _ns(self):
            return self.rec.store.setdefault(self.cache.id, {})

        def get_or_create(self, key, creation_function, **kw):
            self.rec.record("goc", self.cache.id, key, kw)
            ns = self._ns()
            if key in ns:
                return ns[key]
            value = creation_function()
            self._ns()[key] = value
            return value

        def set(self, key, value, **kw):
            self.rec.record("set", self.cache.id, key, kw)
            self._ns()[key] = value

        def get(self, key, **kw):
            self.rec.record("get", self.cache.id, key, kw)
            return self._ns().get(key)

        def invalidate(self, key, **kw):
            self.rec.record("inv", self.cache.id, key, kw)
            self._ns().pop(key, None)

    class RecordingProxy(CacheImpl):
        def __init__(self, real, recorder):
            super().__init__(real.cache)
            self.real = real
            self.rec = recorder

        @property
        def pass_context(self):
            return self.real.pass_context

        def get_or_create(self, key, creation_function, **kw):
            self.rec.record("goc", self.cache.id, key, kw)
            return self.real.get_or_create(key, creation_function, **kw)

        def set(self, key, value, **kw):
            self.rec.record("set", self.cache.id, key, kw)
            return self.real.set(key, value, **kw)

        def get(self, key, **kw):
            self.rec.record("get", self.cache.id, key, kw)
            return self.real.get(key, **kw)

        def invalidate(self, key, **kw):
            self.rec.record("inv", self.cache.id, key, kw)
            return self.real.invalidate(key, **kw)

    return RecordingDictImpl, RecordingProxy


_classes = {}


def __getattr__(name):
    # classes are created on first use so that `mako` is imported from $MAKO_SRC at that moment
    if name in ("RecordingDictImpl", "RecordingProxy"):
        if not _classes:
            a, b = _make_classes()
            _classes["RecordingDictImpl"], _classes["RecordingProxy"] = a, b
        return _classes[name]
    raise AttributeError(name)
