"""C19 -- embedded Python keeps its meaning through analysis and re-emission.

Specifications: spec/PyExpr.tla (space of expressions, reference rendering, precedence table),
spec/PySig.tla (shapes of parameter lists around the defaults),
spec/PyScope.tla (free/bound names of statement blocks), spec/Remargin.tla (lexical state of
<% %> blocks line by line: which lines get the margin removed, which are string content).

TLC supplies the space, the reference forms and the expected sets; CPython (ast, compile, eval,
exec, symtable) is the judge of "same meaning"; Python here only concretises, runs Mako, projects
and compares.  Every disagreement is reduced to a narrow signature (site, abstract feature,
failure mode).
"""
import ast
import json
import re

from . import core
from .core import MachineryError
from . import c19_scope, c19_remargin, c19_sig


def need_actions(res, names, module):
    """vacuity: every named action must have generated states (parametrised actions carry a
    location suffix in TLC's coverage lines, which core's parser does not read)"""
    cov = {}
    for name, g in re.findall(r"(?m)^<(\w+) line \d+, col \d+ to line \d+, col \d+ of module \w+(?: \([\d ]+\))?>: \d+:(\d+)", res.out):
        cov[name] = cov.get(name, 0) + int(g)
    for a in names:
        if not cov.get(a):
            raise MachineryError("vacuous: action %s of %s never taken (%s)" % (a, module, cov))
    return cov


# =========================================================================== (iii) PyExpr
ENVS = [
    dict(a=5, b=3, s=list(range(60)), k=1, x=2, y=1),
    dict(a=2, b=7, s=list(range(0, 120, 2)), k=0, x=1, y=4),
    dict(a=4, b=0, s=list(range(60)), k=1, x=0, y=2),
    dict(a=0, b=6, s=list(range(60)), k=1, x=3, y=0),
]


def _env(i):
    e = dict(ENVS[i])
    e["f"] = lambda *p, **kw: (p, sorted(kw.items()))
    e["__builtins__"] = {}
    return e


def _norm(v, depth=0):
    import types
    if isinstance(v, types.GeneratorType):
        return ("gen", [_norm(x, depth + 1) for x in v])
    if isinstance(v, types.FunctionType) and depth < 2:
        try:
            return ("fn", _norm(v(2), depth + 1))
        except Exception as e:  # noqa
            return ("fn-exc", type(e).__name__)
    if isinstance(v, (list, tuple)):
        return (type(v).__name__, [_norm(x, depth + 1) for x in v])
    if isinstance(v, dict):
        return ("dict", sorted((repr(_norm(k, depth + 1)), repr(_norm(x, depth + 1))) for k, x in v.items()))
    if isinstance(v, (set, frozenset)):
        return ("set", sorted(repr(_norm(x, depth + 1)) for x in v))
    return repr(v)


def evalnorm(src, i):
    try:
        return ("val", _norm(eval(compile(src, "<expr>", "eval"), _env(i))))
    except Exception as e:  # noqa -- an exception is a value of the comparison
        return ("exc", type(e).__name__)


def judge(text, ref):
    """is `text` (printed by Mako) the expression `ref`?  CPython decides."""
    try:
        t = ast.parse(text, mode="eval")
    except (SyntaxError, ValueError):
        return "syntax-error"
    if ast.dump(t) == ast.dump(ast.parse(ref, mode="eval")):
        return "ok"
    # a different AST is a different expression; evaluation only tells how visible the difference is
    # (coincidences such as (b if a else 1) | b == b if a else (1 | b) must not be taken for sameness)
    vals = [(evalnorm(ref, i), evalnorm(text, i)) for i in range(len(ENVS))]
    if any(a != b for a, b in vals):
        return "value-differs"
    return "ast-differs"


def reemit_default(src):
    from mako import ast as mast
    d = mast.FunctionDecl("def fn(x=%s):pass" % src).get_argument_expressions()
    if len(d) != 1 or not d[0].startswith("x="):
        return None
    return d[0][2:]


def reemit_filterarg(src):
    from mako import ast as mast
    args = mast.ArgumentList("flt(%s)" % src).args
    if len(args) != 1:
        return None
    if not (args[0].startswith("flt(") and args[0].endswith(")")):
        return None
    return args[0][4:-1]


def direct(case, which):
    """mode of the direct re-emission of case['min'] by the function Mako uses for that site"""
    try:
        text = (reemit_default if which == "default" else reemit_filterarg)(case["min"])
    except Exception as e:  # noqa
        return "exc:" + type(e).__name__, None
    if text is None:
        return "shape-lost", None
    return judge(text, case["ref"]), text


MODULE_ENV = ("<%%!\na = 5\nb = 3\ns = list(range(60))\nk = 1\nx = 2\ny = 1\n"
              "f = lambda *p, **kw: (p, sorted(kw.items()))\n%%>\n")
TEMPLATE = MODULE_ENV + ("<%%page args=\"pg=%(e)s\"/>\n<%%def name=\"df(x=%(e)s)\">D</%%def>\n"
            "<%%block name=\"bk\" args=\"bx=%(e)s\">B</%%block>\n${'v' | flt(%(e)s)}\n")


def via_template(case):
    """{site: (mode, text)} for the four placements, read back from Template.code"""
    from mako.template import Template
    src = TEMPLATE % {"e": case["min"].replace('"', "&quot;") if False else case["min"]}
    out = {}
    try:
        code = Template(src).code
        mod = ast.parse(code)
    except Exception as e:  # noqa
        # defaults are evaluated when the generated module is imported: an expression that raises there by
        # its own meaning (the reference raises the same) tells nothing about re-emission
        if evalnorm(case["ref"], 0) == ("exc", type(e).__name__):
            return {}, src
        return {s: ("exc:" + type(e).__name__, None) for s in ("page", "def", "block", "filter")}, src
    fns = {n.name: n for n in ast.walk(mod) if isinstance(n, ast.FunctionDef)}

    def dflt(fname, arg):
        fn = fns.get(fname)
        if fn is None:
            return None
        names = [a.arg for a in fn.args.args]
        if arg not in names:
            return None
        k = names.index(arg) - (len(names) - len(fn.args.defaults))
        return ast.get_source_segment(code, fn.args.defaults[k]) if k >= 0 else None
    texts = {"page": dflt("render_body", "pg"), "def": dflt("render_df", "x"), "block": dflt("render_bk", "bx"), "filter": None}
    for n in ast.walk(mod):
        if isinstance(n, ast.Call) and isinstance(n.func, ast.Call) and isinstance(n.func.func, ast.Name) and n.func.func.id == "flt" and len(n.func.args) == 1:
            texts["filter"] = ast.get_source_segment(code, n.func.args[0])
    for s, t in texts.items():
        out[s] = ("shape-lost", None) if t is None else (judge(t, case["ref"]), t)
    return out, src


def part_pyexpr(run):
    wraps = 2
    cfg = "CONSTANT MaxWraps = %d\nSPECIFICATION Spec\nINVARIANT TableOK\nINVARIANT SpineOK\nCHECK_DEADLOCK FALSE\n" % wraps
    res = run.tlc("PyExpr", cfg, name="mc-pyexpr", workers=4, coverage=True, timeout=900)
    if res.violated:
        run.spec_violation(res)
        return
    need_actions(res, ("Wrap", "Emit"), "PyExpr")
    cases = {}
    for c in res.json_lines():
        if isinstance(c, dict) and "spine" in c and "ref" in c:
            cases[(tuple(c["spine"]), c["leaf"])] = c
    extra = {}
    if run.thorough:   # deeper spines by simulation
        cfg3 = cfg.replace("MaxWraps = 2", "MaxWraps = 4")
        r3 = run.tlc("PyExpr", cfg3, name="sim-pyexpr", workers=1, simulate="num=60000", depth=8, timeout=900, count=False)
        for c in r3.json_lines():
            if isinstance(c, dict) and "spine" in c and len(c["spine"]) > 2:
                extra[(tuple(c["spine"]), c["leaf"])] = c
    if len(cases) < 20000:
        raise MachineryError("PyExpr printed only %d expressions" % len(cases))
    forms = _forms_table(res)
    leafcls = _leaf_classes()
    # the specification's own precedence table is judged by CPython first
    for k, c in list(cases.items()) + list(extra.items()):
        try:
            same = ast.dump(ast.parse(c["min"], mode="eval")) == ast.dump(ast.parse(c["ref"], mode="eval"))
        except SyntaxError:
            same = False
        if not same:
            raise MachineryError("PyExpr.tla: min and ref differ under CPython for %r / %r" % (c["min"], c["ref"]))
    memo = {}

    def mode_of(key, which):
        if (key, which) not in memo:
            c = cases.get(key) or extra.get(key)
            memo[(key, which)] = direct(c, which) if c else ("absent", None)
        return memo[(key, which)]

    def label(fid, last, single):
        f = forms[fid]
        return f["cls"] + ("." + f["pos"] if (not last or single) else "")

    def reduce_sig(key, which, mode):
        """smallest contiguous window of the spine (with leaf `a`, then the own leaf) that fails on its own;
        the failure is attributed to that sub-chain, with the mode it shows there"""
        spine, leaf = key
        n = len(spine)
        special = leaf in leafcls          # a degenerate atom: it is the innermost element of the chain, by its class
        for ln in range(0, n + 1):
            for st in range(0, n - ln + 1):
                w = spine[st:st + ln]
                for lf in ("a", leaf):
                    k2 = (w, lf)
                    if (k2 in cases or k2 in extra) and mode_of(k2, which)[0] != "ok":
                        if lf == leaf and special:
                            return ">".join([label(fid, False, False) for fid in w] + [leafcls[leaf]]), k2
                        return ">".join(label(fid, i == ln - 1, ln == 1) for i, fid in enumerate(w)), k2
        return "leaf(%s)" % leaf, key
    stats = {"ok": 0, "bad": 0}
    sigs = {}
    allc = sorted(cases) + sorted(extra)
    for key in allc:
        c = cases.get(key) or extra[key]
        for which in ("default", "filter"):
            mode, text = mode_of(key, which)
            run.traces += 1
            if mode == "ok":
                stats["ok"] += 1
                continue
            stats["bad"] += 1
            chain, kmin = reduce_sig(key, which, mode)
            mode = mode_of(kmin, which)[0]
            site = "reemit" if mode_of(kmin, "default")[0] == mode_of(kmin, "filter")[0] else "reemit-" + which
            sig = "pyexpr:%s:%s:%s" % (site, chain, mode)
            if sig in sigs:
                sigs[sig]["count"] += 1
                continue
            cm = cases.get(kmin) or extra[kmin]
            sigs[sig] = {"count": 1, "written": cm["min"], "reference": cm["ref"], "printed": mode_of(kmin, which)[1]}
    for sig in sorted(sigs):
        s = sigs[sig]
        run.violation(sig, "Mako re-emits %r as %r (reference %s): %s [%d expressions of the space reduce to this]"
                      % (s["written"], s["printed"], s["reference"], sig.rsplit(":", 1)[-1] if "exc:" not in sig else sig[sig.index("exc:"):], s["count"]),
                      {"written": s["written"], "reference": s["reference"], "printed": s["printed"], "count": s["count"],
                       "repro": "from mako import ast; print(ast.FunctionDecl('def fn(x=%s):pass').get_argument_expressions())" % s["written"]})
    # the four placements in real templates, read back from Template.code
    # (expressions containing a double quote -- the f-string forms -- cannot stand in a "..." tag attribute; direct path only)
    small = [k for k in sorted(cases) if len(k[0]) <= 1 and '"' not in cases[k]["min"]]
    deep = [k for k in sorted(cases) if len(k[0]) == 2 and '"' not in cases[k]["min"]]
    run.rng.shuffle(deep)
    sample = small + deep[: (6000 if run.thorough else 1200)]
    tsigs = {}
    for key in sample:
        c = cases[key]
        d = {"page": mode_of(key, "default")[0], "def": mode_of(key, "default")[0], "block": mode_of(key, "default")[0],
             "filter": mode_of(key, "filter")[0]}
        got, src = via_template(c)
        run.traces += 1
        for site, (mode, text) in got.items():
            if mode == "ok" or d[site] != "ok":
                continue          # either fine, or already reported through the direct path
            chain = ">".join(label(fid, i == len(key[0]) - 1, len(key[0]) == 1) for i, fid in enumerate(key[0])) or "leaf"
            sig = "pyexpr:template-%s:%s:%s" % (site, chain, mode)
            if sig not in tsigs:
                tsigs[sig] = True
                run.violation(sig, "placed as %s argument, %r comes back from Template.code as %r (reference %s)" % (site, c["min"], text, c["ref"]),
                              {"template": src, "written": c["min"], "reference": c["ref"], "printed": text})
    run.extra["pyexpr"] = {"expressions": len(cases) + len(extra), "reemissions_ok": stats["ok"], "reemissions_bad": stats["bad"],
                           "signatures": len(sigs), "templates": len(sample),
                           "signature_list": {k: [v["count"], v["written"], v["printed"]] for k, v in sorted(sigs.items())}}
    run.sample({"part": "pyexpr", "case": cases[deep[0]], "printed": mode_of(deep[0], "default")[1]}, limit=8)
    # negative control: the judge must reject a reference that is a different expression
    k_ok = next(k for k in deep if mode_of(k, "default")[0] == "ok" and "add_l" not in k[0])
    c = cases[k_ok]
    run.negative_control(judge(mode_of(k_ok, "default")[1], "(" + c["ref"] + " + (1))") != "ok", "expression judge accepted a different reference")


def _forms_table(res):
    """id -> {cls,pos} read from the specification text itself (so signatures use the spec's names)"""
    txt = open(core.SPEC_DIR + "/PyExpr.tla").read()
    out = {}
    for m in re.finditer(r'\[id \|-> "(\w+)", cls \|-> "([^"]+)", pos \|-> "([^"]+)"', txt):
        out[m.group(1)] = {"cls": m.group(2), "pos": m.group(3)}
    if len(out) < 50:
        raise MachineryError("could not read the Forms table of PyExpr.tla")
    return out


def _leaf_classes():
    """text -> class of the degenerate atoms (deep |-> FALSE) of PyExpr.tla"""
    txt = open(core.SPEC_DIR + "/PyExpr.tla").read()
    out = {}
    for line in txt.split("\n"):
        if "deep |-> FALSE" in line:
            text = line[line.index('text |-> "') + 10:line.index('", prec |->')].replace('\\"', '"')
            out[text] = line[line.index('cls |-> "') + 9:line.rindex('"')]
    if len(out) < 10:
        raise MachineryError("could not read the degenerate leaves of PyExpr.tla")
    return out


def check(run):
    import mako
    import warnings
    warnings.filterwarnings("ignore", category=SyntaxWarning)     # `1 is 1`, `'s'(b)` ... are part of the space
    run.extra["mako_file"] = mako.__file__
    part_pyexpr(run)
    c19_sig.part_pysig(run)
    c19_scope.part_pyscope(run)
    c19_remargin.part_remargin(run)
    run.assumptions += [
        "CPython's ast/compile/eval/exec/symtable judge equality of meaning; TLC supplies spaces, reference forms and expected sets",
        "an expression printed by Mako is the same expression iff CPython parses it to the same AST as the reference; evaluation in four environments only grades the difference",
    ]
    return {"rule": "expressions: every parent/position/child chain of the forms table up to 2 wraps (deeper by simulation in thorough); "
                    "statement blocks and <% %> blocks: every block of the bounded grammars; each case is run once through Mako",
            "exhaustive": True}
