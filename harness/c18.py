"""C18 -- template text round-trips through input and output encodings.

Specification: spec/Encoding.tla (decision machine of Lexer.decode_raw_stream followed by the
construction-path machine and runtime._render), spec/MC_Encoding.tla (cell sets),
spec/Encoding_Tables.tla (codec tables generated here from CPython's codecs on every run).

 1. TLC checks Precedence, ErrorsExact, SameTemplateAsDecodedText, RenderEncodes,
    RenderUnicodeIgnoresOutputEncoding over every cell of the input grid and of the output grid.
 2. R: for a list of cells TLC prints the expected observations (result class, chosen encoding,
    coding of the module file, render_unicode symbols, render() bytes, Template.source symbols);
    every cell is concretised into a real template (text, expression, Python string literal, tag
    attribute), realised on its path in child processes (the reload path in a later process) and
    compared clause by clause.  Python holds no oracle: it only builds bytes from symbols.

`python -m harness.c18 child <jobs.json> <out.json>` is the child-process entry point.
"""
import codecs
import hashlib
import json
import os
import re
import subprocess
import sys

from . import core
from .core import MachineryError

# --------------------------------------------------------------------------- codec tables
# codec names on the TLA+ side are identifier-safe (record fields); PY gives the spelling used in templates / arguments
PY = {"ascii": "ascii", "utf_8": "utf-8", "latin_1": "latin-1", "cp1251": "cp1251", "cp1252": "cp1252", "koi8_r": "koi8-r",
      "shift_jis": "shift_jis", "euc_jp": "euc-jp", "gb2312": "gb2312", "iso_8859_15": "iso-8859-15", "utf8": "utf8"}
_INPUT = list(PY)
TRUE_CODECS = [c for c in _INPUT if c != "utf8"]      # ASCII-compatible codecs: usable for template input
# output_encoding is arbitrary: also codecs that emit a BOM and codecs that do not map ASCII to the ASCII bytes
OUT_EXTRA = {"utf_8_sig": "utf-8-sig", "utf_16": "utf-16", "utf_16_le": "utf-16-le", "utf_16_be": "utf-16-be", "utf_32": "utf-32",
             "cp037": "cp037", "cp500": "cp500"}
OUT_CLASS = {"utf_8_sig": "bom", "utf_16": "bom", "utf_32": "bom", "utf_16_le": "not_ascii_compatible", "utf_16_be": "not_ascii_compatible",
             "cp037": "not_ascii_compatible", "cp500": "not_ascii_compatible"}
OUT_CODECS = TRUE_CODECS + list(OUT_EXTRA)
PY.update(OUT_EXTRA)
SKEL = {"skT": "T:", "skB": " |\n"}          # the ASCII pieces of the rendered output, symbols of the output document
ALIASES = {"utf8": "utf_8"}                       # an alias spelling usable in a coding comment
# representative characters; "kata" (U+30BD) is 83 5C in shift_jis: a trail byte in the ASCII range (the backslash)
BASE = {"A": "A", "eacute": "é", "euro": "€", "zhe": "Ж", "hira": "あ", "han": "中", "kata": "\u30bd"}
ERRS = ["strict", "replace", "ignore", "xmlcharrefreplace", "backslashreplace"]
NONE = "none"
# byte strings that may be undecodable, by kind, and where they are put into the input
JUNK = {"jff": "ff", "j81": "81",                                       # a byte invalid in the codec
        "jc3": "c3", "je381": "e381", "j82": "82", "ja4": "a4", "j8fab": "8fab", "jd6": "d6",   # truncated multi-byte sequence
        "jc080": "c080", "jeda080": "eda080",                           # overlong / illegal continuation (utf-8)
        "j80": "80", "jbf": "bf"}                                       # lone trail byte
JUNK_KIND = {"jff": "invalid", "j81": "invalid", "jc080": "illegal", "jeda080": "illegal", "j80": "lone-trail", "jbf": "lone-trail"}
POSITIONS = ["start", "aftercomment", "incomment", "middle", "eol_lf", "eol_crlf", "eof"]
FOLLOWER = {"start": "sp", "aftercomment": "sp", "incomment": "sp", "middle": "sp", "eol_lf": "lf", "eol_crlf": "crlf", "eof": "eof"}
# Characters chosen by how their BYTES interact with the framing of the input (BOM, magic comment, line ends, template
# syntax), placed like the byte strings above -- at the first position, right after the magic comment, inside it, in
# the middle and at the ends of lines and of the input -- encoded in the cell's own codec (so they are decodable):
EDGE = {"fw": "\uff21",        # utf-8 form starts with 0xEF, like the BOM (full-width A; also in the CJK codecs)
        "bomset": "\ufefb",    # utf-8 form EF BB BB consists of BOM bytes only
        "bom2": "\ufeff",      # a second U+FEFF after the mark
        "fffd": "\ufffd",      # EF BF BD
        "astral": "\U0001f600",  # non-BMP, four bytes F0..
        "hash": "#",           # the first byte of a magic comment, without being one
        "sj5c": "\u8868", "sj7c": "\u30dd", "sj7d": "\u30de", "sj40": "\u30a1"}   # shift_jis trail bytes \ | } @
JUNK_CODEC = {j: "any" for j in JUNK}
for _n, _ch in EDGE.items():
    for _c in (("utf_8", "latin_1", "shift_jis") if _n == "hash" else ("utf_8", "shift_jis", "euc_jp", "gb2312")):
        try:
            _hx = _ch.encode(PY[_c]).hex()
        except UnicodeEncodeError:
            continue
        _j = "c_%s_%s" % (_n, _c)
        JUNK[_j] = _hx
        JUNK_KIND[_j] = "char"
        JUNK_CODEC[_j] = _c
FOLLOW_BYTES = {"sp": b" ", "lf": b"\n", "crlf": b"\r\n", "eof": b""}


def build_tables():
    """Everything TLC knows about codecs, computed from CPython.  Returns (tables, SYM) where SYM
    maps symbol names to concrete strings."""
    asc = bytes(range(128))
    for c in TRUE_CODECS:
        if asc.decode(PY[c]) != asc.decode("ascii") or asc.decode("ascii").encode(PY[c]) != asc:
            raise MachineryError("codec %s is not ASCII compatible in this CPython" % c)
    sym = dict(BASE)
    rev = {v: k for k, v in sym.items()}
    rep = {}
    hexes = set()
    for c in TRUE_CODECS:
        rep[c] = []
        for n, ch in BASE.items():
            try:
                hexes.add("h" + ch.encode(PY[c]).hex())
                rep[c].append(n)
            except UnicodeEncodeError:
                pass
    base_hexes = set(hexes)
    hexes = sorted(hexes) + sorted({"h" + j for j in JUNK.values()} - hexes)
    dec = {}
    coreset = set(BASE)     # the characters and what THEY decode to under foreign codecs (the alphabet of the output grid)
    for c in TRUE_CODECS:
        dec[c] = {}
        for h in hexes:
            try:
                s = (bytes.fromhex(h[1:]) + b" ").decode(PY[c])
            except UnicodeDecodeError:
                dec[c][h] = "fail"
                continue
            if not s.endswith(" "):
                raise MachineryError("follower byte swallowed decoding %s as %s" % (h, c))
            s = s[:-1]
            if s not in rev:
                name = "m%02d" % (len(sym) - len(BASE) + 1)
                sym[name] = s
                rev[s] = name
            dec[c][h] = rev[s]
            if h in base_hexes:
                coreset.add(rev[s])
    core_syms = sorted(coreset)
    # the junk byte strings in their context (what follows: a space, a line end, the end of the input)
    junk = {}
    for c in TRUE_CODECS:
        junk[c] = {}
        for j, hx in JUNK.items():
            junk[c][j] = {}
            for f, fb in FOLLOW_BYTES.items():
                try:
                    t = (b"A" + bytes.fromhex(hx) + fb).decode(PY[c])
                except UnicodeDecodeError:
                    junk[c][j][f] = "fail"
                    continue
                if not (t.startswith("A") and t.endswith(fb.decode("ascii"))):
                    raise MachineryError("junk %s swallows its neighbours under %s" % (hx, c))
                t = t[1:len(t) - len(fb)]
                if t not in rev:
                    name = "m%02d" % (len(sym) - len(BASE) + 1)
                    sym[name] = t
                    rev[t] = name
                junk[c][j][f] = rev[t]
                if dec[c]["h" + hx] != rev[t] or t.encode(PY[c]).hex() != hx:
                    raise MachineryError("junk %s under %s does not round-trip" % (hx, c))
    enc = {}
    ence = {}
    prefix = {}
    for c in TRUE_CODECS:
        enc[c] = {}
        for n, s in sym.items():
            try:
                enc[c][n] = "h" + s.encode(PY[c]).hex()
            except UnicodeEncodeError:
                enc[c][n] = NONE
    # output: the whole document is encoded at once; for every codec of the set that is a prefix (the BOM, what the
    # codec emits for the empty string) followed by the per-symbol encodings -- asserted below against CPython
    osyms = dict(sym)
    osyms.update(SKEL)
    for c in OUT_CODECS:
        pre = "".encode(PY[c])
        prefix[c] = "h" + pre.hex()
        ence[c] = {e: {} for e in ERRS}
        for n, s in osyms.items():
            for e in ERRS:
                try:
                    b = s.encode(PY[c], e)
                    if not b.startswith(pre):
                        raise MachineryError("codec %s: no constant prefix" % c)
                    ence[c][e][n] = "h" + b[len(pre):].hex()
                except UnicodeEncodeError:
                    ence[c][e][n] = "exc"
        for e in ERRS:
            for n1 in BASE:
                for n2 in list(BASE) + [k for k in sym if k not in BASE][:6]:
                    doc = ["skT", n1, "skB", n2, "skB", n1, "skB", n2, "skB"]
                    parts = [ence[c][e][t] for t in doc]
                    try:
                        whole = "".join(osyms[t] for t in doc).encode(PY[c], e)
                    except UnicodeEncodeError:
                        whole = None
                    mine = None if "exc" in parts else pre + b"".join(bytes.fromhex(x[1:]) for x in parts)
                    if whole != mine:
                        raise MachineryError("encoding with %s/%s is not prefix + per-symbol concatenation" % (c, e))
    # decoding must be defined on every byte string the model can form from a base character
    spell = TRUE_CODECS + sorted(ALIASES)
    canon = {s: ALIASES.get(s, s) for s in spell}
    canon.update({c: c for c in OUT_EXTRA})
    canon[NONE] = NONE
    return {"spell": spell, "canon": canon, "rep": rep, "enc": enc, "dec": dec, "ence": ence, "prefix": prefix, "junk": junk, "core_syms": core_syms,
            "syms": sorted(sym), "hexes": hexes}, sym


def _fn(d, val):
    """dict -> TLA+ record (a function on strings); keys are identifiers."""
    for k in d:
        if not re.fullmatch(r"[A-Za-z_][A-Za-z0-9_]*", k):
            raise MachineryError("table key %r is not an identifier" % k)
    return "[" + ", ".join("%s |-> %s" % (k, val(v)) for k, v in d.items()) + "]"


def tables_module(tb, cells):
    s = core.tla_str
    L = ["---- MODULE Encoding_Tables ----",
         "\\* GENERATED by harness/c18.py from CPython's codecs (and the cell list of one run). Do not edit.",
         "EXTENDS TLC, Sequences",
         "T_True == " + core.tla_set([s(c) for c in TRUE_CODECS]),
         "T_Spellings == " + core.tla_set([s(c) for c in tb["spell"]]),
         "T_Out == " + core.tla_set([s(c) for c in OUT_CODECS]),
         "T_OutClass == " + _fn({c: OUT_CLASS.get(c, "ascii_compatible") for c in OUT_CODECS}, s),
         "T_Prefix == " + _fn(tb["prefix"], s),
         "T_JunkT == " + _fn(tb["junk"], lambda d: _fn(d, lambda d2: _fn(d2, s))),
         "T_Junk == " + core.tla_set([s(j) for j in JUNK]),
         "T_JunkHex == " + _fn({j: "h" + h for j, h in JUNK.items()}, s),
         "T_JunkCodec == " + _fn(JUNK_CODEC, s),
         "T_Canon == " + _fn(tb["canon"], s),
         "T_Base == " + core.tla_set([s(c) for c in BASE]),
         "T_Syms == " + core.tla_set([s(c) for c in tb["syms"]]),
         "T_GridSyms == " + core.tla_set([s(c) for c in tb["core_syms"]]),
         "T_Errs == " + core.tla_set([s(c) for c in ERRS]),
         "T_Rep == " + _fn(tb["rep"], lambda v: core.tla_set([s(x) for x in v])),
         "T_EncT == " + _fn(tb["enc"], lambda d: _fn(d, s)),
         "T_DecT == " + _fn(tb["dec"], lambda d: _fn(d, s)),
         "T_EncE == " + _fn(tb["ence"], lambda d: _fn(d, lambda d2: _fn(d2, s))),
         "T_Cells == <<"]
    L.append(",\n".join(cell_tla(c) for c in cells))
    L += [">>", "===="]
    return "\n".join(L) + "\n"


# Template options that change the header / layout of the generated module (what stands before and after the coding comment)
OPTS = ["none", "future1", "future2", "imports", "noloop", "strict", "filters", "modblock", "preproc", "combo"]


def opt_kwargs(opt):
    kw = {}
    if opt in ("future1", "combo"):
        kw["future_imports"] = ["annotations"]
    if opt == "future2":
        kw["future_imports"] = ["annotations", "division"]
    if opt in ("imports", "combo"):
        kw["imports"] = ["import os", "from math import pi as M_PI"]
    if opt == "noloop":
        kw["enable_loop"] = False
    if opt in ("strict", "combo"):
        kw["strict_undefined"] = True
    if opt == "filters":
        kw["default_filters"] = ["str", "str"]
    if opt == "preproc":
        kw["preprocessor"] = lambda text: text.replace("\x00", "")
    return kw


def cell_tla(c):
    return ('[id |-> %d, form |-> "%s", x |-> "%s", bom |-> %s, cm |-> "%s", ie |-> "%s", c |-> <<"%s", "%s">>, '
            'path |-> "%s", oe |-> "%s", errs |-> "%s", opt |-> "%s", bj |-> "%s", bp |-> "%s", ent |-> "%s", dp |-> "%s", dc |-> "%s"]'
            % (c["id"], c["form"], c["x"], "TRUE" if c["bom"] else "FALSE", c["cm"], c["ie"], c["c"][0], c["c"][1],
               c["path"], c["oe"], c["errs"], c["opt"], c["bj"], c["bp"], c["ent"], c["dp"], c["dc"]))


CFG = """CONSTANTS Codecs <- T_Spellings  Canon <- T_Canon  EncT <- T_EncT  DecT <- T_DecT  EncE <- T_EncE  Prefix <- T_Prefix  JunkT <- T_JunkT
CONSTANTS Cells <- NoCells  Emit = %s
SPECIFICATION %s
INVARIANT Precedence
INVARIANT DecoysIgnored
INVARIANT ErrorsExact
INVARIANT SameTemplateAsDecodedText
INVARIANT RenderUnicodeIgnoresOutputEncoding
INVARIANT RenderEncodes
CHECK_DEADLOCK FALSE
"""


# --------------------------------------------------------------------------- cells
def decl_style(c):
    if c["form"] == "str":
        return "str"
    s = ("comment" if c["cm"] != NONE else "") + ("+" if c["cm"] != NONE and c["ie"] != NONE else "") + \
        ("input_encoding" if c["ie"] != NONE else "")
    if c["cm"] != NONE and c["ie"] != NONE:
        s = "both-agree" if ALIASES.get(c["cm"], c["cm"]) == c["ie"] else "both-conflict"
    return ("bom+" if c["bom"] else "") + (s or "none")


def make_cells(run, tb):
    rng = run.rng
    cells = []

    def add(**kw):
        kw["id"] = len(cells) + 1
        kw.setdefault("bj", NONE)
        kw.setdefault("bp", NONE)
        kw.setdefault("dp", NONE)
        kw.setdefault("dc", NONE)
        kw["variant"] = rng.randrange(1 << 16)
        # module-layout options: mostly on the module-file paths, where the header matters; given through a
        # TemplateLookup instead of Template on about half of the file-based cells
        on_disk = kw["path"] in ("moddir", "reload")
        kw["opt"] = rng.choice(OPTS[1:]) if (on_disk and rng.random() < 0.7) or rng.random() < 0.15 else "none"
        # the entry the template comes in by, and with it where the options are given (Template or TemplateLookup)
        r = rng.random()
        if kw["path"] == "bytes":
            kw["ent"] = "direct" if r < 0.5 else "put_string" if r < 0.8 else "put_template"
        else:
            kw["ent"] = "direct" if r < 0.45 else "lookup" if r < 0.9 else "put_template"
        cells.append(kw)

    spell = tb["spell"]
    for x in TRUE_CODECS:
        others = [c for c in TRUE_CODECS if c != x]
        if run.thorough:
            cms = [NONE] + spell
            ies = [NONE] + TRUE_CODECS
        else:
            cms = [NONE, x, "utf8"] + rng.sample(others, 3)
            ies = [NONE, x] + rng.sample(others, 3)
        rep = tb["rep"][x]
        for bom in (False, True):
            for cm in cms:
                for ie in ies:
                    for path in ("bytes", "file", "moddir", "reload"):
                        pairs = [(a, b) for a in rep for b in rep] if run.thorough and len(rep) <= 3 else None
                        if pairs is None:
                            # one pair per cell, preferring non-ASCII characters
                            na = [r for r in rep if r != "A"] or rep
                            pairs = [(rng.choice(na), rng.choice(rep))]
                            if run.thorough:
                                pairs.append((rng.choice(rep), rng.choice(na)))
                        for pr in pairs:
                            oe = rng.choice([NONE, NONE] + OUT_CODECS)
                            add(form="bytes", x=x, bom=bom, cm=cm, ie=ie, c=list(pr), path=path, oe=oe,
                                errs=rng.choice(ERRS))
    # possibly undecodable input: kind of byte string x position (x declaration x path), for every true codec
    for x in TRUE_CODECS:
        rep = tb["rep"][x]
        for j in JUNK:
            if JUNK_CODEC[j] not in ("any", x):
                continue
            for pos in POSITIONS:
                for k in range(2 if run.thorough or (JUNK_KIND.get(j) == "char" and x == "utf_8" and pos == "start") else 1):
                    if pos in ("incomment", "aftercomment"):
                        cm, ie = x, rng.choice([NONE, x])
                    elif pos == "start":
                        cm, ie = NONE, rng.choice([NONE, x, x])
                    else:
                        cm, ie = rng.choice([(x, NONE), (NONE, x), (NONE, NONE), (x, x)])
                    bom = x == "utf_8" and rng.random() < 0.3
                    if JUNK_KIND.get(j) == "char" and x == "utf_8" and pos == "start":
                        bom = bool(k)                  # the first character of the input, without and with a BOM before it
                    if JUNK[j] == "efbbbf" and pos == "start":
                        bom = True                     # (without a mark before it, it IS the mark)
                    add(form="bytes", x=x, bom=bom, cm=cm, ie=ie,
                        c=[rng.choice(rep), rng.choice(rep)], path=rng.choice(["bytes", "file", "moddir", "reload"]),
                        oe=NONE, errs="strict", bj=j, bp=pos)
    # lines that merely LOOK like a coding declaration, below line 1 (a declaration counts on the first line only):
    # position x the codec they name (a foreign one, or the true one -- a "declaration" on line 2 is not one) x declaration
    for x in TRUE_CODECS:
        rep = tb["rep"][x]
        na = [r for r in rep if r != "A"] or rep
        others = [c for c in TRUE_CODECS if c != x]
        for dp in DECOYS:
            for cm, ie in ((NONE, NONE), (NONE, x), (x, NONE)):
                add(form="bytes", x=x, bom=False, cm=cm, ie=ie, c=[rng.choice(na), rng.choice(rep)],
                    path=rng.choice(["bytes", "file", "moddir", "reload"]), oe=NONE, errs="strict",
                    dp=dp, dc=x if rng.random() < 0.2 else rng.choice(others))
    # a str given directly: never decoded, the comment still is not content
    for cm in [NONE] + spell:
        for ie in (NONE, "latin_1", "shift_jis"):
            add(form="str", x="utf_8", bom=False, cm=cm, ie=ie, c=[rng.choice(list(BASE)), rng.choice(list(BASE))],
                path="bytes", oe=rng.choice([NONE] + OUT_CODECS), errs=rng.choice(ERRS))
    # output grid: every base character x output codec x error mode (content from a utf-8 file / str)
    syms = tb["syms"]
    for oe in [NONE] + OUT_CODECS:
        for e in ERRS:
            # content class "pure ASCII" (the other classes -- encodable / not encodable non-ASCII -- come from the characters)
            form = rng.choice(["str", "bytes"])
            add(form=form, x="utf_8", bom=False, cm=NONE, ie=NONE, c=["A", "A"],
                path=rng.choice(["bytes", "file", "moddir", "reload"]) if form == "bytes" else "bytes", oe=oe, errs=e)
            for c1 in BASE:
                n = 1 if not run.thorough else 4
                for _ in range(n):
                    form = rng.choice(["str", "bytes"])
                    add(form=form, x="utf_8", bom=False, cm=rng.choice([NONE, "utf_8"]), ie=NONE,
                        c=[c1, rng.choice(list(BASE))], path=rng.choice(["bytes", "file", "moddir"]) if form == "bytes" else "bytes",
                        oe=oe, errs=e)
    return cells


# --------------------------------------------------------------------------- concretisation
COMMENT_STYLES = ["# -*- coding: %s -*-", "## -*- coding: %s -*-", "# vim: set fileencoding=%s :", "#coding=%s"]
BODY = ["T:{1} |\n", "${\"{2} \"}|\n", "<% s = '{1} ' %>${s}|\n", "<%def name=\"d(v='{2} ')\">${v}</%def>${d()}|\n"]
OUT = ["T:{1} |\n", "{2} |\n", "{1} |\n", "{2} |\n"]


def _subst(parts, a, b):
    return "".join(p.replace("{1}", a).replace("{2}", b) for p in parts)


def layout(cell):
    """Cosmetic choices of a cell (seeded): which character goes to which slot, comment style, line end."""
    v = cell["variant"]
    swap = bool(v & 1)
    style = COMMENT_STYLES[(v >> 1) % len(COMMENT_STYLES)]
    eol = "\r\n" if (v >> 4) & 1 else "\n"
    comment = (style % PY[cell["cm"]] + (" {J} " if cell["bp"] == "incomment" else "") + eol) if cell["cm"] != NONE else ""
    return swap, comment


def _place(lines, pos):
    """Put the junk placeholder {J} into the first line / after the last line of a body or output skeleton."""
    lines = list(lines)
    first = lines[0]
    if pos in ("start", "aftercomment"):       # the first bytes of the body: of the input, or right after the magic comment
        lines[0] = "{J} " + first
    elif pos == "middle":
        lines[0] = first.replace(" |\n", " {J} |\n")
    elif pos == "eol_lf":
        lines[0] = first.replace(" |\n", " |{J}\n")
    elif pos == "eol_crlf":
        lines[0] = first.replace(" |\n", " |{J}\r\n")
    elif pos == "eof":
        lines.append("{J}")
    return lines


# decoy: (the lines put into the template, what they write) -- {D} is the codec name; all of them contain a line that
# the magic-comment regexp would match if it were tried anywhere but at the start of the input
DECOYS = {
    "line2": ("# -*- coding: {D} -*-\n", "# -*- coding: {D} -*-\n"),            # the line right after the first line: plain text
    "line3": ("#!shebang\n# vim: set fileencoding={D} :\n", "#!shebang\n# vim: set fileencoding={D} :\n"),
    "mid": ("# coding={D}\n", "# coding={D}\n"),
    "intext": ("<%text>\n# -*- coding: {D} -*-\n</%text>\n", "\n# -*- coding: {D} -*-\n\n"),
    "incomment": ("## -*- coding: {D} -*-\n", ""),                              # a template comment
    "indoc": ("<%doc>\n# coding: {D}\n</%doc>\n", "\n"),
    "instring": ("<% z = \"\"\"\n# coding= {D}\n\"\"\" %>\n", "\n"),              # inside a Python string literal
}


def _decoy(lines, cell, which):
    if cell["dp"] == NONE:
        return lines
    lines = list(lines)
    piece = DECOYS[cell["dp"]][which].replace("{D}", PY[cell["dc"]])
    # line 1 of the FILE is the magic comment when there is one, else the first line of the body
    k = {"line2": 0 if cell["cm"] != NONE else 1, "line3": 0 if cell["cm"] != NONE else 1}.get(cell["dp"], 3)
    lines.insert(k, piece)
    return lines


def body_of(cell):
    # a <%! %> block is hoisted to the top of the generated module wherever it stands; it writes nothing
    b = BODY
    if cell["opt"] in ("modblock", "combo"):
        b = ["<%! MODX = '{1} ' %>" + BODY[0]] + BODY[1:]
    return _decoy(_place(b, cell["bp"]), cell, 0)


def out_of(cell):
    return _decoy(_place(OUT, cell["bp"]), cell, 1)


MARK = "@@J@@"


def concretise(cell, SYM):
    """The template as given to Mako: bytes (hex) or str."""
    swap, comment = layout(cell)
    a, b = SYM[cell["c"][0]], SYM[cell["c"][1]]
    if swap:
        a, b = b, a
    text = (comment + _subst(body_of(cell), a, b)).replace("{J}", MARK)
    if cell["form"] == "str":
        return {"str": text}
    raw = text.encode(PY[cell["x"]])
    if cell["bj"] != NONE:
        raw = raw.replace(MARK.encode("ascii"), bytes.fromhex(JUNK[cell["bj"]]))
    if cell["bom"]:
        raw = codecs.BOM_UTF8 + raw
    return {"hex": raw.hex()}


def expected_concrete(cell, exp, SYM, tb):
    """Concrete values of TLC's expected observation (symbols -> strings/bytes).  Pure substitution."""
    swap, comment = layout(cell)
    e = {"res": exp["res"]}
    if exp["res"] != "ok":
        return e

    def pair(v):
        a, b = v[0], v[1]
        return (b, a) if swap else (a, b)

    def junk(v):
        return SYM[v[2]] if len(v) > 2 else ""
    a, b = pair([SYM[s] for s in exp["uni"]])
    e["uni"] = _subst(out_of(cell), a, b).replace("{J}", junk(exp["uni"]))
    a, b = pair([SYM[s] for s in exp["src"]])
    e["src"] = (comment + _subst(body_of(cell), a, b)).replace("{J}", junk(exp["src"]))
    if cell["opt"] in ("modblock", "combo"):
        e["modx"] = pair([SYM[s] for s in exp["uni"]])[0] + " "
    o = exp["out"]
    if o["ty"] == "str":
        a, b = pair([SYM[s] for s in o["v"]])
        e["out"] = ["str", _subst(out_of(cell), a, b).replace("{J}", junk(o["v"]))]
    elif o["ty"] == "bytes":
        v = list(o["v"])          # the whole document: skT c1 skB c2 skB c1 skB c2 skB, after the prefix
        if swap:
            v[1], v[3], v[5], v[7] = v[3], v[1], v[7], v[5]
        e["out"] = ["bytes", o["pre"][1:] + "".join(x[1:] for x in v)]
    else:
        e["out"] = ["exc", o["v"][0]]
    e["enc"] = exp["enc"]
    e["coding"] = exp["coding"]
    return e


def _norm(name):
    if name in (None, NONE):
        return NONE
    name = PY.get(name, name)
    try:
        return codecs.lookup(name).name
    except LookupError:
        return "unknown:" + str(name)


def compare(cell, exp, obs):
    """First clause on which the observation differs from one expected observation, or None."""
    if obs.get("res") != exp["res"]:
        return "res"
    if exp["res"] != "ok":
        return None
    if obs.get("uni") != exp["uni"]:
        return "uni"
    if obs.get("out") != exp["out"]:
        return "out"
    if "modx" in exp and obs.get("modx") != exp["modx"]:
        return "modx"
    src = obs.get("src")
    if isinstance(src, str) and src.startswith("\ufeff"):
        src = src[1:]       # whether Template.source shows the byte-order mark is not specified
    if src != exp["src"]:
        return "src"
    if cell["form"] == "bytes" and _norm(obs.get("enc")) != _norm(exp["enc"]):
        return "enc"
    if cell["path"] in ("moddir", "reload"):
        if _norm(obs.get("coding")) != _norm(exp["coding"]):
            return "coding"
        if cell["path"] == "reload" and obs.get("recompiled"):
            return "recompiled"
    return None


# --------------------------------------------------------------------------- child process
def _observe(job, phase):
    """Realise one cell on its path with the real mako and describe what happened."""
    from mako import exceptions
    from mako.template import Template
    o = {"id": job["id"]}
    kw = {}
    okw = opt_kwargs(job["opt"])
    if job["ie"] != NONE:
        kw["input_encoding"] = job["ie"]
    if job["oe"] != NONE:
        kw["output_encoding"] = job["oe"]
        kw["encoding_errors"] = job["errs"]
    raw = job["raw"]["str"] if "str" in job["raw"] else bytes.fromhex(job["raw"]["hex"])
    path = job["path"]
    modpath = None
    try:
        from mako.lookup import TemplateLookup
        ent = job["ent"]
        # a lookup configured differently, for templates that are built elsewhere and only placed into it
        other = {"input_encoding": "koi8-r", "output_encoding": "cp500", "encoding_errors": "ignore"}

        def placed(t0):
            lk = TemplateLookup([os.path.dirname(job["fn"])], **other)
            lk.put_template("placed.html", t0)
            return lk.get_template("placed.html")
        if path == "bytes":
            if ent == "put_string":
                lk = TemplateLookup(**kw, **okw)
                lk.put_string("put.html", raw)
                t = lk.get_template("put.html")
            elif ent == "put_template":
                t = placed(Template(text=raw, uri="placed.html", **kw, **okw))
            else:
                t = Template(text=raw, **kw, **okw)
        else:
            if phase == "A":
                with open(job["fn"], "wb") as f:
                    f.write(raw)
                os.utime(job["fn"], (1_000_000_000, 1_000_000_000))
            if ent == "lookup":      # the same options given to a TemplateLookup, which hands them on
                lkw = dict(kw)
                lkw.update(okw)
                if path != "file":
                    lkw["module_directory"] = job["md"]

                def make():
                    return TemplateLookup([os.path.dirname(job["fn"])], **lkw).get_template(os.path.basename(job["fn"]))
            else:
                def make():
                    if path == "file":
                        t0 = Template(filename=job["fn"], **kw, **okw)
                    else:
                        t0 = Template(filename=job["fn"], module_directory=job["md"], **kw, **okw)
                    return placed(t0) if ent == "put_template" else t0
            if path == "file":
                t = make()
            else:
                before = _digests(job["md"])
                t = make()
                after = _digests(job["md"])
                o["recompiled"] = before != after
                mods = sorted(after)
                modpath = mods[0] if mods else None
    except exceptions.CompileException:
        o["res"] = "CompileException"
        return o
    except Exception as ex:  # noqa -- an observation, not a failure of the harness
        o["res"] = "exc:" + type(ex).__name__
        o["detail"] = str(ex)[:200]
        return o
    o["res"] = "ok"
    if job["opt"] in ("modblock", "combo"):
        o["modx"] = getattr(t.module, "MODX", None)
    o["enc"] = getattr(t.module, "_source_encoding", None)
    if modpath:
        # the encoding Python itself will read the module file with (PEP 263: a coding comment on line 1, or on
        # line 2 after a blank/comment line; UTF-8 otherwise), as decided by the standard library
        import tokenize
        try:
            with open(modpath, "rb") as f:
                o["coding"] = tokenize.detect_encoding(f.readline)[0]
        except SyntaxError:
            o["coding"] = "invalid"
    try:
        u = t.render_unicode()
        o["uni"] = u if isinstance(u, str) else "type:" + type(u).__name__
    except Exception as ex:  # noqa
        o["uni"] = "exc:" + type(ex).__name__
    try:
        r = t.render()
        o["out"] = ["str", r] if isinstance(r, str) else ["bytes", r.hex()] if isinstance(r, bytes) else ["type", type(r).__name__]
    except Exception as ex:  # noqa
        o["out"] = ["exc", type(ex).__name__]
    try:
        s = t.source
        o["src"] = s if isinstance(s, str) else "type:" + type(s).__name__
    except Exception as ex:  # noqa
        o["src"] = "exc:" + type(ex).__name__
    return o


def _digests(md):
    d = {}
    for dp, _, fns in os.walk(md):
        for fn in fns:
            if fn.endswith(".py"):
                p = os.path.join(dp, fn)
                with open(p, "rb") as f:
                    d[p] = hashlib.sha1(f.read()).hexdigest()
    return d


def child_main(argv):
    with open(argv[0]) as f:
        spec = json.load(f)
    import mako
    out = {"mako": os.path.dirname(os.path.abspath(mako.__file__)), "obs": []}
    for job in spec["jobs"]:
        out["obs"].append(_observe(job, spec["phase"]))
    with open(argv[1], "w") as f:
        json.dump(out, f)
    return 0


def run_children(run, jobs_by_chunk, phase, tag, nproc):
    """Run chunks of jobs in fresh python processes (at most nproc at a time); returns {id: obs}."""
    work = run.subdir("jobs")
    pending = []
    for k, jobs in enumerate(jobs_by_chunk):
        jf = os.path.join(work, "%s-%d.json" % (tag, k))
        of = os.path.join(work, "%s-%d.out.json" % (tag, k))
        with open(jf, "w") as f:
            json.dump({"phase": phase, "jobs": jobs}, f)
        pending.append((jf, of))
    res = {}
    running = []
    mako_dirs = set()

    def reap(p, of):
        try:
            _, err = p.communicate(timeout=core.tscale(600))
        except subprocess.TimeoutExpired:
            p.kill()
            raise MachineryError("child process timed out (%s)" % of)
        if p.returncode != 0 or not os.path.exists(of):
            raise MachineryError("child process failed (%s): %s" % (of, (err or "")[-1500:]))
        with open(of) as f:
            d = json.load(f)
        mako_dirs.add(d["mako"])
        for o in d["obs"]:
            res[o["id"]] = o
    while pending or running:
        while pending and len(running) < nproc:
            jf, of = pending.pop(0)
            p = subprocess.Popen([sys.executable, "-m", "harness.c18", "child", jf, of], cwd=core.VERIF,
                                 stdout=subprocess.DEVNULL, stderr=subprocess.PIPE, text=True)
            running.append((p, of))
        p, of = running.pop(0)
        reap(p, of)
    want = os.path.join(os.path.abspath(core.MAKO_SRC), "mako")
    if mako_dirs != {want}:
        raise MachineryError("children imported mako from %s, expected %s" % (mako_dirs, want))
    return res


# --------------------------------------------------------------------------- the check
CENTRAL = ("Decide", "Decode", "Lex", "Exec", "WriteModule", "Import", "NewProcess", "Source", "RenderU", "Render", "Report")


def check(run):
    tb, SYM = build_tables()
    cells = make_cells(run, tb)
    nproc = 4 if os.environ.get("VERIF_DEV") else min(12, core.NCPU)
    workers = 4 if os.environ.get("VERIF_DEV") else None
    xf = {"Encoding_Tables.tla": tables_module(tb, [])}

    # ------------------------------------------------------------------ 1. TLC: the grids, exhaustively
    skip = bool(os.environ.get("VERIF_DEV_SKIPGRIDS"))      # development aid only (mutant runs)
    res = run.tlc("MC_Encoding", CFG % ("FALSE", "SpecOut" if run.thorough and not skip else "SpecOutDiag"), name="mc-out", extra_files=xf, workers=workers, heap="3g")
    if res.violated:
        run.spec_violation(res)
    grids = (["SpecIn", "SpecBad"] if run.thorough else ["SpecInDiag", "SpecBadDiag"]) + ["SpecDecoy" if run.thorough else "SpecDecoyDiag"] if not skip else []
    for g in grids:
        res = run.tlc("MC_Encoding", CFG % ("FALSE", g), name="mc-" + g, extra_files=xf, workers=workers, timeout=1500, heap="3g")
        if res.violated:
            run.spec_violation(res)
    # ------------------------------------------------------------------ 2. TLC: expected observations of the listed cells
    expected = {}
    cov = {}
    CH = 4000
    for k in range(0, len(cells), CH):
        res = run.tlc("MC_Encoding", CFG % ("TRUE", "MCSpec"), name="mc-list-%d" % (k // CH),
                      extra_files={"Encoding_Tables.tla": tables_module(tb, cells[k:k + CH])}, coverage=True, workers=workers, timeout=1500, heap="3g")
        if res.violated:
            run.spec_violation(res)
            return {"rule": "design model violated", "exhaustive": False}
        for a, (dd, g) in res.coverage.items():
            cov[a] = cov.get(a, 0) + g
        for rec in res.json_lines():
            if isinstance(rec, dict) and "id" in rec:
                alts = expected.setdefault(rec["id"], [])
                if rec not in alts:
                    alts.append(rec)
    for a in CENTRAL:
        if not cov.get(a):
            raise MachineryError("vacuous: action %s of Encoding.tla never taken (%s)" % (a, cov))
    run.extra["action_coverage"] = {a: cov[a] for a in CENTRAL}
    missing = [c["id"] for c in cells if c["id"] not in expected]
    if missing:
        raise MachineryError("TLC printed no expectation for %d cells (e.g. %s)" % (len(missing), missing[:5]))

    # ------------------------------------------------------------------ 3. R: concretise, run, compare
    root = run.subdir("tree")
    jobs = []
    for c in cells:
        d = os.path.join(root, "c%05d" % c["id"])
        os.makedirs(d)
        jobs.append({"id": c["id"], "raw": concretise(c, SYM), "path": c["path"], "ie": PY.get(c["ie"], NONE), "oe": PY.get(c["oe"], NONE), "errs": c["errs"],
                     "opt": c["opt"], "ent": c["ent"],
                     "fn": os.path.join(d, "t.html"), "md": os.path.join(d, "mods")})
    # the compositional abstraction (per-symbol tables) must agree with CPython's strict decode of the WHOLE input on
    # whether the input is decodable in the codec the specification declares for it -- otherwise the machinery is wrong
    for c, jb in zip(cells, jobs):
        if "hex" not in jb["raw"]:
            continue
        for e in expected[c["id"]]:
            if e["enc"] == NONE:
                continue
            rawb = bytes.fromhex(jb["raw"]["hex"])
            rawb = rawb[3:] if c["bom"] else rawb
            try:
                rawb.decode(PY[e["enc"]])
                whole_ok = True
            except UnicodeDecodeError:
                whole_ok = False
            if whole_ok != (e["res"] == "ok"):
                raise MachineryError("cell %s: tables say %s, CPython's decode of the whole input says %s" % (c, e["res"], whole_ok))
    nchunks = nproc * 2
    chunks = [jobs[k::nchunks] for k in range(nchunks)]
    obs_a = run_children(run, [ch for ch in chunks if ch], "A", "a", nproc)
    rjobs = [j for j in jobs if j["path"] == "reload"]
    rchunks = [rjobs[k::nproc] for k in range(nproc)]
    obs_b = run_children(run, [ch for ch in rchunks if ch], "B", "b", nproc)
    by_id = {c["id"]: c for c in cells}
    nviol = 0
    clauses = {}
    for c in cells:
        alts = [expected_concrete(c, e, SYM, tb) for e in expected[c["id"]]]
        observations = [("first", obs_a.get(c["id"]))]
        if c["path"] == "reload":
            observations = [("reload", obs_b.get(c["id"]))]
            # the constructing process of a reload cell is a moddir cell in its own right
            first = dict(obs_a.get(c["id"]) or {})
            first["recompiled"] = False
            observations.append(("first", first))
        for which, obs in observations:
            if obs is None:
                raise MachineryError("no observation for cell %d" % c["id"])
            fails = [compare(c, e, obs) for e in alts]
            run.traces += 1
            if all(fails):
                clause = fails[0]
                clauses[clause] = clauses.get(clause, 0) + 1
                pth = c["path"] if which != "first" or c["path"] != "reload" else "moddir"
                sig = "%s:%s:%s" % (clause, pth, decl_style(c)) + (":opt=" + c["opt"] if c["opt"] != "none" else "") + \
                    (":entry=" + c["ent"] if c["ent"] in ("put_string", "put_template") else "") + \
                    (":decoy@" + c["dp"] if c["dp"] != NONE else "") + \
                    (":junk=%s@%s" % (JUNK_KIND.get(c["bj"], "truncated"), c["bp"]) if c["bj"] != NONE else "")
                nviol += 1
                run.violation(sig, "cell %s on path %s: clause %s differs; expected %s, observed %s"
                              % ({k: c[k] for k in ("form", "x", "bom", "cm", "ie", "c", "oe", "errs", "opt", "ent", "bj", "bp", "dp", "dc")}, pth, clause,
                                 _short(alts[0]), _short(obs)),
                              {"cell": c, "template": jobs[c["id"] - 1]["raw"], "expected": alts, "observed": obs,
                               "symbols": {s: SYM[s] for s in set(c["c"]) | set(sum([e.get("uni", []) for e in expected[c["id"]]], []))}})
    run.extra["cells"] = len(cells)
    run.extra["mismatch_clauses"] = clauses
    for c in cells[:3]:
        run.sample({"cell": {k: c[k] for k in ("form", "x", "bom", "cm", "ie", "c", "path", "oe", "errs", "opt")},
                    "template": jobs[c["id"] - 1]["raw"], "expected": expected[c["id"]], "observed": obs_a[c["id"]]})

    # ------------------------------------------------------------------ negative controls
    done = set()
    for c in cells:
        e0 = expected[c["id"]][0]
        if len(expected[c["id"]]) != 1:
            continue
        obs = (obs_b if c["path"] == "reload" else obs_a)[c["id"]]
        good = expected_concrete(c, e0, SYM, tb)
        if compare(c, good, obs) is not None:
            continue
        if e0["res"] == "ok" and "uni" not in done and e0["uni"][0] != "A":
            bad = json.loads(json.dumps(e0))
            bad["uni"][0] = "A"
            run.negative_control(compare(c, expected_concrete(c, bad, SYM, tb), obs) == "uni", "comparer accepted a wrong render_unicode symbol")
            done.add("uni")
        if e0["res"] == "ok" and "out" not in done and e0["out"]["ty"] == "bytes":
            bad = json.loads(json.dumps(e0))
            bad["out"]["v"][1] = "h00"
            run.negative_control(compare(c, expected_concrete(c, bad, SYM, tb), obs) == "out", "comparer accepted wrong render() bytes")
            done.add("out")
        if e0["res"] == "CompileException" and "res" not in done:
            bad = dict(e0, res="ok", uni=["A", "A"], src=["A", "A"], out={"ty": "str", "pre": "h", "v": ["A", "A"]})
            run.negative_control(compare(c, expected_concrete(c, bad, SYM, tb), obs) == "res", "comparer accepted ok for a CompileException")
            done.add("res")
        if e0["res"] == "ok" and "coding" not in done and c["path"] == "moddir" and _norm(e0["coding"]) != _norm("koi8_r"):
            bad = dict(e0, coding="koi8_r")
            run.negative_control(compare(c, expected_concrete(c, bad, SYM, tb), obs) == "coding", "comparer accepted a wrong module coding")
            done.add("coding")
        if e0["res"] == "ok" and "src" not in done and e0["src"][1] != "A":
            bad = json.loads(json.dumps(e0))
            bad["src"][1] = "A"
            run.negative_control(compare(c, expected_concrete(c, bad, SYM, tb), obs) == "src", "comparer accepted a wrong Template.source")
            done.add("src")
    if done != {"uni", "out", "res", "coding", "src"} and not nviol:
        raise MachineryError("negative controls incomplete: %s" % sorted(done))
    run.assumptions += [
        "codec behaviour (which bytes a character has, what foreign bytes decode to) is taken from CPython's codecs",
        "every non-ASCII character of a generated template is followed by a byte < 0x40, so decoding is compositional per symbol",
        "a UTF-8 BOM with a coding comment spelling utf-8 by an alias (utf8) is an unspecified corner: either outcome accepted",
        "whether Template.source shows the byte-order mark as U+FEFF is not specified: a leading U+FEFF is ignored",
        "codec names that Python does not know are not generated",
    ]
    return {"rule": "TLC checks the invariants of Encoding.tla on the full output grid, the full input grid%s and on the listed cells and prints the expected "
                    "observations of every listed cell; each cell is concretised (text, expression, Python string literal, def "
                    "argument default) and realised by the real mako in child processes on its path (bytes, file, module "
                    "directory, reload by a later process) and compared clause by clause (result class, render_unicode, render, "
                    "Template.source, _source_encoding, coding comment of the module file, no recompilation on reload). "
                    "A case is one cell x path." % "",
            "exhaustive": bool(run.thorough)}


def _short(o):
    s = json.dumps(o, ensure_ascii=True, default=str)
    return s if len(s) < 400 else s[:400] + "..."


if __name__ == "__main__":
    if len(sys.argv) >= 4 and sys.argv[1] == "child":
        sys.exit(child_main(sys.argv[2:]))
    sys.exit(2)
