"""C03 -- control lines, <% %> blocks, `return`, and the `loop` object behave as Python says.

Specifications: spec/Render.tla (control fragment: ExecIf / ExecFor / ExecWhile / ExecTry / ExecWith, Return,
BreakCont, loop contexts per function activation with LoopRevert / LoopStackMatchesNesting) and
spec/PyPrinter.tla (PythonPrinter.writeline indentation machine + the auto-`pass` rule).

 1. PyPrinter: TLC enumerates every legal control-line sequence up to the bound, checking IndentEqualsNesting,
    BodyNeverEmpty, NoSpuriousClosure on the model of writeline; each complete sequence is printed with the depth
    of every statement line; the sequence is concretised as a template (random indentation of the % lines),
    compiled by the real code generator, and the indentation of each token-carrying line of Template.code is
    compared with the model's (and the module must compile).  The same model with a second `except` clause
    allowed violates IndentEqualsNesting; the counterexample is confirmed on the real code (finding).
 2. Render: programs of nested if/elif/else, for/else over lists, tuples, strings, ranges and generators of
    length 0..3, while, try/except, with, <% %> assignments at any margin, break / continue / return, text,
    expressions, blocks and def calls inside bodies (depth <= 5) are executed by TLC for every raise point and
    compared with the rendered template: output tokens and, at every mark inside a `% for`, loop.index, len,
    first, last, even, odd, reverse_index, cycle() and parent.index.  enable_loop on / off / <%page> override.
"""
import json
import re

from . import render_common as rc
from .core import MachineryError

NEED = ("ExecMark", "ExecIf", "ExecFor", "ExecWhile", "ExecTry", "ExecWith", "ExecBlock", "ExecCall", "Return", "BreakCont",
        "Unwind")
PP_INV = "INVARIANT IndentEqualsNesting\nINVARIANT NoSpuriousClosure\nINVARIANT BodyNeverEmpty\n"


def pp_cfg(maxlen, maxdepth, multi, emit=True):
    return ("CONSTANTS MaxLen = %d MaxDepth = %d MultiExcept = %s\nSPECIFICATION Spec\n%s%sCHECK_DEADLOCK FALSE\n"
            % (maxlen, maxdepth, "TRUE" if multi else "FALSE", PP_INV, "INVARIANT Emit\n" if emit else ""))


def pp_template(items, rng):
    """control-line class sequence -> template text; returns (text, [token per stmt item])."""
    out = []
    toks = []
    stack = []
    n = 0
    for x in items:
        ind = rng.choice(["", "", " ", "   ", "\t", "      "])
        sp = rng.choice(["", " ", "  "])
        if x == "stmt":
            n += 1
            toks.append("t%d" % n)
            out.append("[t%d]" % n)
        elif x == "comment":
            out.append(ind + "## note")
        elif x == "end":
            out.append("%s%%%send%s" % (ind, sp, stack.pop()))
        elif x in ("elif", "else", "except"):
            out.append("%s%%%s%s" % (ind, sp, {"elif": "elif cond%d:" % n, "else": "else:", "except": "except E%d:" % len(out)}[x]))
        else:
            kw = "for" if x == "forL" else x
            stack.append(kw)
            head = {"if": "if cond:", "for": "for i%d in seq:" % len(out), "forL": "for i%d in (seq, loop)[0]:" % len(out),
                    "while": "while cond:", "try": "try:", "with": "with cm as z:"}[x]
            out.append("%s%%%s%s" % (ind, sp, head))
    return "\n".join(out) + "\n", toks


def pp_real_depths(text, toks):
    """compile with the real code generator; indentation depth (relative to the body) of each token's line."""
    from mako.template import Template
    try:
        t = Template(text)
        compile(t.code, "m", "exec")
    except Exception as e:  # noqa
        return "exc:" + type(e).__name__
    lines = t.code.split("\n")
    res = []
    for tk in toks:
        hit = [ln for ln in lines if ("[%s]" % tk) in ln and "__M_writer" in ln]
        if len(hit) != 1:
            return "token-lines:%s=%d" % (tk, len(hit))
        lead = len(hit[0]) - len(hit[0].lstrip(" "))
        res.append(lead // 4 - 2)
    return res


def check_printer(run):
    thorough = run.thorough
    maxlen, maxdepth = (6, 3) if not thorough else (7, 4)
    res = run.tlc("PyPrinter", pp_cfg(maxlen, maxdepth, False), name="pyprinter-mc", coverage=True, timeout=1500)
    if res.violated:
        run.spec_violation(res, "TLC: %s violated on the model of PythonPrinter.writeline" % res.violated)
        return
    if not res.coverage.get("Line", [0, 0])[1] or not res.coverage.get("Finish", [0, 0])[1]:
        raise MachineryError("vacuous PyPrinter run: %s" % res.coverage)
    seqs = {}
    for r in res.json_lines():
        if isinstance(r, dict) and "items" in r:
            seqs[tuple(r["items"])] = r["depths"]
    if len(seqs) < 100:
        raise MachineryError("PyPrinter printed only %d complete sequences" % len(seqs))
    keys = sorted(seqs)
    short = [k for k in keys if len(k) <= 4]
    rest = [k for k in keys if len(k) > 4]
    run.rng.shuffle(rest)
    chosen = short + rest[:(2500 if not thorough else 40000)]
    run.extra["printer_sequences_total"] = len(seqs)
    run.extra["printer_sequences_bound"] = len(chosen)
    bad = {}
    nc_done = False
    for k in chosen:
        text, toks = pp_template(k, run.rng)
        got = pp_real_depths(text, toks)
        exp = seqs[k]
        run.traces += 1
        if got != exp:
            clause = "compile" if isinstance(got, str) else "indent"
            key = (clause, got if isinstance(got, str) else "")
            if key not in bad or len(k) < len(bad[key][0]):
                bad[key] = (k, text, exp, got)
        elif not nc_done and exp:
            wrong = list(exp)
            wrong[-1] += 1
            run.negative_control(wrong != got, "printer comparer accepted a corrupted depth")
            nc_done = True
    for (clause, what), (k, text, exp, got) in sorted(bad.items()):
        run.violation("printer:%s:%s" % (clause, what or "depth"),
                      "generated module differs from the PyPrinter model for control lines %s: expected depths %s, observed %s" % (list(k), exp, got),
                      {"items": list(k), "template": text, "expected_depths": exp, "observed": got})
    if chosen:
        k = chosen[len(chosen) // 2]
        run.sample({"direction": "R", "printer_items": list(k), "depths": seqs[k]})
    # the model with a second `except` clause on one `try`
    res2 = run.tlc("PyPrinter", pp_cfg(4, 2, True, emit=False), name="pyprinter-multi-except")
    if res2.violated == ["IndentEqualsNesting"]:
        ce = res2.counterexample()
        items = ce[-1][1].get("items")
        if not isinstance(items, list) or items.count("except") < 2:
            raise MachineryError("unexpected counterexample for MultiExcept: %r" % (items,))
        items = list(items)
        stack = []
        for x in items:
            if x in ("if", "for", "forL", "while", "try", "with"):
                stack.append(x)
            elif x == "end":
                stack.pop()
        seq = items + ["stmt"] + ["end"] * len(stack)
        text, toks = pp_template(seq, run.rng)
        got = pp_real_depths(text, toks)
        if isinstance(got, str) and got.startswith("exc:"):
            run.violation("printer:second-except-clause:" + got,
                          "a `%% try` with two `%% except` clauses produces a module that is not valid Python: the printer does not "
                          "dedent the second `except` (indent_detail holds None after the first); model counterexample "
                          "%s confirmed on the real code generator (%s)" % (items, got),
                          {"items": seq, "template": text, "observed": got, "source": "TLC counterexample to IndentEqualsNesting with MultiExcept"})
        else:
            run.violation("printer:model-mismatch-on-multi-except", "the real printer handles %s but the model does not" % items,
                          {"items": seq, "template": text, "observed": got})
    elif res2.violated:
        run.spec_violation(res2)


def control_profile(**kw):
    w = dict(text=3, mark=6, expr=2, callc=1, block=1, py=3, ret=1, brk=2, cont=2, inc=0, mkit=3, drain=3, itobs=2,
             **{"if": 4, "for": 6, "while": 2, "try": 2, "with": 2})
    base = dict(w=w, ndefs=(1, 2), depth=4, suite=(1, 3), p_empty=0.15, p_rl=0.8, p_loopcond=0.4, p_dec=0.1, flags=[[], [], [], ["buffered"], ["filter"]])
    base.update(kw)
    return rc.profile(**base)


def loop_in_body_family():
    """`loop` read inside a <%call> body that stands inside a `% for` (lexically innermost loop = that for)."""
    progs = []
    for direct in (False, True):
        for inner in (False, True):
            noargs = dict(pos=[], kw=[])
            d0 = dict(flags=set(), fm=0, dec=False, dm=0, blk=False, params=[], bsig=[], nested=[], home=0,
                      body=[dict(k="text", t="t1"), dict(k="expr", parts=[dict(k="cbody", args=noargs)]), dict(k="text", t="t2")])
            body = [dict(k="mark", m=3, rl=True, w="s")]
            if inner:
                body = [dict(k="for", n=2, sized=True, a=[dict(k="mark", m=3, rl=True, w="s")], els=[], has_else=False)]
            loop = ([dict(k="mark", m=4, rl=True, w="s")] if direct else []) + [
                dict(k="callc", parts=[dict(k="call", d="d0", via="name", args=noargs)], body=body, bparams=[], defs=[]), dict(k="text", t="t5")]
            progs.append(dict(defs={"d0": d0}, incs=[], eh=False, fe=False, top=["d0"], el="on",
                              body=[dict(k="for", n=2, sized=True, a=loop, els=[], has_else=False), dict(k="text", t="t6")]))
    return progs


def loop_in_block_family():
    """an anonymous block inside a `% for` that reads `loop` and also has its own `% for` using `loop`."""
    progs = []
    for before in (True, False):
        blk = dict(flags=set(), fm=0, dec=False, dm=0, blk=True, params=[], bsig=[], nested=[], home=0,
                   body=([dict(k="mark", m=1, rl=True, w="s")] if before else [])
                   + [dict(k="for", n=2, sized=True, a=[dict(k="mark", m=2, rl=True, w="s")], els=[], has_else=False),
                      dict(k="mark", m=3, rl=True, w="s"), dict(k="text", t="t4")])
        progs.append(dict(defs={"b9": blk}, incs=[], eh=False, fe=False, top=[], el="on",
                          body=[dict(k="for", n=2, sized=True, a=[dict(k="block", d="b9"), dict(k="text", t="t5")], els=[], has_else=False)]))
    return progs


def iterator_family():
    """"whatever the iterable": a shared iterator (generator function with a finally, generator expression, iterator
    object with a recording close()) consumed by a `% for` with / without `loop` in its body that ends by exhaustion,
    break, continue or an exception caught by an enclosing % try (the raise points), and is then observed: side
    effects, what a second loop / ''.join() still gets, a nested loop drawing from the same iterator."""
    progs = []
    for kind in ("genfn", "genexp", "itobj"):
        for use_loop in (False, True):
            for exit_ in ("exhaust", "break", "cont"):
                for follow in ("drain", "loop2", "nested"):
                    n = iter(range(1, 1000))
                    T = lambda: dict(k="text", t="t%d" % next(n))
                    M = lambda rl=False: dict(k="mark", m=next(n), rl=rl, w="s")
                    mk = dict(k="mkit", v="g1", kind=kind, toks=["g1a", "g1b", "g1c", "g1d"])
                    body = [T(), M(use_loop)] + ({"exhaust": [], "break": [dict(k="brk")], "cont": [dict(k="cont"), T()]}[exit_])
                    if follow == "nested":
                        inner = dict(k="for", n=0, sized=False, src="g1", a=body, els=[], has_else=False)
                        loop = dict(k="for", n=0, sized=False, src="g1", a=[T(), M(use_loop), inner, T()], els=[T()], has_else=True)
                    else:
                        loop = dict(k="for", n=0, sized=False, src="g1", a=body, els=[T()], has_else=True)
                    obs = [] if kind == "genexp" else [dict(k="itobs", v="g1", kind=kind)]
                    after = list(obs)
                    if follow == "loop2":
                        after.append(dict(k="for", n=0, sized=False, src="g1", a=[T(), M(True)], els=[], has_else=False))
                    after += [dict(k="drain", v="g1")] + obs + [M()]
                    progs.append(dict(defs={}, incs=[], eh=False, fe=False, top=[], el="on",
                                      body=[mk, M(), dict(k="try", a=[loop], h=[T()])] + after))
    return progs


def enable_loop_family():
    """enable_loop on / off / <%page> override x every kind of function the generator emits: template body,
    top-level def, nested def, anonymous block, call body -- each with its own `% for` reading `loop`."""
    progs = []
    noargs = dict(pos=[], kw=[])
    for el in ("on", "off", "page"):
        n = iter(range(1, 1000))
        T = lambda: dict(k="text", t="t%d" % next(n))
        M = lambda: dict(k="mark", m=next(n), rl=True, w="s")
        F = lambda: dict(k="for", n=2, sized=True, a=[T(), M()], els=[], has_else=False)
        D = lambda body, **kw: dict(dict(flags=set(), fm=0, dec=False, dm=0, blk=False, params=[], bsig=[], nested=[], home=0, body=body), **kw)
        defs = {"e1": D([F()]), "d0": D([F(), dict(k="expr", parts=[dict(k="call", d="e1", via="name", args=noargs)]),
                                        dict(k="expr", parts=[dict(k="cbody", args=noargs)])], nested=["e1"]),
                "b1": D([F()], blk=True)}
        body = [F(), dict(k="expr", parts=[dict(k="call", d="d0", via="name", args=noargs)]), dict(k="block", d="b1"),
                dict(k="callc", parts=[dict(k="call", d="d0", via="name", args=noargs)], body=[F()], bparams=[], defs=[]), M() if el == "off" else T()]
        progs.append(dict(defs=defs, incs=[], eh=False, fe=False, top=["d0"], el=el, body=body))
    return progs


def sig_loop_block(p, x):
    return "loop-read-in-block-with-own-for-inside-for:%s" % (x["got"]["res"] if x["clause"] == "res" else x["clause"])


def sig_loop_body(p, x):
    return "loop-read-in-call-body-inside-for:%s" % (x["got"]["res"] if x["clause"] == "res" else x["clause"])


def check(run):
    thorough = run.thorough
    check_printer(run)
    maxraise = 6 if not thorough else 10
    n = 400 if not thorough else 2400
    progs = []
    g = rc.Gen(run.rng, control_profile())
    progs += [g.gen_prog() for _ in range(n)]
    g = rc.Gen(run.rng, control_profile(depth=5, suite=(1, 2), max_cost=500))
    progs += [g.gen_prog() for _ in range(n // 3)]
    # enable_loop=False: `loop` is an ordinary name; <%page enable_loop="True"/> re-enables it
    g = rc.Gen(run.rng, control_profile(p_loopcond=0.0))
    for _ in range(n // 6):
        p = g.gen_prog()
        p["el"] = "off"
        progs.append(p)
    g = rc.Gen(run.rng, control_profile())
    for _ in range(n // 6):
        p = g.gen_prog()
        p["el"] = "page"
        progs.append(p)
    run.extra["programs"] = len(progs)
    for i in range(0, len(progs), 300):
        rc.check_batch(run, progs[i:i + 300], maxraise, "control-%d" % (i // 300), coverage=True)
    rc.check_batch(run, enable_loop_family(), 6, "enable-loop")
    fam = iterator_family()
    rc.check_batch(run, fam, 8, "iterators", coverage=True)
    run.extra["iterator_programs"] = len(fam)
    # `return` inside buffered / filtered defs and blocks (finding #21 expected)
    g = rc.Gen(run.rng, control_profile(ret_in_flagged=True, flags=[["buffered"], ["filter"]], w=dict(ret=5, block=3, expr=4), depth=2))
    rc.check_batch(run, [g.gen_prog() for _ in range(30 if not thorough else 200)], 3, "early-return")
    # `loop` inside a call body inside a for
    rc.check_batch(run, loop_in_body_family(), 4, "loop-in-call-body", signature_of=sig_loop_body)
    rc.check_batch(run, loop_in_block_family(), 4, "loop-in-block", signature_of=sig_loop_block)
    acts = run.extra.get("action_coverage", {})
    for a in NEED:
        if not acts.get(a):
            raise MachineryError("vacuous: action %s of Render.tla never taken (%s)" % (a, acts))
    run.assumptions += [
        "conditions are constants or loop.first / loop.even; iterables are range/list/tuple/str (sized) or generators/iterators (unsized: last and reverse_index raise TypeError, observed as -1)",
        "`loop` is not read in for-else clauses, nor (outside the dedicated families) inside call bodies that stand inside a for of the enclosing function, nor in a block under a for that has its own loop-using for",
        "% finally and while-else are rejected by the lexer and not generated; two except clauses on one try are covered by the printer model only",
        "variables assigned in <% %> are read in the same function only (name resolution across scopes is C04)",
    ]
    return {"rule": "PyPrinter.tla: TLC enumerates all legal control-line sequences to the bound with IndentEqualsNesting/BodyNeverEmpty "
                    "checked in every state; each bound sequence is compiled by the real generator and the indentation of every statement "
                    "line of Template.code compared with the model. Render.tla: TLC executes every (program, raise point); output tokens "
                    "and loop observations at every mark are compared with the rendered template. A case is one control-line sequence or "
                    "one (program, raise point).",
            "exhaustive": False}
