"""C10 -- escaping filters neutralise markup for every input and are invertible.

Specification: spec/Escape.tla (h, x, u, entity, trim, decode.<enc> and the htmlentityreplace codec
error handler, each transcribed in the shape of mako/filters.py, with reference decoders; invariants
Neutral, Invertible, UrlSafe, UrlInvertible, EntityExact, TrimOnlyEnds, DecodeStr, HandlerTotal),
spec/MC_Escape.tla (bounded instances + export), spec/Trace_Escape.tla (judges recorded outputs).

 1. TLC enumerates every string up to the tier's length over a concrete alphabet (markup characters,
    entity-fragment characters, whitespace, URL-safe/unsafe ASCII, one representative per class of
    non-ASCII character), checks the invariants on each and exports the expected output of every filter.
 2. R: every exported string is run through the real filters (mako.filters.*, html_entities_unescape,
    decode.utf8, str.encode(cs, 'htmlentityreplace')) and through Template.render (filters in
    expressions; output_encoding=cs with encoding_errors='htmlentityreplace') and compared.
 3. Sweep: every code point U+0000..U+10FFFF except surrogates is mapped to its class (abstraction
    function computed from html.entities, the codecs and str methods -- trusted); TLC computes the
    expected outputs of one representative per class, the harness instantiates that shape for every
    member of the class and compares the real outputs.
 4. V: seeded random strings mixing the alphabet with arbitrary Unicode are run through the real
    filters; Trace_Escape.tla judges the recorded outputs (the facts of every character used are
    added to the alphabet).

Python holds no copy of the filters: expected outputs come from TLC; Python concretises character
names, instantiates class shapes, and compares.
"""
import json
import multiprocessing
import os
import re
import shutil
import sys
from html.entities import codepoint2name

from . import core
from .core import MachineryError

CHARSETS = ["ascii", "latin-1", "cp1251", "shift_jis", "utf-8"]
QUICK_ALPHA = list("&<>\"'#x;ampltgquo349 \n-~/%+") + ["\u00e9", "\u20ac", "\u0416", "\u3042", "\U0001F600", "\u00a0"]
REDUCED_ALPHA = list("&<\"'#x;amp39 %") + ["\u00e9", "\u20ac", "\u0416", "\U0001F600", "\u00a0"]
EXTRA_THOROUGH = ["\u0080", "\u2003", "\u00a5", "\t", "\\", "=", "\u2028", "\uffff"]
FIELDS = ["h", "x", "u", "entity", "unescape", "trim"]
MORE_DECODE = ["latin1", "cp1251", "shift_jis", "utf_16", "ascii"]
CRAFTED = ["&amp;", "&amp;amp;", "&lt;x&gt;", "&#39;", "&#34;&#x22;", "&#x41;", "&euro;", "&nbsp", "&;", "&#;", "&#x;", "a&b;c",
           "%41", "%", "+", "a+b c", "%2B+", "\U0001F600+%", "&\u20ac;", "\u00e9&eacute;", "&eacute", "&#233;\u00e9", "  &amp; \u00a0",
           "<a href='x?a=1&b=2'>", "\"'\"'", "&&&", ";;&", "&#38;#38;", "&amp;lt;", "e\u0301", "\u212b", "\ufb01"]
FINDING3 = "htmlentityreplace:replacement-is-repr-of-bytes"


# --------------------------------------------------------------------------- characters <-> names, facts
def name_of(ch):
    cp = ord(ch)
    return ch if 0x21 <= cp <= 0x7E else "U+%04X" % cp


def char_of(name):
    if len(name) == 1:
        return name
    if name.startswith("U+"):
        return chr(int(name[2:], 16))
    raise ValueError(name)


def names_of(s):
    return [name_of(c) for c in s]


def text_of(names):
    try:
        return "".join(char_of(n) for n in names)
    except ValueError:
        return None


_ENC_CACHE = {}


def encodable(ch, cs):
    try:
        ch.encode(cs)
        return True
    except UnicodeEncodeError:
        return False


def facts(ch):
    """What the model is told about a character (from CPython's tables: trusted)."""
    cp = ord(ch)
    return {"n": name_of(ch), "cp": cp, "utf8": list(ch.encode("utf-8")),
            "ent": list(codepoint2name[cp]) if cp in codepoint2name else [],
            "ws": ch.isspace(), "enc": [cs for cs in CHARSETS if encodable(ch, cs)]}


def mc_cfg(maxlen):
    return ("CONSTANTS Alphabet <- FileAlphabet  GenNames <- FileGen  Charsets <- FileCharsets  MaxLen = %d\n"
            "SPECIFICATION MCSpec\n"
            "INVARIANT Neutral\nINVARIANT Invertible\nINVARIANT UrlSafe\nINVARIANT UrlInvertible\nINVARIANT EntityExact\n"
            "INVARIANT TrimOnlyEnds\nINVARIANT DecodeStr\nINVARIANT HandlerTotal\nINVARIANT Homomorphic\nINVARIANT TrimComposes\n"
            "CHECK_DEADLOCK FALSE\n" % maxlen)


TRACE_CFG = ("CONSTANTS Alphabet <- FileAlphabet  GenNames <- FileGen  Charsets <- FileCharsets  MaxLen = 0\n"
             "SPECIFICATION TSpec\nCHECK_DEADLOCK FALSE\n")


SESS_STRINGS = ["ab", "a<\u00e9\u20ac&\U0001F600'", " \u0416\"\u00a0"]      # plain ASCII / markup + unencodable in both / ws + cp1251-only
SESS_CHARSETS = ["latin-1", "cp1251"]


def input_module(alpha, gen, cases, sess_strings=()):
    """The generated EscapeInput.tla (overrides the placeholder in the scratch directory)."""
    def rec(f):
        return ("[n |-> %s, cp |-> %d, utf8 |-> %s, ent |-> %s, ws |-> %s, enc |-> %s]"
                % (core.tla_str(f["n"]), f["cp"], core.to_tla(f["utf8"]), core.to_tla(f["ent"]),
                   "TRUE" if f["ws"] else "FALSE", core.tla_set([core.tla_str(c) for c in f["enc"]])))

    def case(c):
        o = c["obs"]
        obs = ("[h |-> %s, x |-> %s, u |-> %s, entity |-> %s, unescape |-> %s, trim |-> %s, dec |-> %s, enc |-> %s]"
               % (core.to_tla(o["h"]), core.to_tla(o["x"]), core.to_tla(o["u"]), core.to_tla(o["entity"]), core.to_tla(o["unescape"]),
                  core.to_tla(o["trim"]), core.to_tla(o["dec"]), core.to_tla([[cs, v] for cs, v in sorted(o["enc"].items())])))
        return "[id |-> %d, s |-> %s, obs |-> %s]" % (c["id"], core.to_tla(c["s"]), obs)
    return ("---- MODULE EscapeInput ----\n\\* generated by harness/c10.py\n"
            "InAlphabet == <<\n%s\n>>\nInGen == %s\nInCharsets == %s\nInCases == <<\n%s\n>>\nInSessStrings == %s\n====\n"
            % (",\n".join(rec(facts(c)) for c in alpha), core.tla_set([core.tla_str(name_of(c)) for c in gen]),
               core.tla_set([core.tla_str(c) for c in CHARSETS]), ",\n".join(case(c) for c in cases),
               core.to_tla([names_of(x) for x in sess_strings] or [["a"]])))


def read_rows(res):
    rows = {}
    for line in res.out.splitlines():
        if line.startswith('"{'):
            try:
                v = json.loads(json.loads(line))
            except ValueError:
                raise MachineryError("unreadable export line from TLC: %r" % line[:200])
            if "s" in v:
                rows[tuple(v["s"])] = v
    return rows


def enumerate_tlc(run, alpha, gen, maxlen, name, workers):
    res = run.tlc("MC_Escape", mc_cfg(maxlen), name=name, workers=workers, timeout=2400, heap="3g",
                  extra_files={"EscapeInput.tla": input_module(alpha, gen, [])})
    return res, read_rows(res)


# --------------------------------------------------------------------------- the real filters
class Obj:
    def __init__(self, s):
        self.s = s

    def __str__(self):
        return self.s


def _obs(fn):
    try:
        r = fn()
    except Exception as ex:  # noqa -- an observation
        return "exc:" + type(ex).__name__
    return r


def real_outputs(s, templates=None):
    """Outputs of the real code for input s, as strings (or 'exc:Type' / 'type:...')."""
    from mako import filters
    o = {}
    o["h"] = _obs(lambda: _str(filters.html_escape(s)))
    o["x"] = _obs(lambda: _str(filters.xml_escape(s)))
    o["u"] = _obs(lambda: _str(filters.url_escape(s)))
    ent = _obs(lambda: _str(filters.html_entities_escape(s)))
    o["entity"] = ent
    o["unescape"] = _obs(lambda: _str(filters.html_entities_unescape(ent)))
    o["trim"] = _obs(lambda: _str(filters.trim(s)))
    o["dec"] = {"str": _obs(lambda: _str(filters.decode.utf8(s))),
                "bytes": _obs(lambda: _str(filters.decode.utf8(s.encode("utf-8")))),
                "obj": _obs(lambda: _str(filters.decode.utf8(Obj(s))))}
    o["dec_more"] = {}
    for enc in MORE_DECODE:
        try:
            b = s.encode(enc)
            if b.decode(enc) != s:
                continue
        except UnicodeError:
            continue                      # not encodable in enc: no such bytes object exists
        o["dec_more"][enc] = _obs(lambda: _str(getattr(filters.decode, enc)(b)))
    o["enc"] = {cs: _obs(lambda: _bytes(s.encode(cs, "htmlentityreplace"))) for cs in CHARSETS}
    if templates is not None:
        t = {}
        for f in ("h", "x", "u", "entity", "trim"):
            t[f] = _obs(lambda: _str(templates[f].render_unicode(x=s)))
        t["dec"] = {"str": _obs(lambda: _str(templates["decode"].render_unicode(x=s))),
                    "bytes": _obs(lambda: _str(templates["decode"].render_unicode(x=s.encode("utf-8")))),
                    "obj": _obs(lambda: _str(templates["decode"].render_unicode(x=Obj(s))))}
        t["enc"] = {cs: _obs(lambda: _bytes(templates["enc:" + cs].render(x=s))) for cs in CHARSETS}
        k = 1 if len(s) < 3 else 1 + (len(s) + ord(s[0])) % (len(s) - 1)
        t["enc2"] = {cs: _obs(lambda: _bytes(templates["enc2:" + cs].render(x=s[:k], y=s[k:]))) for cs in CHARSETS}
        o["tmpl"] = t
    return o


def _str(v):
    if type(v) is str:
        return v
    if isinstance(v, str):        # markupsafe.Markup
        return str.__str__(v)
    return "type:" + type(v).__name__


def _bytes(b):
    return b if isinstance(b, bytes) else "type:" + type(b).__name__


def enc_text(txt, cs):
    """Concretisation of an expected encoded text: its bytes in the charset (every character of an
    expected output is encodable -- invariant HandlerTotal); None if it is not."""
    try:
        return txt.encode(cs)
    except (UnicodeEncodeError, AttributeError):
        return None


def make_templates():
    from mako.template import Template
    t = {"h": Template("${x | h}"), "x": Template("${x | x}"), "u": Template("${x | u}"),
         "entity": Template("${x | entity}"), "trim": Template("${x | trim}"),
         "decode": Template("${x | decode.utf8}", default_filters=[])}
    from mako.lookup import TemplateLookup
    for cs in CHARSETS:
        t["enc:" + cs] = Template("${x}", output_encoding=cs, encoding_errors="htmlentityreplace")
        # through TemplateLookup(output_encoding=, encoding_errors=), the output written in two chunks
        lk = TemplateLookup(output_encoding=cs, encoding_errors="htmlentityreplace")
        lk.put_string("t", "${x}${y}")
        t["enc2:" + cs] = lk.get_template("t")
    return t


# --------------------------------------------------------------------------- comparison
def pieces_of(s, exp_names, cs):
    """Split the expected encoded text into per-character pieces (for classifying a mismatch only)."""
    out = []
    i = 0
    for ch in s:
        if encodable(ch, cs):
            out.append((False, exp_names[i:i + 1]))
            i += 1
        else:
            j = i
            if i < len(exp_names) and exp_names[i] == "&":
                while j < len(exp_names) and exp_names[j] != ";":
                    j += 1
            out.append((True, exp_names[i:j + 1]))
            i = j + 1
    return out if i == len(exp_names) else None


def bytes_repr_variants(s, exp_names, cs):
    """The expected text with every handler call's replacement wrapped in b'...' (per unencodable run and
    per character) -- used only to CLASSIFY a mismatch as finding #3."""
    ps = pieces_of(s, exp_names, cs)
    if ps is None:
        return []
    res = []
    for per_run in (True, False):
        txt = []
        k = 0
        while k < len(ps):
            rep, names = ps[k]
            if not rep:
                txt.append(text_of(names))
                k += 1
                continue
            grp = [names]
            k += 1
            while per_run and k < len(ps) and ps[k][0]:
                grp.append(ps[k][1])
                k += 1
            txt.append("b'" + "".join(text_of(g) for g in grp) + "'")
        res.append("".join(txt))
    return res


def compare(s, exp, real):
    """exp: row exported by TLC (name sequences); real: outputs of the real code.  Returns a list of
    (site, mode, detail) -- empty when everything agrees."""
    bad = []

    def one(site, e_names, r, cs=None):
        long_ = isinstance(e_names, str)         # a composed expectation for a long string: already text
        e = e_names if long_ else text_of(e_names)
        if cs is not None:                       # encoded output: compare bytes
            eb = enc_text(e, cs)
            if r == eb:
                return
            if isinstance(r, bytes):
                if not long_ and any(r == enc_text(v, cs) for v in bytes_repr_variants(s, e_names, cs)):
                    bad.append((site, "bytes-repr", {"charset": cs, "expected": e, "observed": repr(r)}))
                else:
                    bad.append((site, "wrong-output", {"charset": cs, "expected": e, "observed": repr(r)}))
            else:
                bad.append((site, ":".join(str(r).split(":")[:2])[:60], {"charset": cs, "expected": e, "observed": str(r)}))
            return
        if r == e:
            return
        if isinstance(r, str) and r.split(":")[0] in ("exc", "type"):
            bad.append((site, ":".join(r.split(":")[:2])[:60], {"expected": e, "observed": r}))
        else:
            bad.append((site, "wrong-output", {"expected": e, "observed": r}))
    for f in FIELDS:
        one(f, exp[f], real[f])
    for k in ("str", "bytes", "obj"):
        one("decode(%s)" % k, exp["dec"][k], real["dec"][k])
    for cs in CHARSETS:
        one("htmlentityreplace", exp["enc"][cs], real["enc"][cs], cs)
    t = real.get("tmpl")
    if t:
        for f in ("h", "x", "u", "entity", "trim"):
            one("template:" + f, exp[f], t[f])
        for k in ("str", "bytes", "obj"):
            one("template:decode(%s)" % k, exp["dec"][k], t["dec"][k])
        for cs in CHARSETS:
            one("htmlentityreplace/render", exp["enc"][cs], t["enc"][cs], cs)
            one("htmlentityreplace/lookup-render-two-writes", exp["enc"][cs], t["enc2"][cs], cs)
    for enc, r in real.get("dec_more", {}).items():
        one("decode.%s(bytes)" % enc, exp["dec"]["bytes"], r)
    return bad


def char_class(ch):
    """Abstract feature of a character for signatures."""
    cp = ord(ch)
    if cp < 128:
        return repr(ch) if ch in "&<>\"'" else "ascii-ws" if ch.isspace() else "ascii"
    return ("entity" if cp in codepoint2name else "noentity") + ("-ws" if ch.isspace() else "")


def _cmp_chunk(job):
    rows, with_templates = job
    tm = make_templates() if with_templates else None
    out = []
    n = 0
    for names, exp in rows:
        s = text_of(names)
        real = real_outputs(s, tm)
        n += 1
        for (site, mode, detail) in compare(s, exp, real):
            if len(out) < 400 or mode != "bytes-repr":
                out.append({"site": site, "mode": mode, "input": s, "detail": detail})
    return n, out


def report(run, mism, source):
    groups = {}
    for m in mism:
        groups.setdefault((m["site"], m["mode"]), []).append(m)
    # finding #3: one signature for the handler's bytes-repr slip, whatever the call path
    b = [m for m in mism if m["mode"] == "bytes-repr"]
    if b:
        b.sort(key=lambda m: (len(m["input"]), m["input"]))
        run.violation(FINDING3, "str.encode(cs, 'htmlentityreplace') / Template.render emit the repr of the escaper's bytes "
                      "(e.g. %r -> %r, expected %r)" % (b[0]["input"], b[0]["detail"]["observed"], b[0]["detail"]["expected"]),
                      {"source": source, "example": b[0], "count": len(b)})
    for (site, mode), ms in sorted(groups.items()):
        if mode == "bytes-repr":
            continue
        ms.sort(key=lambda m: (len(m["input"]), m["input"]))
        ex = ms[0]
        feat = ",".join(sorted({char_class(c) for c in ex["input"]})) or "empty"
        run.violation("%s:%s:%s" % (site.split("/")[0], mode, feat),
                      "%s on %r: expected %r, observed %r" % (site, ex["input"], ex["detail"]["expected"], ex["detail"]["observed"]),
                      {"source": source, "example": ex, "count": len(ms), "others": [m["input"] for m in ms[1:10]]})


# --------------------------------------------------------------------------- sweep of all code points
def class_key(ch):
    cp = ord(ch)
    if cp < 128:
        if ch in "&<>\"'":
            kind = "markup" + ch
        elif (ch.isalnum()) or ch in "_.-~":
            kind = "safe"
        elif ch == " ":
            kind = "space"
        else:
            kind = "ascii"
    else:
        kind = "nonascii"
    return (kind, cp in codepoint2name, ch.isspace(), len(ch.encode("utf-8")), tuple(encodable(ch, cs) for cs in CHARSETS))


def _class_chunk(rng_):
    lo, hi = rng_
    out = {}
    for cp in range(lo, hi):
        if 0xD800 <= cp <= 0xDFFF:
            continue
        k = class_key(chr(cp))
        out.setdefault(k, []).append(cp)
    return out


def shape_of(e_names, rep, field):
    """The expected output of the class representative `rep` as a shape: literal text and the places
    where the representative's own character / entity reference / hexadecimal reference /
    percent-encoded octets stand."""
    rn = name_of(rep)
    rcp = ord(rep)
    subs = []
    if rcp in codepoint2name:
        subs.append((["&"] + list(codepoint2name[rcp]) + [";"], "ent"))
    subs.append((list("&#x%X;" % rcp), "hex"))
    if field == "u":
        subs.append((list("".join("%%%02X" % b for b in rep.encode("utf-8"))), "pct"))
    subs.append(([rn], "c"))
    out = []
    i = 0
    while i < len(e_names):
        for pat, what in subs:
            if e_names[i:i + len(pat)] == pat:
                out.append((what, None))
                i += len(pat)
                break
        else:
            if out and out[-1][0] == "lit":
                out[-1] = ("lit", out[-1][1] + char_of(e_names[i]))
            else:
                out.append(("lit", char_of(e_names[i])))
            i += 1
    return out


def fill(shape, ch):
    cp = ord(ch)
    out = []
    for what, txt in shape:
        if what == "lit":
            out.append(txt)
        elif what == "c":
            out.append(ch)
        elif what == "ent":
            out.append("&%s;" % codepoint2name.get(cp, "?"))
        elif what == "hex":
            out.append("&#x%X;" % cp)
        else:
            out.append("".join("%%%02X" % b for b in ch.encode("utf-8")))
    return "".join(out)


def instantiate(e_names, rep, ch, field):
    return fill(shape_of(e_names, rep, field), ch)


def _sweep_chunk(job):
    items, render_first = job            # items: [(rep, exp_row, [cps])]
    tm = make_templates()
    mism = []
    n = 0
    for rep, exp, cps in items:
        shapes = {f: shape_of(exp[f], rep, f) for f in FIELDS}
        dshapes = {k: shape_of(exp["dec"][k], rep, "dec") for k in exp["dec"]}
        eshapes = {cs: shape_of(exp["enc"][cs], rep, "enc") for cs in CHARSETS}
        for idx, cp in enumerate(cps):
            ch = chr(cp)
            real = real_outputs(ch, tm if idx < render_first else None)
            n += 1
            bad = []

            def one(site, e, r, cs=None):
                if cs is not None:
                    eb = enc_text(e, cs)
                    if r == eb:
                        return
                    if isinstance(r, bytes):
                        mode = "bytes-repr" if r == enc_text("b'" + e + "'", cs) else "wrong-output"
                        bad.append((site, mode, {"charset": cs, "expected": e, "observed": repr(r)}))
                    else:
                        bad.append((site, ":".join(str(r).split(":")[:2])[:60], {"charset": cs, "expected": e, "observed": str(r)}))
                    return
                if e == r:
                    return
                if isinstance(r, str) and r.split(":")[0] in ("exc", "type"):
                    bad.append((site, ":".join(r.split(":")[:2])[:60], {"expected": e, "observed": r}))
                else:
                    bad.append((site, "wrong-output", {"expected": e, "observed": r}))
            inst = {f: fill(shapes[f], ch) for f in FIELDS}
            for f in FIELDS:
                one(f, inst[f], real[f])
            for k in ("str", "bytes", "obj"):
                one("decode(%s)" % k, fill(dshapes[k], ch), real["dec"][k])
            einst = {cs: fill(eshapes[cs], ch) for cs in CHARSETS}
            for cs in CHARSETS:
                one("htmlentityreplace", einst[cs], real["enc"][cs], cs)
            t = real.get("tmpl")
            if t:
                for f in ("h", "x", "u", "entity", "trim"):
                    one("template:" + f, inst[f], t[f])
                for cs in CHARSETS:
                    one("htmlentityreplace/render", einst[cs], t["enc"][cs], cs)
            for (site, mode, detail) in bad:
                if (mode != "bytes-repr" and len(mism) < 3000) or len(mism) < 300:
                    mism.append({"site": site, "mode": mode, "input": ch, "detail": detail})
    return n, mism


# --------------------------------------------------------------------------- V
ENTITY_CPS = sorted(codepoint2name)


def char_pool(rng, n_any=45, n_ent=25):
    """Arbitrary Unicode for the random strings of one run: a seeded pool (keeps the alphabet handed to
    TLC small); different seeds draw different pools."""
    pool = [chr(c) for c in rng.sample(ENTITY_CPS, n_ent)]
    while len(pool) < n_ent + n_any:
        r = rng.random()
        cp = rng.randrange(0x110000) if r < 0.4 else rng.randrange(0x3000) if r < 0.8 else rng.randrange(0x80)
        if not 0xD800 <= cp <= 0xDFFF:
            pool.append(chr(cp))
    return pool


def random_string(rng, alpha, pool):
    n = rng.randint(1, 12)
    return "".join(rng.choice(alpha) if rng.random() < 0.55 else rng.choice(pool) for _ in range(n))


def roundtrips(ch, cs):
    try:
        return ch.encode(cs).decode(cs) == ch
    except UnicodeError:
        return True


def obs_names(v, cs=None):
    """A real output in the model's terms (sequence of character names); failures become a marker."""
    if isinstance(v, bytes):
        try:
            v = v.decode(cs)
        except UnicodeDecodeError:
            return ["?undecodable"]
    if isinstance(v, str) and v.split(":")[0] in ("exc", "type") and ":" in v:
        return ["?" + v[:60]]
    return names_of(v)


def record_cases(strings, tm):
    cases = []
    for i, s in enumerate(strings):
        r = real_outputs(s, tm)
        use_t = i % 2 == 1           # alternate: direct calls / through templates
        src = r["tmpl"] if use_t else r
        obs = {f: obs_names(src[f] if f in src else r[f]) for f in FIELDS if f != "unescape"}
        obs["unescape"] = obs_names(r["unescape"])
        obs["dec"] = {k: obs_names(src["dec"][k]) for k in ("str", "bytes", "obj")}
        # (a charset that does not round-trip a character of the input -- shift_jis maps U+00A5 and
        # U+203E to ASCII bytes -- cannot be abstracted back from the bytes: not recorded for that input)
        esrc = r["tmpl"]["enc2"] if i % 4 == 3 else src["enc"]       # every fourth: through a lookup, written in two chunks
        obs["enc"] = {cs: obs_names(esrc[cs], cs) for cs in CHARSETS if all(roundtrips(c, cs) for c in s)}
        cases.append({"id": i + 1, "s": names_of(s), "obs": obs, "via": "template" if use_t else "direct"})
    return cases


def validate(run, cases, alpha_chars, name, workers):
    chars = sorted(set(alpha_chars) | {c for k in cases for c in text_of(k["s"])})
    # references in observed outputs may name characters too: the decoders need their facts only if they
    # are inputs, which they are (every reference emitted stands for an input character)
    res = run.tlc("Trace_Escape", TRACE_CFG, name=name, workers=workers, timeout=1200, count=False, expect_ok=False, heap="2g",
                  extra_files={"EscapeInput.tla": input_module(chars, [], cases)})
    if res.violated or not res.completed:
        raise MachineryError("trace validation %s failed: %s\n%s" % (name, res.violated, res.out[-2500:]))
    verdicts = {}
    for line in res.out.splitlines():
        if line.startswith('"{'):
            v = json.loads(json.loads(line))
            if "t" in v:
                verdicts.setdefault(v["t"], v)
    missing = [c["id"] for c in cases if c["id"] not in verdicts]
    if missing:
        raise MachineryError("trace validation %s: %d cases without verdict\n%s" % (name, len(missing), res.out[-1500:]))
    return verdicts


# --------------------------------------------------------------------------- the check
def check(run):
    thorough = run.thorough
    cap = int(os.environ.get("VERIF_DEV_WORKERS", "0") or 0)
    nproc = min(core.NCPU, 16, cap * 2 if cap else 16)
    wk = (lambda n: max(1, min(n, cap))) if cap else (lambda n: n)
    import mako
    run.extra["mako_file"] = mako.__file__
    if not os.path.abspath(mako.__file__).startswith(os.path.abspath(core.MAKO_SRC) + os.sep):
        raise MachineryError("mako was imported from %s, not from MAKO_SRC=%s" % (mako.__file__, core.MAKO_SRC))
    ctxmp = multiprocessing.get_context("fork")

    # ---------------------------------------------------------------- 1+2. enumerate, check, export, compare
    plans = [("enum-3", QUICK_ALPHA, QUICK_ALPHA, 3)]
    if thorough:
        plans = [("enum-3", QUICK_ALPHA + EXTRA_THOROUGH, QUICK_ALPHA + EXTRA_THOROUGH, 3), ("enum-4", REDUCED_ALPHA, REDUCED_ALPHA, 4)]
    all_mism = []
    first_rows = None
    for (name, alpha, gen, maxlen) in plans:
        res, rows = enumerate_tlc(run, alpha, gen, maxlen, name, wk(16))
        if res.violated:
            run.spec_violation(res, "TLC: the filters as modelled violate %s" % res.violated)
            continue
        want = sum(len(gen) ** k for k in range(maxlen + 1))
        if len(rows) != want:
            raise MachineryError("%s: TLC exported %d strings, expected %d" % (name, len(rows), want))
        # vacuity: the enumeration must contain strings on which each filter does something
        def differs(f):
            return any(r[f] != r["s"] for r in rows.values())
        if not all(differs(f) for f in ("h", "x", "u", "entity", "trim")) or \
                not all(any(r["enc"][cs] != r["s"] for r in rows.values()) for cs in CHARSETS if cs != "utf-8"):
            raise MachineryError("vacuous enumeration: some filter never changes any string")
        items = sorted(rows.items())
        per = max(500, len(items) // (nproc * 4) + 1)
        jobs = [(items[k:k + per], True) for k in range(0, len(items), per)]
        with ctxmp.Pool(nproc) as pool:
            out = pool.map(_cmp_chunk, jobs, chunksize=1)
        run.traces += sum(n for n, _ in out)
        run.extra.setdefault("strings_enumerated", {})[name] = len(rows)
        mism = [m for _, ms in out for m in ms]
        all_mism += mism
        report(run, mism, "every string of length <= %d over %d characters, enumerated by TLC (%s)" % (maxlen, len(gen), name))
        if first_rows is None:
            first_rows = rows
    if first_rows:
        negative_controls(run, first_rows)
        for key in (("<", "U+00E9", "&"), ("U+20AC", "U+0416", "'")):
            if key in first_rows:
                r = first_rows[key]
                run.sample({"direction": "R", "input": text_of(key), "expected": {f: text_of(r[f]) for f in FIELDS},
                            "expected_enc": {cs: text_of(r["enc"][cs]) for cs in CHARSETS}})

    # ---------------------------------------------------------------- 3. sweep of every code point
    step = 0x110000 // (nproc * 4) + 1
    with ctxmp.Pool(nproc) as pool:
        parts = pool.map(_class_chunk, [(lo, min(lo + step, 0x110000)) for lo in range(0, 0x110000, step)], chunksize=1)
    classes = {}
    for p in parts:
        for k, cps in p.items():
            classes.setdefault(k, []).extend(cps)
    reps = {k: chr(min(cps)) for k, cps in classes.items()}
    total_cp = sum(len(v) for v in classes.values())
    if total_cp != 0x110000 - 0x800:
        raise MachineryError("sweep: %d code points classified" % total_cp)
    rep_chars = sorted(set(reps.values()))
    res, rrows = enumerate_tlc(run, rep_chars, rep_chars, 1, "class-representatives", wk(4))
    if res.violated:
        run.spec_violation(res, "TLC: the filters as modelled violate %s on a class representative" % res.violated)
    else:
        items = []
        for k, cps in sorted(classes.items(), key=lambda kv: min(kv[1])):
            rep = reps[k]
            exp = rrows.get((name_of(rep),))
            if exp is None:
                raise MachineryError("no export for class representative %r" % rep)
            cps.sort()
            for j in range(0, len(cps), 20000):
                items.append((rep, exp, cps[j:j + 20000]))
        items.sort(key=lambda it: -len(it[2]))
        jobs = [([it], 3 if len(it[2]) > 2000 else 40) for it in items]
        with ctxmp.Pool(nproc) as pool:
            out = pool.map(_sweep_chunk, jobs, chunksize=1)
        nsw = sum(n for n, _ in out)
        if nsw != total_cp:
            raise MachineryError("sweep compared %d of %d code points" % (nsw, total_cp))
        run.traces += nsw
        run.extra["code_points_swept"] = nsw
        run.extra["character_classes"] = len(classes)
        mism = [m for _, ms in out for m in ms]
        report(run, mism, "sweep of every code point U+0000..U+10FFFF (no surrogates) by class (%d classes)" % len(classes))
        # negative control of the instantiation: a wrong member must not match
        k0 = next(k for k in classes if k[0] == "nonascii" and len(classes[k]) > 1 and not k[1])
        rep = reps[k0]
        exp = rrows[(name_of(rep),)]
        other = chr(sorted(classes[k0])[1])
        run.negative_control(instantiate(exp["u"], rep, other, "u") != text_of(exp["u"]) and
                             instantiate(exp["enc"]["ascii"], rep, other, "enc") != text_of(exp["enc"]["ascii"]),
                             "class shape instantiation does not distinguish members")

    # ---------------------------------------------------------------- 3b. long strings (length / repetition)
    if first_rows and not res.violated:
        long_strings(run, first_rows, rrows, nproc, thorough)

    # ---------------------------------------------------------------- 4. V: random strings, judged by TLC
    for vround in range(5 if thorough else 1):
        nrand = 800
        tm = make_templates()
        pool = char_pool(run.rng)
        strings = [random_string(run.rng, QUICK_ALPHA, pool) for _ in range(nrand)] + (CRAFTED if vround == 0 else [])
        cases = record_cases(strings, tm)
        good = [c for c in cases if all(c["obs"]["enc"].get(cs) == c["s"] for cs in CHARSETS)][:3]
        ncs = []
        for j, c in enumerate(good):
            b = json.loads(json.dumps(c))
            b["id"] = 10 ** 6 + j
            f = ("x", "u", "trim")[j % 3]
            b["obs"][f] = b["obs"][f] + ["<"]
            ncs.append(b)
        verdicts = validate(run, cases + ncs, QUICK_ALPHA, "trace-random-%d" % vround, wk(8))
        for b in ncs:
            run.negative_control(not verdicts[b["id"]]["ok"], "Trace_Escape accepted a corrupted output (%d)" % b["id"])
        if not ncs:
            raise MachineryError("no candidate for the negative control of Trace_Escape")
        run.traces += len(cases)
        groups = {}
        for c in cases:
            v = verdicts[c["id"]]
            if not v["ok"]:
                groups.setdefault(v["clause"], []).append(c)
        for clause, cs_ in sorted(groups.items()):
            cs_.sort(key=lambda c: (len(c["s"]), c["s"]))
            ex = cs_[0]
            if clause == "dev:bytes-repr":
                run.violation(FINDING3, "recorded outputs are explained by Escape.tla only with the deviation Dev_BytesRepr "
                              "(the handler returns the repr of bytes): input %r" % text_of(ex["s"]),
                              {"source": "random strings judged by Trace_Escape.tla", "case": ex, "count": len(cs_)})
            else:
                feat = ",".join(sorted({char_class(c) for c in text_of(ex["s"])}))
                run.violation("trace:%s:%s" % (clause, feat), "recorded outputs not explained by Escape.tla (%s): input %r via %s"
                              % (clause, text_of(ex["s"]), ex["via"]), {"case": ex, "count": len(cs_)})
        if cases and vround == 0:
            run.sample({"direction": "V", "input": text_of(cases[0]["s"]), "obs": {f: text_of(cases[0]["obs"][f]) for f in ("h", "u")}})


    sessions(run, thorough, nproc, wk)

    run.assumptions += [
        "sessions: every session runs in a child forked from a process that has only imported mako; CPython's own error handlers (strict, replace, ignore, xmlcharrefreplace) are trusted",
        "character facts (code point, UTF-8 octets, named entity, str.isspace, encodability per charset) come from CPython's html.entities / codecs / str and are trusted",
        "universality over code points rests on the abstraction into %d classes; the model decides per class representative" % len(classes),
        "markupsafe's own speedups are exercised as installed; objects with __html__ are outside the property",
        "the encoded output is compared after decoding it with the same charset",
    ]
    return {"rule": "TLC exhaustive over every string up to the length bound on the alphabet (invariants on every string, expected "
                    "outputs exported); each compared with the real filters and Template.render; every code point swept by class "
                    "against the shape TLC computed for its representative; random strings judged by Trace_Escape.tla.",
            "exhaustive": True}


# --------------------------------------------------------------------------- long strings (length / repetition dimension)
REPEATS = [15, 16, 17, 31, 32, 33, 64, 255, 256, 257, 1000, 4096, 70000]
MIXED_PATTERNS = ["<&", "'\"", "&a;", "<a>", "&#3", "#x;", " \n", " a ", "\n<\n", "a b", "%+/", "-~a", "\u00e9\u20ac", "\u0416\u3042", "\U0001F600&",
                  "<\u00e9'", "\u20ac\"\u00a0", "\u00a0a\u00a0", "&\u00e9;", "a\U0001F600\u0416", ">\u3042<", "amp", ";&#", "'\u20ac ", "\n\u00a0 "]


def long_expectation(row, n):
    """The expected outputs of (pattern repeated n times), composed from the outputs TLC exported for the pattern:
    h, x, u, entity, the encodings are character-wise (invariant Homomorphic of Escape.tla); unescape and decode give
    the input back; trim by invariant TrimComposes."""
    p = text_of(row["s"])
    exp = {f: text_of(row[f]) * n for f in ("h", "x", "u", "entity")}
    exp["unescape"] = p * n
    trim_p = text_of(row["trim"])
    if trim_p == "":                              # the pattern is whitespace only
        exp["trim"] = ""
    elif n == 1:
        exp["trim"] = trim_p
    else:
        exp["trim"] = text_of(row["ltrim"]) + p * (n - 2) + text_of(row["rtrim"])
    exp["dec"] = {k: p * n for k in ("str", "bytes", "obj")}
    exp["enc"] = {cs: text_of(row["enc"][cs]) * n for cs in CHARSETS}
    return p * n, exp


def _long_chunk(job):
    """job: [(row, n)] -- compare the real filters / renders on the long string with the composed expectation."""
    from . import c10_session
    import tempfile
    tm = make_templates()
    tmp = tempfile.mkdtemp(prefix="c10long-", dir=job["scratch"])
    os.makedirs(os.path.join(tmp, "src"))
    with open(os.path.join(tmp, "src", "f.html"), "w") as f:
        f.write("${x}")
    c10_session.TMP["dir"] = tmp
    out = []
    ncmp = 0
    for row, n, routes in job["items"]:
        s, exp = long_expectation(row, n)
        real = real_outputs(s, tm)
        ncmp += 1
        bads = compare(s, exp, real)
        for route, cs in routes:                      # the long string through every render route
            try:
                r = c10_session.render_route(route, cs, "htmlentityreplace", s)
            except Exception as ex:  # noqa -- an observation
                r = "exc:" + type(ex).__name__
            ncmp += 1
            if r != enc_text(exp["enc"][cs], cs):
                bads.append(("htmlentityreplace/route[%s]" % route, "wrong-output" if isinstance(r, bytes) else str(r)[:60],
                             {"charset": cs, "expected": exp["enc"][cs][:80], "observed": repr(r)[:120]}))
        for (site, mode, detail) in bads:
            d = {k: (v[:80] + "...(%d chars)" % len(v) if isinstance(v, str) and len(v) > 100 else v) for k, v in detail.items()}
            out.append({"site": site, "mode": mode, "pattern": text_of(row["s"]), "n": n, "detail": d})
    shutil.rmtree(tmp, ignore_errors=True)
    return ncmp, out


def long_strings(run, rows, rrows, nproc, thorough):
    """Patterns (every alphabet character, every class representative of the sweep, mixed patterns) repeated n times."""
    from .c10_session import ROUTES
    pats = [rows[(name_of(c),)] for c in QUICK_ALPHA]
    pats += [rows[tuple(names_of(p))] for p in MIXED_PATTERNS if tuple(names_of(p)) in rows]
    keys = sorted(k for k in rows if len(k) in (2, 3))
    pats += [rows[run.rng.choice(keys)] for _ in range(30 if thorough else 8)]              # seeded further patterns
    pats += [r for k, r in sorted(rrows.items()) if len(k) == 1 and k not in {(name_of(c),) for c in QUICK_ALPHA}]
    if len(pats) < len(QUICK_ALPHA) + 20:
        raise MachineryError("long strings: patterns missing from the export")
    items = []
    for pi, row in enumerate(pats):
        for n in REPEATS:
            if n == 70000 and not thorough and pi % 3:
                continue                                # quick: the 2^16 neighbourhood for every third pattern
            routes = []
            if len(row["s"]) >= 2 and n in (17, 257, 4096) or (n == 70000 and pi % 9 == 0):
                routes = [(r, CHARSETS[(pi + i) % 4]) for i, r in enumerate(ROUTES)]
            items.append((row, n, routes))
    items.sort(key=lambda it: -it[1] * len(it[0]["s"]))
    nj = nproc * 3
    jobs = [{"scratch": run.scratch, "items": items[i::nj]} for i in range(nj)]
    ctxmp = multiprocessing.get_context("fork")
    with ctxmp.Pool(nproc) as pool:
        out = pool.map(_long_chunk, jobs, chunksize=1)
    ncmp = sum(n for n, _ in out)
    mism = [m for _, ms in out for m in ms]
    run.traces += ncmp
    run.extra["long_strings_compared"] = ncmp
    run.extra["long_string_patterns"] = len(pats)
    groups = {}
    for m in mism:
        groups.setdefault((m["site"], m["mode"]), []).append(m)
    for (site, mode), ms in sorted(groups.items())[:15]:
        ms.sort(key=lambda m: (m["n"], len(m["pattern"]), m["pattern"]))
        ex = ms[0]
        feat = ",".join(sorted({char_class(c) for c in ex["pattern"]}))
        run.violation("%s:%s:repeated>=%d:%s" % (site, mode, ex["n"], feat),
                      "%s on %r repeated %d times: expected %r, observed %r" % (site, ex["pattern"], ex["n"], ex["detail"].get("expected"), ex["detail"].get("observed")),
                      {"source": "patterns repeated n times, expectation composed from TLC's export (Homomorphic, TrimComposes)",
                       "example": ex, "count": len(ms), "failing_n": sorted({m["n"] for m in ms})})
    # negative control: a composed expectation with one repetition missing must be rejected
    row = pats[0]
    s, exp = long_expectation(row, 17)
    s2, exp2 = long_expectation(row, 16)
    run.negative_control(bool(compare(s, exp2, real_outputs(s))), "long-string comparer accepted the expectation of a shorter string")


# --------------------------------------------------------------------------- sessions (history dimension)
PAIR_ROUTES = ["render", "def", "context_bytes"]          # routes in the exhaustive two-operation sessions


def op_label(op):
    if op["k"] == "render":
        return "render[%s](%s)" % (op.get("r", ""), op["b"])
    if op["k"] == "encode":
        return "str.encode(htmlentityreplace)"
    return "filter(%s)" % op["a"]


def sessions(run, thorough, nproc, wk):
    """TLC enumerates every session of <= 2 operations (Session_Escape.tla), checks HistoryIndependent and
    exports the expected result of every operation; each session is run in ONE fresh process of its own
    and every operation's output compared.  Sessions of 3 operations are sampled (seeded)."""
    import subprocess
    from concurrent.futures import ThreadPoolExecutor
    chars = sorted(set("".join(SESS_STRINGS)) | set(QUICK_ALPHA))
    from .c10_session import ROUTES

    def scfg(maxops, routes):
        return ("CONSTANTS Alphabet <- FileAlphabet  GenNames <- FileGen  Charsets <- FileCharsets  MaxLen = 0  MaxOps = %d\n"
                " SessCharsets = {%s}\n Routes = {%s}\nSPECIFICATION SSpec\nINVARIANT HistoryIndependent\nINVARIANT ProcUntouched\n"
                "INVARIANT HandlerAlways\nINVARIANT RouteIndependent\nCHECK_DEADLOCK FALSE\n"
                % (maxops, ", ".join('"%s"' % c for c in SESS_CHARSETS), ", ".join('"%s"' % r for r in routes)))

    def rows_of(res):
        out = {}
        for line in res.out.splitlines():
            if line.startswith('"{'):
                v = json.loads(json.loads(line))
                if "ops" in v and "res" in v:
                    out[tuple((o["k"], o["a"], o["b"], o["s"], o["r"]) for o in v["ops"])] = v
        return out
    mod = input_module(chars, [], [], SESS_STRINGS)
    with ThreadPoolExecutor(max_workers=2) as ex:
        f1 = ex.submit(run.tlc, "Session_Escape", scfg(1, ROUTES), name="sessions-all-routes", workers=wk(2), timeout=900, heap="2g",
                       extra_files={"EscapeInput.tla": mod})
        f2 = ex.submit(run.tlc, "Session_Escape", scfg(2, PAIR_ROUTES), name="sessions-pairs", workers=wk(4), timeout=900, heap="2g",
                       extra_files={"EscapeInput.tla": mod})
        res1, res2 = f1.result(), f2.result()
    for res in (res1, res2):
        if res.violated:
            run.spec_violation(res, "TLC: the design admits a history- or route-dependent result (%s)" % res.violated)
            return
    singles = {k[0]: v for k, v in rows_of(res1).items() if len(k) == 1}
    seen = rows_of(res2)
    nfix = (len(SESS_CHARSETS) + 7) * len(SESS_STRINGS)
    want1 = len(ROUTES) * len(SESS_CHARSETS) * 5 * len(SESS_STRINGS) + nfix
    want2 = len(PAIR_ROUTES) * len(SESS_CHARSETS) * 5 * len(SESS_STRINGS) + nfix
    if len(singles) != want1 or len(seen) != want2 + want2 * want2:
        raise MachineryError("sessions: TLC exported %d operations (expected %d) and %d sessions (expected %d)"
                             % (len(singles), want1, len(seen), want2 + want2 * want2))
    # every operation alone (every route); every pair over PAIR_ROUTES (quick: the later operation on the string with
    # markup and unencodable characters, the earlier one on it or on the plain string; thorough: all); sampled triples
    # over everything
    sess = [v for k, v in sorted(singles.items())]
    sess += [v for k, v in sorted(seen.items()) if len(k) == 2 and (thorough or (k[0][3] in (1, 2) and k[1][3] == 2))]
    opkeys = sorted(singles)
    for _ in range(2000 if thorough else 500):
        ks = [run.rng.choice(opkeys) for _ in range(3)]
        sess.append({"ops": [singles[k]["ops"][0] for k in ks], "res": [singles[k]["res"][0] for k in ks]})
    jobs = []
    for i, v in enumerate(sess):
        ops = [dict(k=o["k"], a=o["a"], b=o["b"], r=o["r"], text=text_of(o["arg"])) for o in v["ops"]]
        jobs.append({"id": i, "ops": ops})
    nchunk = max(1, min(nproc, 16))
    chunks = [jobs[i::nchunk] for i in range(nchunk)]

    def child(chunk):
        p = subprocess.run([sys.executable, "-m", "harness.c10_session"], input=json.dumps(chunk), capture_output=True,
                           text=True, timeout=core.tscale(900), cwd=core.VERIF)
        if p.returncode != 0:
            raise MachineryError("session runner failed: %s" % p.stderr[-1500:])
        d = json.loads(p.stdout)
        if not os.path.abspath(d["mako"]).startswith(os.path.abspath(core.MAKO_SRC) + os.sep):
            raise MachineryError("session runner imported mako from %s" % d["mako"])
        return d["out"]
    with ThreadPoolExecutor(max_workers=nchunk) as ex:
        outs = [o for part in ex.map(child, chunks) for o in part]
    got = {o["id"]: o["res"] for o in outs}
    mism = {}
    alone = set()
    ncmp = 0
    for i, v in enumerate(sess):
        obs = got.get(i)
        if obs is None or len(obs) != len(v["ops"]):
            raise MachineryError("session %d: no result from the runner" % i)
        for j, (op, exp) in enumerate(zip(v["ops"], v["res"])):
            ncmp += 1
            d = session_diff(op, exp, obs[j])
            if d:
                if j == 0:
                    sig = "route:%s:%s" % (op_label(op), d)         # wrong already in a fresh process: not a matter of history
                    alone.add((op_label(op), d))
                elif (op_label(op), d) in alone:
                    break                                             # already reported for the operation alone
                else:
                    sig = "history:%s:after:%s:%s" % (op_label(op), "+".join(op_label(o) for o in v["ops"][:j]), d)
                mism.setdefault(sig, []).append({"subject": op["k"] != "render" or op["b"] == "htmlentityreplace", "session": [dict(o, arg=text_of(o["arg"])) for o in v["ops"]], "failing_op": j,
                                                 "expected": exp if exp and exp[0].startswith("?") else text_of(exp), "observed": obs[j]})
                break
    run.traces += len(sess)
    run.extra["sessions_run"] = len(sess)
    run.extra["session_operations_compared"] = ncmp
    # report the shortest histories first; a failure that already shows in a one-operation history is not history dependent
    # The property speaks of the filters and of htmlentityreplace; a history-dependent result of a render with
    # ANOTHER errors mode is outside its clauses (recorded in the evidence, not a C10 verdict).
    subject = {g: ms for g, ms in mism.items() if ms[0]["subject"]}
    run.extra["history_dependence_outside_property"] = sorted(set(mism) - set(subject))[:20]
    for sig, ms in sorted(subject.items(), key=lambda kv: (len(kv[1][0]["session"]), kv[0]))[:12]:
        run.violation(sig, "in one process, %s" % sig, {"example": ms[0], "count": len(ms)})
    # negative control: a swapped expectation must be rejected
    v = next(x for x in sess if x["ops"][0]["k"] == "render" and x["ops"][0]["b"] == "htmlentityreplace" and x["ops"][0]["s"] == 2)
    run.negative_control(session_diff(v["ops"][0], v["res"][0] + ["a"], got[sess.index(v)][0]) is not None or bool(mism),
                         "session comparer accepted a wrong expected result")
    if sess:
        run.sample({"direction": "R-session", "ops": [op_label(o) + ":" + o["a"] for o in sess[len(sess) // 3]["ops"]]})


def session_diff(op, exp, ob):
    """None if the observed result of one operation equals the expected one, else a failure mode."""
    if exp and exp[0].startswith("?exc:"):
        want = exp[0][5:]
        return None if ob.get("x") == want else "no-exception" if "x" not in ob else "exc:" + ob["x"]
    if "x" in ob:
        return "exc:" + ob["x"]
    e = text_of(exp)
    if op["k"] in ("render", "encode"):
        eb = enc_text(e, op["a"])
        return None if ("b" in ob and eb is not None and bytes.fromhex(ob["b"]) == eb) else "wrong-output"
    return None if ob.get("s") == e else "wrong-output"


def negative_controls(run, rows):
    """A wrong expected value must be rejected by the comparer (on an input where the real code agrees
    with the model; if there is none among the candidates, mismatches are being reported anyway)."""
    tm = make_templates()
    cands = [k for k in (("<", "U+00E9", "&"), ("a", "m", "p"), ("'", "/"), ("x",)) if k in rows] + sorted(rows)[:50]
    for key in cands:
        s = text_of(key)
        real = real_outputs(s, tm)
        if compare(s, rows[key], real):
            continue
        for f in ("x", "u", "entity"):
            bad = dict(rows[key])
            bad[f] = list(bad[f]) + ["a"]
            run.negative_control(bool(compare(s, bad, real)), "comparer accepted a wrong expected value for %s" % f)
        bad = json.loads(json.dumps(rows[key]))
        bad["enc"]["utf-8"] = bad["enc"]["utf-8"] + ["a"]
        run.negative_control(bool(compare(s, bad, real)), "comparer accepted a wrong expected encoding")
        return
