"""C08 -- a template means the same on every compilation and rendering path.

Specification: spec/Paths.tla (history model: sources, live Template objects, the ModuleInfo registry as
the code keeps it, module files on disk, process epochs), spec/MC_Paths.tla (bounded instances),
spec/Trace_Paths.tla (trace validation).

 1. TLC checks PathIndependence, OwnSource, OwnCode, DefsAgree, ModuleFileReused, RegistryWeak on bounded
    instances.  Where the code-shaped model admits a counterexample (module ids that coincide; a registry
    entry that dies with a twin) the counterexample is replayed on the real code and, when it reproduces,
    reported as a finding with a narrow signature.
 2. R: `tlc -simulate` histories of construct / collect / new-process / query are replayed on real
    Template objects and every observation is compared with the model's.
 3. V (primary): a seeded corpus of templates is realised on the eight paths, in fresh processes under
    PYTHONHASHSEED 0, 1, 2, 7 sharing one module directory (every process after the first re-loads the
    module files); the recorded events are validated by Trace_Paths.tla.

`python -m harness.c08 child <jobs.json> <out.json>` is the child-process entry point.
"""
import copy
import gc
import hashlib
import io
import json
import os
import re
import shutil
import subprocess
import sys

from . import core
from .core import MachineryError

BASE_SEEDS = [0, 1, 2, 7]
MAX_SEEDS = 8
# groups of same-kind names whose declaration order is observable in some fragment: the hash seeds are
# chosen so that a set of each group iterates in different orders (every member last / first under some seed)
ORDER_GROUPS = [["base", "theme"], ["alpha", "omega"], ["zeta", "kappa", "mu"], ["zed", "alpha2", "mid"],
                ["zz", "aa", "mm"], ["bz", "ba", "bm"], ["pa", "a", "zq", "bq"]]
_ORDER_PROBE = ("import json,sys\ngs=json.loads(sys.argv[1])\nout=[]\nfor g in gs:\n s=set()\n for n in g: s.add(n)\n out.append(list(s))\n"
                "print(json.dumps(out))")


def choose_seeds(run):
    """BASE_SEEDS plus further PYTHONHASHSEED values so that every ORDER_GROUP is iterated (as a set built in
    source order, the way the code generator builds its sets) with each member last and each member first."""
    def orders(seed):
        env = dict(os.environ)
        env["PYTHONHASHSEED"] = str(seed)
        p = subprocess.run([sys.executable, "-c", _ORDER_PROBE, json.dumps(ORDER_GROUPS)], env=env, capture_output=True, text=True, timeout=60)
        if p.returncode:
            raise MachineryError("hash order probe failed: " + p.stderr[-300:])
        return json.loads(p.stdout)
    goals = set()
    for gi, g in enumerate(ORDER_GROUPS):
        for n in g:
            goals.add((gi, "last", n))
            goals.add((gi, "first", n))
    cand = {}
    for seed in BASE_SEEDS + [x for x in range(3, 48) if x not in BASE_SEEDS]:
        o = orders(seed)
        cand[seed] = {(gi, "last", lst[-1]) for gi, lst in enumerate(o)} | {(gi, "first", lst[0]) for gi, lst in enumerate(o)}
    chosen = list(BASE_SEEDS)
    met = set().union(*(cand[x] for x in chosen))
    while len(chosen) < MAX_SEEDS and goals - met:
        best = max((x for x in cand if x not in chosen), key=lambda x: (len((cand[x] - met) & goals), -x))
        if not (cand[best] - met) & goals:
            break
        chosen.append(best)
        met |= cand[best]
    # vacuity: the importing-namespace groups must see every member last under some chosen seed
    for gi in (0, 1, 2):
        for n in ORDER_GROUPS[gi]:
            if (gi, "last", n) not in met:
                raise MachineryError("no hash seed among %s iterates %s with %s last" % (chosen, ORDER_GROUPS[gi], n))
    run.extra["order_goals_unmet"] = sorted("%s:%s:%s" % (ORDER_GROUPS[g][0], k, n) for g, k, n in goals - met)
    return chosen
AUX = 500000        # trace ids of auxiliary traces (mako-render given a path with a directory)


def dig(x):
    if isinstance(x, bytes):
        return "b:" + hashlib.sha1(x).hexdigest()[:12]
    return hashlib.sha1(x.encode("utf-8", "surrogatepass")).hexdigest()[:12]


# =========================================================================== R: real objects for a history
URIS = {"s1": "a-b.html", "s2": "a_b.html", "s3": "c.html", "s4": "d.html"}


def _file_digests(tops):
    out = {}
    for top in tops:
        for dp, _, fns in os.walk(top):
            for fn in fns:
                if fn.endswith(".py"):
                    p = os.path.join(dp, fn)
                    with open(p, "rb") as f:
                        out[p] = hashlib.sha1(f.read()).hexdigest()
    return out


def src_text(s):
    n = s[1:]
    return "SRC%s \u00fc ${x}<%%def name=\"d%s()\">D%s</%%def>\n" % (n, n, n)


class World:
    """Real Template objects over a temp directory, driven by the actions of Paths.tla."""

    def __init__(self, base):
        self.root = base
        self.src = os.path.join(base, "src")
        self.md = os.path.join(base, "mods")
        os.makedirs(self.src)
        for s, u in URIS.items():
            with open(os.path.join(self.src, u), "w", encoding="utf-8") as f:
                f.write(src_text(s))
            os.utime(os.path.join(self.src, u), (1_000_000_000, 1_000_000_000))
        self.objs = {}
        self.n = 0
        self.modpath = {}

    def close(self):
        self.objs.clear()
        gc.collect()
        shutil.rmtree(self.root, ignore_errors=True)

    def _modfiles(self):
        return _file_digests([self.md])

    def construct(self, kind, naming, s):
        from mako.template import ModuleTemplate, Template
        fn = os.path.join(self.src, URIS[s])
        sp = {"": "%s", "1": "/%s", "2": "./%s"}
        fam = naming.rstrip("12")
        kw = {"uri": sp[naming[len(fam):]] % URIS[s]} if fam in ("uri", "ruri", "curi") else {}
        self.n += 1
        how = "compiled"
        try:
            if kind == "string":
                t = Template(src_text(s), **kw)
            elif kind == "file":
                t = Template(filename=fn, **kw)
            elif kind == "moddir":
                before = self._modfiles()
                if fam == "curi":       # what a lookup with a modulename_callable keyed by the file passes on
                    t = Template(filename=fn, module_filename=os.path.join(self.md, "by-file", URIS[s] + ".py"), **kw)
                else:
                    t = Template(filename=fn, module_directory=os.path.join(self.md, "r") if fam == "ruri" else self.md, **kw)
                how = "compiled" if self._modfiles() != before else "modfile"      # a module file written or rewritten
                self.modpath[(s, fam)] = t.module.__file__
            elif kind == "wrap":
                import importlib.util
                path = self.modpath[(s, fam)]
                spec = importlib.util.spec_from_file_location("wrap_%d" % self.n, path)
                mod = importlib.util.module_from_spec(spec)
                spec.loader.exec_module(mod)
                t = ModuleTemplate(mod, module_filename=path, template_filename=fn)
                how = "modfile"
            elif kind in ("wrapsrc", "wrapmix"):
                import importlib.util
                path = self.modpath[(s, fam)]
                spec = importlib.util.spec_from_file_location("wrap_%d" % self.n, path)
                mod = importlib.util.module_from_spec(spec)
                spec.loader.exec_module(mod)
                if kind == "wrapsrc":
                    with open(path, encoding="utf-8") as f:
                        t = ModuleTemplate(mod, module_source=f.read(), template_source=src_text(s) if self.n % 2 else src_text(s).encode("utf-8"))
                else:
                    t = ModuleTemplate(mod, module_filename=path, template_source=src_text(s))
                how = "modfile"
            else:
                raise MachineryError("unknown kind " + kind)
        except MachineryError:
            raise
        except Exception as ex:  # noqa
            return {"op": "construct", "exc": type(ex).__name__, "t": self.n}
        self.objs[self.n] = t
        return {"op": "construct", "kind": kind, "naming": naming, "src": s, "t": self.n, "how": how}

    def collect(self, t):
        self.objs.pop(t, None)
        gc.collect()

    def newprocess(self):
        # within one process the model's NewProcess is: every object gone, the files stay
        self.objs.clear()
        gc.collect()

    @staticmethod
    def _who(text, pat):
        m = re.search(pat, text)
        return "s" + m.group(1) if m else "other"

    def query(self, op, t, m=None):
        from mako.runtime import Context
        from mako.util import FastEncodingBuffer
        o = self.objs[t]
        try:
            if op == "render":
                if m in ("render", "cmdline"):
                    r = o.render(x=1)
                elif m == "render_unicode":
                    r = o.render_unicode(x=1)
                elif m == "render_context":
                    buf = FastEncodingBuffer()
                    o.render_context(Context(buf, x=1))
                    r = buf.getvalue()
                else:
                    name = [x for x in o.list_defs() if x != "body"][0]
                    return self._who(o.get_def(name).render(), r"D(\d)")
                return self._who(r, r"SRC(\d)")
            if op == "source":
                return self._who(o.source, r"SRC(\d)")
            if op == "code":
                c = o.code
                from mako.template import ModuleInfo
                # (the ground truth applies when the registry answers with this object's own ModuleInfo; whose module comes
                # back otherwise is what the model predicts)
                own = ModuleInfo._modules.get(o.module.__name__) is getattr(o, "_mmarker", None)
                if own and _code_truth(o, c, getattr(o.module, "__file__", None) if os.path.isfile(getattr(o.module, "__file__", None) or "") else None, []) != "ok":
                    return "not-the-generated-module"
                return self._who(c, r"SRC(\d)")
            if op == "defs":
                ld = [x for x in o.list_defs() if x != "body"]
                if len(ld) != 1 or not o.has_def(ld[0]) or o.has_def("nonexistent"):
                    return "other:%r" % (ld,)
                return self._who(ld[0], r"d(\d)")
        except KeyError:
            return "KeyError"
        except Exception as ex:  # noqa
            return "exc:" + type(ex).__name__
        raise MachineryError("unknown query " + op)


def replay(steps, base):
    """steps: list of state dicts (with `last`).  Returns None or the first mismatch."""
    w = World(base)
    try:
        for i, st in enumerate(steps):
            last = st["last"]
            op = last["op"]
            if op == "init":
                continue
            if op == "construct":
                e = w.construct(last["kind"], last["naming"], last["src"])
                exp = {k: last[k] for k in ("kind", "naming", "src", "t", "how")}
                obs = {k: e.get(k) for k in exp}
                if "exc" in e:
                    obs["exc"] = e["exc"]
                if exp != obs:
                    return {"step": i, "op": last, "expected": exp, "observed": obs}
            elif op == "collect":
                w.collect(last["t"])
            elif op == "newprocess":
                w.newprocess()
            else:
                v = w.query(op, last["t"], last.get("m"))
                if v != last["val"]:
                    return {"step": i, "op": last, "expected": last["val"], "observed": v}
        return None
    finally:
        w.close()


MC_CFG = """CONSTANTS Sources = {%s}  MidU <- %s  MidF <- %s  MaxObj = %d  MaxEpoch = %d  AllowCollect = %s  Depth = %d
CONSTANTS Namings = {%s}
SPECIFICATION Spec
CONSTRAINT Bound
CHECK_DEADLOCK FALSE
"""


ALL_NAMINGS = ["uri", "uri1", "uri2", "ruri", "ruri1", "ruri2", "curi", "curi1", "curi2", "fn", "anon"]


def mc_cfg(sources, mu, mf, maxobj, maxepoch, collect, depth, invs, namings=("uri", "uri1", "fn", "anon")):
    return MC_CFG % (", ".join('"%s"' % s for s in sources), mu, mf, maxobj, maxepoch, "TRUE" if collect else "FALSE", depth,
                     ", ".join('"%s"' % n for n in namings)) + \
        "".join("INVARIANT %s\n" % i for i in invs)


ALL_INV = ["PathIndependence", "OwnSource", "OwnCode", "DefsAgree", "ModuleFileReused", "RegistryWeak"]


def history(ce):
    return [st.get("last") for _, st in ce]


def model_findings(run):
    """Instances on which the code-shaped model is expected to break OwnSource / OwnCode."""
    cases = [
        # name, sources, mu, mf, collect, invariant, signature, what
        ("collide-source", ["s1", "s2"], "MU_mixed", "MF_mixed", False, "OwnSource", "module-id-collision:source",
         "two templates whose URIs (or file names) differ only in non-word characters (a-b.html, a_b.html) share module_id: "
         "Template.source of the first returns the text of the second"),
        ("collide-code", ["s1", "s2"], "MU_mixed", "MF_mixed", False, "OwnCode", "module-id-collision:code",
         "two templates whose URIs (or file names) differ only in non-word characters share module_id: Template.code of the "
         "first returns the generated module of the second"),
        ("twin-source", ["s3"], "MU_distinct", "MF_distinct", True, "OwnSource", "registry-entry-dies-with-twin:source",
         "two Template objects for the same URI: when the later one is garbage collected the ModuleInfo registry entry "
         "(weak, keyed by module name) disappears and Template.source of the surviving one raises KeyError"),
        ("twin-code", ["s3"], "MU_distinct", "MF_distinct", True, "OwnCode", "registry-entry-dies-with-twin:code",
         "two Template objects for the same URI: when the later one is garbage collected Template.code of the surviving one raises KeyError"),
    ]
    for name, srcs, mu, mf, coll, inv, sig, what in cases:
        res = run.tlc("MC_Paths", mc_cfg(srcs, mu, mf, 3, 0, coll, 6, [inv]), name="mc-" + name, workers=2, heap="2g")
        if not res.violated:
            continue
        if res.violated != [inv]:
            run.spec_violation(res)
            continue
        ce = res.counterexample()
        mm = replay([st for _, st in ce], run.subdir("ce-" + name))
        if mm is None:
            run.violation(sig, what, {"history": history(ce), "uris": URIS,
                                      "source": "TLC counterexample to %s in Paths.tla, reproduced on the real code" % inv})
        else:
            run.violation("model-mismatch-on-%s-counterexample" % inv, "real code does not follow Paths.tla on the counterexample", mm)


# =========================================================================== V: corpus
CTX = {"a": 3, "b": 0, "t": "<\u00e9&=>", "q": ""}
CTX.update({"n%d" % i: i for i in range(12)})
# Option vectors: Template / TemplateLookup options a template is realised under, on every path alike (ModuleTemplate
# receives the options its constructor accepts and takes the others from the module -- which is what must agree), and
# render-argument names that are special under SOME option settings (`loop` is only legal with enable_loop=False; names
# equal to a def, a namespace, a block of the template).  Every option is non-default in at least one vector.
NAME_ARGS = {"d1": "arg-d1", "ns": "arg-ns", "blk": "arg-blk", "shd": "arg-shd", "shd2": "arg-shd2", "nd2": "arg-nd2"}
VECTORS = {
    "default": {"opts": {}, "args": {}},
    "noloop": {"opts": {"enable_loop": False}, "args": dict(NAME_ARGS, loop=7)},
    "strict": {"opts": {"strict_undefined": True, "imports": ["import os", "from math import pi as M_PI"], "future_imports": ["annotations"]},
               "args": dict(NAME_ARGS)},
    "filters": {"opts": {"default_filters": ["str", "trim"], "buffer_filters": ["trim"], "output_encoding": "utf-8", "encoding_errors": "replace"},
                "args": {}},
    "misc": {"opts": {"error_handler": "decline", "cache_enabled": False, "preprocessor": "strip-nul", "enable_loop": False,
                      "include_error_handler": "decline"}, "args": dict(NAME_ARGS, loop=7)},
}
MODULE_TEMPLATE_ACCEPTS = ("output_encoding", "encoding_errors", "format_exceptions", "error_handler", "cache_enabled", "include_error_handler")


def build_opts(spec):
    o = dict(spec)
    # handlers that decline (return false): the error propagates as without a handler, through the handler code path.
    # (A handler that swallows errors would turn every exception into truncated output and blur the other findings.)
    if o.get("error_handler") == "decline":
        o["error_handler"] = lambda context, error: False
    if o.get("include_error_handler") == "decline":
        o["include_error_handler"] = lambda context, error: False
    if o.get("preprocessor") == "strip-nul":
        o["preprocessor"] = lambda text: text.replace("\x00", "")
    return o


NONASCII = {"utf-8": "Gr\u00fc\u00dfe \u043c\u0438\u0440 \u65e5\u672c", "cp1251": "\u043c\u0438\u0440 \u0416\u0448", "latin-1": "Gr\u00fc\u00dfe \u00e9\u00e8"}

# fragments: tag -> (text, [(def name, in-body call, get_def kwargs)]); {NA} = non-ASCII words of the encoding
FRAGS = {
    "text": ("Text {NA} ${a} $ { } % <% 'x' %>|\n", []),
    "filters": ("${t | h} ${t | u} ${t | n, trim} ${'<{NA}>' | h}${'  pad ' | trim}|\n", []),
    "for": ("% for i in range(3):\n${loop.index}:${i}${'' if loop.last else ','}\\\n% endfor\n|\n", []),
    "ifelse": ("% if a:\nyes {NA}\n% elif b:\nelif\n% else:\nno\n% endif\n% if q:\nq\n% endif\n", []),
    "while_try": ("<% k = 0 %>\n% while k < 2:\n${k}<% k += 1 %>\\\n% endwhile\n% try:\n${1 // 0}\n% except ZeroDivisionError:\ndiv\n% endtry\n", []),
    "pyblock": ("<% v1 = a; v2 = str(b) + '1'; v3 = [v1, v2, '{NA}'] %>${v3} ${zz is UNDEFINED} ${len(str(v1))}|\n", []),
    "modblock": ("<%!\n    import re\n    K = re.sub('x', 'y', 'xx{NA}')\n%>${K}|\n", []),
    "def": ("<%def name=\"d1(x, y=2)\">[d1 ${x} ${y} ${a} {NA}]</%def>${d1(a)} ~~d1~~${d1(1, y=b)}~~/d1~~|\n",
            [("d1", {"x": 1, "y": "CTX:b"})]),
    "falsy": ("<%def name=\"fz(x, y='dflt', z=7)\">{${repr(x)}|${repr(y)}|${repr(z)}}</%def>~~fz~~${fz(0, y='', z=None)}~~/fz~~|\n",
              [("fz", {"x": 0, "y": "", "z": None})]),
    "buffered": ("<%def name=\"bf(w)\" buffered=\"True\" filter=\"trim\">  <${w}> {NA} </%def>~~bf~~${bf('')}~~/bf~~${bf(a) | h}|\n",
                 [("bf", {"w": ""})]),
    "nested": ("<%def name=\"outer()\"><%def name=\"inner(k)\">(${k})</%def>${inner(a)}${inner(b)}</%def>${outer()}|\n", []),
    "nested_default": ("<%def name=\"o2()\"><%def name=\"i2(x=a)\">[${x}]</%def>${i2()}</%def>${o2()}|\n", []),
    "block": ("<%block name=\"blk\">B${a} {NA}</%block><%block>anon${b}</%block><%block name=\"fb\" filter=\"h\"><${t}></%block>|\n", []),
    "call": ("<%def name=\"wrap(tag)\"><${tag}>${caller.body()}</${tag}></%def><%call expr=\"wrap('b')\">inner ${a}</%call>"
             "<%self:wrap tag=\"i\">{NA}</%self:wrap>|\n", []),
    "include": ("<%include file=\"inc.html\" args=\"v=a\"/><%include file=\"inc.html\"/>|\n", []),
    "namespace": ("<%namespace name=\"ns\" file=\"ns.html\"/><%namespace file=\"ns.html\" import=\"nd2\"/>${ns.nd(a)}${nd2()}${ns.nd('{NA}')}|\n", []),
    "many": ("".join("${n%d}" % i for i in range(12)) + "<%def name=\"m()\">" + "".join("${n%d}" % i for i in (5, 3, 11, 0, 7)) + "</%def>${m()}|\n", []),
    "page": ("<%page args=\"pa='p0', a=9, zq=1, bq=2\"/>${pa}${a}${zq}${bq}<%def name=\"pgd(x)\">(${x}${a}${self.uri == local.uri})</%def>~~pgd~~${pgd(0)}~~/pgd~~|\n", [("pgd", {"x": 0})]),
    # ---- order-sensitive fragments: the order of same-kind declarations is observable
    "ns_overlap_star": ("<%namespace name=\"base\" file=\"nsa.html\" import=\"*\"/><%namespace name=\"theme\" file=\"nsb.html\" import=\"*\"/>"
                        "${lab()}${only_a()}${only_b()}${base.lab()}${theme.lab()}|\n", []),
    "ns_overlap_named": ("<%namespace name=\"alpha\" file=\"nsb.html\" import=\"tag2, only_b2\"/><%namespace name=\"omega\" file=\"nsa.html\" import=\"tag2\"/>"
                         "<%def name=\"sh2()\">${tag2()}</%def>${tag2()}${only_b2()}~~sh2~~${sh2()}~~/sh2~~|\n", [("sh2", {})]),
    "ns_overlap_three": ("<%namespace name=\"zeta\" file=\"nsa.html\" import=\"tri\"/><%namespace name=\"kappa\" file=\"nsc.html\" import=\"*\"/>"
                         "<%namespace name=\"mu\" file=\"nsb.html\" import=\"tri, tri_b\"/>${tri()}${tri_b()}${lab3()}|\n", []),
    "multi_defs": ("<%def name=\"zed()\">Z</%def><%def name=\"alpha2()\">A${zed()}</%def><%def name=\"mid(x=1)\">M${alpha2()}${x}</%def>"
                   "${mid()}${alpha2()}${zed()}~~mid~~${mid(0)}~~/mid~~|\n", [("mid", {"x": 0})]),
    "dup_def": ("<%def name=\"dd()\">first</%def><%def name=\"dd()\">second</%def>${dd()}|\n", []),
    "multi_modblocks": ("<%! W = 'first' %><%! W = W + '+second'; V = W + '!' %><%! W = W + '+third' %>${W}${V}|\n", []),
    "multi_blocks": ("<%block name=\"bz\">z${a}</%block><%block name=\"ba\">a${b}</%block><%block name=\"bm\">m${n2}</%block>|\n", []),
    "multi_nested": ("<%def name=\"host()\"><%def name=\"zz()\">z</%def><%def name=\"aa()\">a${zz()}</%def><%def name=\"mm()\">m${aa()}${n3}</%def>"
                     "${mm()}${zz()}${n4}</%def>${host()}|\n", []),
    # ---- defs that observe their environment (self / local / parent / next, inherited members, namespaces)
    "env_def": ("<%def name=\"envd(x=1)\">[sl=${self.uri == local.uri} "
                "parent=${context.get('parent').uri.split('/')[-1] if context.get('parent') is not None else '-'} next=${context.get('next') is not None} "
                "h=${self.helper(x)} a=${a} x=${x}]</%def><%def name=\"helper(k)\">H${k}${a}${local.uri == self.uri}</%def>~~envd~~${envd(0)}~~/envd~~|\n",
                [("envd", {"x": 0})]),
    "env_def_inh": ("<%def name=\"envp(x)\">[p=${parent.uri.split('/')[-1]} pf=${parent.foot()} sf=${self.foot()} st=${self.title()} l=${local.uri == self.uri} "
                    "n=${context.get('next') is not None} x=${x}]</%def>~~envp~~${envp('')}~~/envp~~|\n", [("envp", {"x": ""})]),
    "env_def_mid": ("<%def name=\"envm(x)\">[sm=${self.middef()} pm=${parent.middef()} pb=${parent.midb()} p=${parent.uri.split('/')[-1]} x=${x}]</%def>"
                    "~~envm~~${envm(0)}~~/envm~~|\n", [("envm", {"x": 0})]),
    "env_def_ns": ("<%namespace name=\"ens\" file=\"ns.html\"/><%def name=\"usens(x)\">{${ens.nd(x)}${self.uri == local.uri}${ens.uri.split('/')[-1]}}</%def>"
                   "~~usens~~${usens(0)}~~/usens~~|\n", [("usens", {"x": 0})]),
    "def_varargs": ("<%def name=\"va(x, *args, **kw)\">[${x}|${len(args)}|${kw.get('nokey')}]</%def>~~va~~${va(0)}~~/va~~${va(1, 2, 3, k=4)}|\n",
                    [("va", {"x": 0})]),
    # ---- the URI as requested is part of the output: rendered per URI spelling (keys carry the spelling)
    "uri_print": ("URI[${self.uri}|${local.uri}|${context.get('parent').uri if context.get('parent') is not None else '-'}]"
                  "<%def name=\"ud(x)\">(${self.uri}|${local.uri}|${x})</%def>~~ud~~${ud(0)}~~/ud~~|\n", [("ud", {"x": 0})]),
    # ---- <%page> overrides of options; names that are special under some option settings
    "page_loop": ("<%page enable_loop=\"True\"/>\n% for i in range(2):\n${loop.index}:${loop.last}\\\n% endfor\n|\n", []),
    "page_filter": ("<%page expression_filter=\"h\"/>${t}${t | n}|\n", []),
    "shadow": ("<%def name=\"shd(x=1)\">S${x}</%def>${shd()}${shd2 if shd2 is not UNDEFINED else '-'}|\n", []),
    "multi_filters": ("${t | h, u, trim}${t | u, h}${' <x> ' | trim, h}${' <x> ' | h, trim}|\n", []),
    "texttag": ("<%text>${not} % evaluated <%def></%text>%% lit\n## comment\n<%doc>doc</%doc>|\n", []),
    "capture": ("<%def name=\"cp(x)\">c${x}</%def><% got = capture(cp, a) %>${got.upper()}${capture(cp, x='{NA}')}|\n", []),
}
INHERIT = "<%inherit file=\"{PARENT}\"/><%block name=\"title\">T${a} {NA}</%block>"
# fragments whose defs observe the inheritance environment need a parent (a given one, or any)
REQ_INHERIT = {"env_def_inh": None, "env_def_mid": "mid.html"}
SUPPORT = {
    "base.html": "BASE[<%block name=\"title\">bt</%block>|${next.body()}|<%block name=\"foot\">ft${a}</%block>]\n",
    "mid.html": "<%inherit file=\"base.html\"/>MID[<%block name=\"midb\">mb${a}</%block>|${next.body()}]"
                "<%def name=\"middef()\">md:${self.uri == local.uri}:${local.uri.split('/')[-1]}:${a}</%def>",
    "kid.html": "<%inherit file=\"main.html\"/>KID(${a})<%block name=\"title\">KT</%block>",
    "ns.html": "<%def name=\"nd(x)\">ND(${x})</%def><%def name=\"nd2()\">ND2</%def>",
    "inc.html": "<%page args=\"v=0\"/>INC(${v})${a}",
    "nsa.html": "".join("<%%def name=\"%s()\">A.%s </%%def>" % (n, n) for n in ("lab", "only_a", "tag2", "tri")),
    "nsb.html": "".join("<%%def name=\"%s()\">B.%s </%%def>" % (n, n) for n in ("lab", "only_b", "tag2", "only_b2", "tri", "tri_b")),
    "nsc.html": "".join("<%%def name=\"%s()\">C.%s </%%def>" % (n, n) for n in ("tri", "lab3")),
}
# the page fragment changes what `a` means for the body: kept out of combinations with def-reference segments
DEGENERATE = {"empty": "", "one_char": "x", "one_newline": "\n", "one_nonascii": "\u00e9", "only_comment": "## nothing but a comment\n",
              "only_doc": "<%doc>nothing but a doc section</%doc>", "only_modblock": "<%! ONLY = 1 %>", "only_def": "<%def name=\"only()\">D${a}</%def>",
              "only_expr": "${a}", "only_control": "% if a:\n% endif\n", "no_trailing_newline": "line one\nline two",
              "trailing_newline": "line one\nline two\n", "only_crlf": "\r\n", "only_spaces": "   "}
EXCLUSIVE = {"page", "uri_print", "page_loop", "page_filter"}


def make_corpus(run, n_random):
    rng = run.rng
    corpus = []
    REFS = {"include", "namespace", "ns_overlap_star", "ns_overlap_named", "ns_overlap_three", "env_def_ns"}

    def add(tags, inherit, encoding, vec="default"):
        for t in tags:                                   # a fragment may need a parent (a particular one)
            if t in REQ_INHERIT:
                inherit = REQ_INHERIT[t] or inherit or "base.html"
        na = NONASCII[encoding]
        body = "TPL%03d\n" % (len(corpus) + 1) + "".join(FRAGS[t][0] for t in tags)
        if inherit:
            body = INHERIT.replace("{PARENT}", inherit) + body
        body = body.replace("{NA}", na)
        comment = "" if encoding == "utf-8" else "## -*- coding: %s -*-\n" % encoding
        defs = [d for t in tags for d in FRAGS[t][1]]
        corpus.append({"id": len(corpus) + 1, "tags": list(tags), "inherit": inherit or "", "encoding": encoding, "text": comment + body,
                       "refs": bool(inherit or REFS & set(tags)), "urisens": "uri_print" in tags, "vec": vec,
                       "defs": defs, "marker": "TPL%03d" % (len(corpus) + 1)})
    def add_raw(name, text, vec="default", encoding="utf-8"):
        # degenerate templates, exactly as given (no marker line): every path and every observation must cope
        corpus.append({"id": len(corpus) + 1, "tags": ["degenerate_" + name], "inherit": "", "encoding": encoding, "text": text, "raw": True,
                       "refs": False, "urisens": False, "vec": vec, "defs": [], "marker": "TPL%03d" % (len(corpus) + 1)})
    encs = ["utf-8", "cp1251", "latin-1"]
    vecs = [v for v in VECTORS if v != "default"]
    for name, text in DEGENERATE.items():
        add_raw(name, text)
    add_raw("empty", "", "strict")
    add_raw("one_newline", "\n", "filters")
    add_raw("only_comment", "## -*- coding: cp1251 -*-\n", "default", "cp1251")
    for i, t in enumerate(sorted(FRAGS)):               # unit templates: one per feature, under the default options ...
        add([t], "", encs[i % 3] if t not in ("text",) else "utf-8")
    for i, t in enumerate(sorted(FRAGS)):               # ... and under one other option vector (all vectors occur)
        add([t], "", encs[(i + 1) % 3], "noloop" if t == "page_loop" else vecs[(i + rng.randrange(len(vecs))) % len(vecs)] if i >= len(vecs) else vecs[i])
    add(["page_loop"], "base.html", "utf-8", "misc")
    for t in ("env_def", "env_def_inh", "env_def_ns", "def", "falsy", "multi_defs", "text", "block"):   # ... in chains of length 2 and 3
        add([t], "base.html", "utf-8")
        add([t], "mid.html", encs[len(corpus) % 3])
    add(["text", "def"], "", "cp1251")
    for extra, inh in (([], "base.html"), ([], "mid.html"), (["include"], ""), (["namespace", "env_def"], ""), (["env_def_inh"], "base.html")):
        add(["uri_print"] + extra, inh, encs[len(corpus) % 3])
    tags = [t for t in sorted(FRAGS) if t not in EXCLUSIVE]
    for _ in range(n_random):
        k = rng.randint(2, 6)
        sel = rng.sample(tags, k)
        add(sel, rng.choice(["", "", "", "base.html", "mid.html"]), rng.choice(encs), rng.choice(["default"] + vecs))
    return corpus


# --------------------------------------------------------------------------- child: realise one template on every path
def _seg(out, name):
    if not isinstance(out, str):
        return None
    m = re.search("~~%s~~(.*?)~~/%s~~" % (name, name), out, re.S)
    return m.group(1) if m else None


def _try(fn):
    try:
        r = fn()
        if isinstance(r, bytes):        # an output_encoding is set: compared as text here (the exact bytes are C18's)
            try:
                r = r.decode("utf-8")
            except UnicodeDecodeError:
                pass
        return r
    except SystemExit:
        return "exc:SystemExit"
    except Exception as ex:  # noqa -- an observation
        return "exc:" + type(ex).__name__


def _d(v):
    if isinstance(v, (str, bytes)):
        return v if isinstance(v, str) and v.startswith("exc:") else dig(v)
    return "type:" + type(v).__name__


def _code_truth(t, code, mfile, defnames):
    """Compare Template.code with its ground truth; returns "ok" or what is wrong."""
    import tokenize
    if mfile:
        with open(mfile, "rb") as f:
            enc = tokenize.detect_encoding(f.readline)[0]
        with open(mfile, "rb") as f:
            want = f.read().decode(enc)
        if code != want:
            return "not-the-module-file-text"
    else:
        ns = {}
        try:
            exec(compile(code, "<code>", "exec"), ns)
        except Exception as ex:  # noqa
            return "module-source-fails-" + type(ex).__name__
        live = sorted(k for k in vars(t.module) if k.startswith("render_"))
        if sorted(k for k in ns if k.startswith("render_")) != live:
            return "module-source-defines-other-callables"
        for k in ("_template_uri", "_source_encoding", "_magic_number", "_enable_loop", "_template_filename", "_modified_time"):
            if ns.get(k, "?") != getattr(t.module, k, "?"):
                return "module-source-differs-in-" + k.strip("_")
    for name in defnames[:1]:
        try:
            if t.get_def(name).code != code:
                return "get_def-code-differs"
        except Exception as ex:  # noqa
            return "get_def-code-" + type(ex).__name__
    return "ok"


def realise(tpl, d, seed, first):
    """All paths for one template inside this process.  Returns the event list (object ids local)."""
    import contextlib
    import importlib.util
    from mako import cmd
    from mako.lookup import TemplateLookup
    from mako.runtime import Context
    from mako.template import ModuleTemplate, Template
    from mako.util import FastEncodingBuffer
    ev = []
    objs = []
    fn = os.path.join(d["src"], "main.html")
    vec = VECTORS[tpl.get("vec", "default")]
    topts = build_opts(vec["opts"])
    mopts = {k: v for k, v in topts.items() if k in MODULE_TEMPLATE_ACCEPTS}
    plain = tpl.get("vec", "default") == "default"       # mako-render cannot be given options: default vector only
    RCTX = dict(CTX)
    RCTX.update(vec["args"])
    lk = TemplateLookup([d["src"]], **topts)
    lkm = TemplateLookup([d["src"]], module_directory=d["md2"], **topts)
    text = tpl["text"]
    strctx = {k: str(v) for k, v in RCTX.items()}

    def modfiles():
        return {k: v for k, v in _file_digests([d["md"], d["md2"], d["md3"], d["md4"]]).items() if k.endswith("main.html.py")}
    refs = tpl["refs"]
    urisens = tpl.get("urisens", False)

    def construct(kind, naming, make, how=None):
        before = modfiles() if kind == "moddir" else None
        try:
            t = make()
        except Exception as ex:  # noqa
            objs.append(None)
            ev.append({"ev": "construct_failed", "kind": kind, "naming": naming, "src": "m", "t": len(objs), "exc": type(ex).__name__,
                       "detail": str(ex)[:160].encode("ascii", "replace").decode("ascii"), "seed": seed})
            return None
        if kind == "moddir":
            how = "compiled" if modfiles() != before else "modfile"      # a module file written or rewritten
        objs.append(t)
        ev.append({"ev": "construct", "kind": kind, "naming": naming, "src": "m", "t": len(objs), "how": how or "compiled", "seed": seed})
        return t

    def K(key, sp):
        # when the template prints URIs its meaning depends on the spelling it was requested under
        return key + "@" + sp if urisens and sp else key

    def queries(t, path, lookup=None, sp=None, light=False, gsrc=None, gcode=None):
        # gsrc / gcode: the template text / module text GIVEN to a ModuleTemplate (the ground truth for .source / .code then)
        n = len(objs)

        def rc():
            buf = FastEncodingBuffer()
            t.render_context(Context(buf, **RCTX), **RCTX)     # what render(**CTX) does: the data also goes to the body's **pageargs
            return buf.getvalue()
        def rc_file():                                       # a plain file-like object as the context's buffer
            buf = io.StringIO()
            t.render_context(Context(buf, **RCTX), **RCTX)
            return buf.getvalue()
        body = None
        methods = (("render", lambda: t.render(**RCTX)), ("render_unicode", lambda: t.render_unicode(**RCTX)), ("render_context", rc),
                   ("render_context", rc_file))
        for m, f in (methods[:1] if light else methods):
            r = _try(f)
            if m == "render":
                body = r
            ev.append({"ev": "render", "t": n, "m": m, "key": K("body|typed", sp), "dig": _d(r), "seed": seed, "path": path})
        for name, kw in tpl["defs"]:
            seg = _seg(body, name)
            if not (isinstance(body, str) and body.startswith("exc:")):      # no reference from a body that did not render
                ev.append({"ev": "render", "t": n, "m": "render", "key": K("def:" + name, sp), "dig": _d(seg) if seg is not None else "no-segment",
                           "seed": seed, "path": path})
            args = {k: (CTX[v[4:]] if isinstance(v, str) and v.startswith("CTX:") else v) for k, v in kw.items()}
            data = dict(RCTX)
            data.update(args)
            r = _try(lambda: t.get_def(name).render(**data))
            ev.append({"ev": "render", "t": n, "m": "get_def", "key": K("def:" + name, sp), "dig": _d(r), "seed": seed, "path": path})
        if lookup is not None:
            # the template as a PARENT: a fixed child (kid.html) of it rendered through the same lookup
            r = _try(lambda: lookup.get_template("kid.html").render(**RCTX))
            ev.append({"ev": "render", "t": n, "m": "render", "key": K("kid|typed", sp), "dig": _d(r), "seed": seed, "path": path})
        s = _try(lambda: t.source)
        # ground truth of .source for this path: the text given (string templates) or the content of the template file
        sback = "given" if gsrc is not None else "file" if getattr(t, "filename", None) and "string" not in path else "given"
        struth = "ok"
        if isinstance(s, str) and not s.startswith("exc:"):
            if gsrc is not None:
                want = gsrc
            elif sback == "file":
                with open(t.filename, "rb") as f:
                    want = f.read().decode(tpl["encoding"])
            else:
                want = text
            struth = "ok" if s == want else "not-the-%s-text" % sback
        ev.append({"ev": "source", "t": n, "dig": _d(s), "backing": sback, "truth": struth, "seed": seed, "path": path})
        c = _try(lambda: t.code)
        if isinstance(c, str) and not c.startswith("exc:"):
            # whose module it is: the template's marker text is in it (degenerate templates carry none: a trace has one source)
            owner = "m" if tpl.get("raw") or tpl["marker"] in c else "other"
            try:
                compile(c, "<code>", "exec")
                toks = set(re.findall(r"[^\x00-\x7f]+", text))
                cls = "ok" if all(tok in c for tok in toks) else "tokens-missing"
            except Exception:  # noqa
                cls = "nocompile"
        else:
            owner, cls = (c if isinstance(c, str) else "type:" + type(c).__name__), "none"
            owner = "KeyError" if owner == "exc:KeyError" else owner
        # ground truth of .code for THIS path: the text of the module file when the module lives in one (as Python reads
        # it, PEP 263), else a module source that defines what the live module defines
        mfile = getattr(t.module, "__file__", None)
        backing = "given" if gcode is not None else "modfile" if mfile and os.path.isfile(mfile) else "memory"
        truth = "ok"
        if backing == "given":
            truth = "ok" if c == gcode else "not-the-given-module-source"
            if truth == "ok" and tpl["defs"]:
                truth = _try(lambda: "ok" if t.get_def(tpl["defs"][0][0]).code == gcode else "get_def-code-differs")
        elif isinstance(c, str) and not c.startswith("exc:") and cls == "ok":
            truth = _code_truth(t, c, mfile if backing == "modfile" else None, [x[0] for x in tpl["defs"]])
        ev.append({"ev": "code", "t": n, "owner": owner, "cls": cls, "backing": backing, "truth": truth, "seed": seed, "path": path})
        if light:
            return
        names = [x[0] for x in tpl["defs"]]
        dd = _try(lambda: json.dumps([t.list_defs(), [t.has_def(x) for x in names + ["nonexistent_def", "body"]],
                                      [type(t.get_def(x)).__name__ for x in names],
                                      # attributes of the module that do not name the path it came by
                                      [getattr(t.module, "_source_encoding", "?"), getattr(t.module, "_enable_loop", "?"),
                                       getattr(t.module, "_magic_number", "?"), callable(getattr(t.module, "render_body", None))]]))
        ev.append({"ev": "defs", "t": n, "dig": _d(dd), "seed": seed, "path": path})

    SP = {"p": "main.html", "s": "/main.html", "d": "./main.html"}
    NM = {"p": "", "s": "1", "d": "2"}
    bare = refs or urisens
    varargs = sum((["--var", "%s=%s" % (k, v)] for k, v in CTX.items()), [])
    # 1. compiled from a string (with a URI, as TemplateLookup.put_string does -- under every spelling when the URI is
    #    part of the output, which gives the reference for that spelling -- and without)
    for sp in (("p", "s", "d") if urisens else ("p",)):
        t = construct("string", "uri" + NM[sp], lambda: Template(text, uri=SP[sp], lookup=lk, **topts))
        if t is not None:
            queries(t, "string/uri", sp=sp, light=sp != "p")
            if sp == "p":
                r = _try(lambda: t.render(**strctx))
                if isinstance(r, str) and r.startswith("exc:"):
                    r = "exc:render-failed"      # mako-render reports any failure the same way
                ev.append({"ev": "render", "t": len(objs), "m": "render", "key": K("body|str", "p"), "dig": _d(r), "seed": seed, "path": "string/uri"})
    t = None if urisens else construct("string", "anon", lambda: Template(text, lookup=lk, **topts))
    if t is not None:
        queries(t, "string/anon")
    # 2. from a file, in memory: through a lookup under three spellings of the URI; by file name only
    for sp in ("p", "s", "d"):
        t = construct("file", "uri" + NM[sp], lambda: lk.get_template(SP[sp]))
        if t is not None:
            queries(t, "file/lookup", lk if sp == "p" else None, sp=sp, light=sp != "p")
    # (a file name as the only identity cannot resolve relative <%include>/<%inherit>/<%namespace>: not generated)
    t = None if bare else construct("file", "fn", lambda: Template(filename=fn, lookup=lk, **topts))
    if t is not None:
        queries(t, "file/fn")
    # a text given together with the name of an existing file whose content is DIFFERENT: the text is the template
    t = None if bare else construct("string", "anon", lambda: Template(text, filename=os.path.join(d["src"], "decoy.html"), lookup=lk, **topts))
    if t is not None:
        queries(t, "string/with-filename", light=True)
    # 3./4. module files: generated by the first process under one spelling, re-loaded under the others and by every
    #    later process; in a second module directory the spellings come in the opposite order; a third lookup names
    #    its module files with a modulename_callable keyed by the file
    tm = None
    for sp in ("p", "s", "d"):
        t = construct("moddir", "uri" + NM[sp], lambda: lkm.get_template(SP[sp]))
        if t is not None:
            queries(t, "moddir/lookup", lkm if sp == "p" else None, sp=sp, light=sp != "p")
            tm = tm or t
    lkr = TemplateLookup([d["src"]], module_directory=d["md3"], **topts)
    for sp in ("d", "s", "p"):
        t = construct("moddir", "ruri" + NM[sp], lambda: lkr.get_template(SP[sp]))
        if t is not None:
            queries(t, "moddir/lookup-reversed", sp=sp, light=True)
    lkc = TemplateLookup([d["src"]], modulename_callable=lambda filename, uri: os.path.join(d["md4"], os.path.basename(filename) + ".py"), **topts)
    for sp in ("s", "p"):
        t = construct("moddir", "curi" + NM[sp], lambda: lkc.get_template(SP[sp]))
        if t is not None:
            queries(t, "moddir/modulename_callable", sp=sp, light=True)
    t = None if bare else construct("moddir", "fn", lambda: Template(filename=fn, module_directory=d["md"], lookup=lkm, **topts))
    if t is not None:
        queries(t, "moddir/fn")
    if (t if not bare else tm) is not None:
        path = (t if not bare else tm).module.__file__

        # 5. ModuleTemplate over the module imported by hand (in later processes: a module file written by another process)
        def wrap():
            spec = importlib.util.spec_from_file_location("wrapped_%s" % tpl["marker"], path)
            mod = importlib.util.module_from_spec(spec)
            spec.loader.exec_module(mod)
            # the documented way: from the module, with the options ModuleTemplate accepts; the rest comes from the module
            return ModuleTemplate(mod, module_filename=path, template_filename=fn, lookup=lkm, **mopts)
        t = construct("wrap", "uri" if bare else "fn", wrap, how="modfile")
        if t is not None:
            queries(t, "wrap", sp="p")

        # ... constructed in the other supported ways: from the sources (template text as str / as bytes), mixed (module
        # file name + template text), from the module alone; with and without a lookup where the template needs none
        def load():
            spec = importlib.util.spec_from_file_location("wrapped2_%s_%d" % (tpl["marker"], len(objs)), path)
            mod = importlib.util.module_from_spec(spec)
            spec.loader.exec_module(mod)
            return mod
        with open(path, "rb") as f:
            import tokenize
            menc = tokenize.detect_encoding(f.readline)[0]
        with open(path, "rb") as f:
            mtext = f.read().decode(menc)
        lkopt = {"lookup": lkm} if (refs or seed % 2) else {}
        nm = "uri" if bare else "fn"
        t = construct("wrapsrc", nm, lambda: ModuleTemplate(load(), module_source=mtext, template_source=text, **lkopt, **mopts), how="modfile")
        if t is not None:
            queries(t, "wrap/sources-str", sp="p", light=True, gsrc=text, gcode=mtext)
        t = construct("wrapsrc", nm, lambda: ModuleTemplate(load(), module_source=mtext, template_source=text.encode(tpl["encoding"]),
                                                            **lkopt, **mopts), how="modfile")
        if t is not None:
            queries(t, "wrap/sources-bytes", sp="p", light=True, gsrc=text, gcode=mtext)
        t = construct("wrapmix", nm, lambda: ModuleTemplate(load(), module_filename=path, template_source=text, **lkopt, **mopts), how="modfile")
        if t is not None:
            queries(t, "wrap/module-file+template-text", sp="p", light=True, gsrc=text)
    # 7. the mako-render command: its own Template(filename=...), string-valued variables; also with --template-dir and
    #    reading the template from standard input
    if bare:
        os.chdir(d["src"])      # a bare file name in the working directory (see the aux traces for a path with a directory)

    def run_cmd(argv, stdin=None):
        out = io.StringIO()
        old = sys.stdin
        if stdin is not None:
            sys.stdin = io.StringIO(stdin)
        try:
            with contextlib.redirect_stdout(out), contextlib.redirect_stderr(io.StringIO()):
                cmd.cmdline(argv)
        finally:
            sys.stdin = old
        return out.getvalue()

    def cmd_event(argv, label, kind, naming, stdin=None):
        r = _try(lambda: run_cmd(argv, stdin))
        if r == "exc:SystemExit":
            r = "exc:render-failed"
        objs.append(None)
        n = len(objs)
        ev.append({"ev": "construct", "kind": kind, "naming": naming, "src": "m", "t": n, "how": "compiled", "seed": seed})
        ev.append({"ev": "render", "t": n, "m": "cmdline", "key": K("body|str", "p"), "dig": _d(r), "seed": seed, "path": label})
        ev.append({"ev": "collect", "t": n})
    name = "main.html" if bare else fn
    if plain:
        cmd_event([name] + varargs, "cmdline", "file", "uri" if bare else "fn")
        cmd_event([name, "--template-dir", "." if bare else d["src"]] + varargs, "cmdline-template-dir", "file", "uri" if bare else "fn")
    if plain and not urisens:
        os.chdir(d["src"])
        cmd_event(["-"] + varargs, "cmdline-stdin", "string", "anon", stdin=text)
    aux = []
    if first and plain:
        t = _try(lambda: Template(text, uri="main.html", lookup=lk))
        if not isinstance(t, str):
            r0 = _try(lambda: t.render(**strctx))
            r0 = "exc:render-failed" if isinstance(r0, str) and r0.startswith("exc:") else r0
            variants = [("cmdline-output-encoding", [name, "--output-encoding", "utf-8"] + varargs, "uri" if bare else "fn")]
            if refs:
                variants.append(("cmdline-with-directory", [fn] + varargs, "fn"))
            for label, argv, naming in variants:
                if urisens and naming == "fn":
                    continue
                r2 = _try(lambda: run_cmd(argv))
                r2 = "exc:render-failed" if r2 == "exc:SystemExit" else r2
                aux.append([{"ev": "construct", "kind": "string", "naming": "uri", "src": "m", "t": 1, "how": "compiled", "seed": seed},
                            {"ev": "render", "t": 1, "m": "render", "key": "body|str", "dig": _d(r0), "seed": seed, "path": "string/uri"},
                            {"ev": "construct", "kind": "file", "naming": naming, "src": "m", "t": 2, "how": "compiled", "seed": seed},
                            {"ev": "render", "t": 2, "m": "cmdline", "key": "body|str", "dig": _d(r2), "seed": seed, "path": label}])
    return ev, len(objs), aux


def child_main(argv):
    with open(argv[0]) as f:
        job = json.load(f)
    import mako
    out = {"mako": os.path.dirname(os.path.abspath(mako.__file__)), "hashseed": os.environ.get("PYTHONHASHSEED"), "res": {}}
    for tpl in job["templates"]:
        d = job["dirs"][str(tpl["id"])]
        ev, n, aux = realise(tpl, d, job["seed"], job["first"])
        out["res"][tpl["id"]] = {"events": ev, "nobj": n, "aux": aux}
    with open(argv[1], "w") as f:
        json.dump(out, f)
    return 0


def run_seed(run, corpus, dirs, seed, nproc, first):
    work = run.subdir("jobs")
    chunks = [corpus[k::nproc] for k in range(nproc)]
    procs = []
    for k, ch in enumerate(chunks):
        if not ch:
            continue
        jf = os.path.join(work, "s%d-%d.json" % (seed, k))
        of = os.path.join(work, "s%d-%d.out.json" % (seed, k))
        with open(jf, "w") as f:
            json.dump({"seed": seed, "first": first, "templates": ch, "dirs": {str(t["id"]): dirs[t["id"]] for t in ch}}, f)
        env = dict(os.environ)
        env["PYTHONHASHSEED"] = str(seed)
        p = subprocess.Popen([sys.executable, "-m", "harness.c08", "child", jf, of], cwd=core.VERIF, env=env,
                             stdout=subprocess.DEVNULL, stderr=subprocess.PIPE, text=True)
        procs.append((p, of))
    res = {}
    want = os.path.join(os.path.abspath(core.MAKO_SRC), "mako")
    for p, of in procs:
        try:
            _, err = p.communicate(timeout=core.tscale(600))
        except subprocess.TimeoutExpired:
            p.kill()
            raise MachineryError("child process timed out")
        if p.returncode != 0 or not os.path.exists(of):
            raise MachineryError("child process failed: %s" % (err or "")[-1500:])
        with open(of) as f:
            d = json.load(f)
        if d["mako"] != want or d["hashseed"] != str(seed):
            raise MachineryError("child imported mako from %s (seed %s), expected %s (seed %s)" % (d["mako"], d["hashseed"], want, seed))
        for k, v in d["res"].items():
            res[int(k)] = v
    return res


TRACE_CFG = """CONSTANTS Sources = {"m"}  MidU <- TMidU  MidF <- TMidF  MaxObj = 100000  MaxEpoch = 100000  AllowCollect = TRUE
CONSTANTS Namings = {"uri", "uri1", "uri2", "ruri", "ruri1", "ruri2", "curi", "curi1", "curi2", "fn", "anon"}
SPECIFICATION TSpec
CHECK_DEADLOCK FALSE
"""


def record_corpus(run, corpus, nproc, seeds):
    root = run.subdir("corpus")
    dirs = {}
    for tpl in corpus:
        b = os.path.join(root, "t%03d" % tpl["id"])
        d = {"src": os.path.join(b, "src"), "md": os.path.join(b, "mods"), "md2": os.path.join(b, "mods2"), "md3": os.path.join(b, "mods3"),
             "md4": os.path.join(b, "mods4")}
        os.makedirs(d["src"])
        enc = tpl["encoding"]
        with open(os.path.join(d["src"], "main.html"), "wb") as f:
            f.write(tpl["text"].encode(enc))
        for name, text in list(SUPPORT.items()) + [("decoy.html", "DECOY ${a} -- another template's file\n")]:
            with open(os.path.join(d["src"], name), "w", encoding="utf-8") as f:
                f.write(text)
        for name in os.listdir(d["src"]):
            os.utime(os.path.join(d["src"], name), (1_000_000_000, 1_000_000_000))
        dirs[tpl["id"]] = d
    traces = {tpl["id"]: {"id": tpl["id"], "textdig": dig(tpl["text"]), "events": []} for tpl in corpus}
    counts = {tpl["id"]: 0 for tpl in corpus}
    aux = []
    for si, seed in enumerate(seeds):
        res = run_seed(run, corpus, dirs, seed, nproc, si == 0)
        for tpl in corpus:
            r = res.get(tpl["id"])
            if r is None:
                raise MachineryError("no events for template %d under seed %d" % (tpl["id"], seed))
            tr = traces[tpl["id"]]
            if si:
                tr["events"].append({"ev": "newprocess", "seed": seed})
            off = counts[tpl["id"]]
            for e in r["events"]:
                e = dict(e)
                if "t" in e:
                    e["t"] += off
                tr["events"].append(e)
            counts[tpl["id"]] += r["nobj"]
            for k, a in enumerate(r.get("aux") or []):
                aux.append({"id": AUX * (k + 1) + tpl["id"], "textdig": tr["textdig"], "events": a})
    return [traces[t["id"]] for t in corpus] + aux


def classify(tpl, trace, v, unit_fail):
    """Signature of a rejected trace: clause + which dimension differs + the feature(s) involved."""
    i = v["i"]
    e = trace["events"][i - 1] if i else {}
    clause = v["clause"]
    dim = ""
    if clause == "PathIndependence":
        # the reference is the first render event with the same key
        ref = next(x for x in trace["events"] if x.get("ev") == "render" and x.get("key") == e.get("key"))
        what = e.get("key", "").split("|")[0].split(":")[0]
        what = "body" if what == "kid" else what          # a whole-template render either way (as parent of kid.html)
        if e.get("path") == "cmdline-with-directory":
            return "mako-render:path-with-directory:relative-file-reference"
        if tpl.get("urisens") and str(e.get("path", "")).startswith("moddir/"):
            # a module file (re-)used for a URI spelled differently from the one it was generated for
            return "trace:PathIndependence:path:moddir-other-spelling:%s:uri_print%s" % (what, "+refs" if tpl["refs"] else "")
        if e.get("path") == "cmdline-output-encoding":
            return "mako-render:output-encoding:" + ("fails" if str(e.get("dig", "")).startswith("exc:") else "differs")
        if ref.get("path") == e.get("path") and ref.get("m") != e.get("m"):
            dim = "method:%s-vs-%s" % tuple(sorted([str(ref.get("m")), str(e.get("m"))]))
        elif ref.get("path") == e.get("path") and ref.get("m") == e.get("m"):
            dim = "seed"
        else:
            # does the same path/method agree with the reference under the reference's seed?  then it is the seed
            twin = [x for x in trace["events"] if x.get("ev") == "render" and x.get("key") == e.get("key")
                    and (x.get("path"), x.get("m")) == (e.get("path"), e.get("m")) and x.get("seed") == ref.get("seed")]
            dim = "seed" if twin and twin[0] is not e and twin[0]["dig"] == ref["dig"] else "path:%s/%s" % (e.get("path"), e.get("m"))
        dim += ":" + what
    elif e.get("ev") in ("source", "code", "defs", "construct", "construct_failed"):
        dim = e.get("path") or "%s/%s" % (e.get("kind"), e.get("naming"))
        if e.get("ev") == "construct_failed":
            dim += ":" + e.get("exc", "")
    # the features to blame: those whose one-feature template fails in the same way (unit templates are classified first)
    key = clause + ":" + dim
    vec = tpl.get("vec", "default")
    if len(tpl["tags"]) == 1 and vec == "default":
        unit_fail.setdefault(tpl["tags"][0], set()).add(key)
    explained = [t for t in tpl["tags"] if key in unit_fail.get(t, ())]
    feats = explained or [t for t in tpl["tags"] if t in unit_fail] or tpl["tags"]
    sig = "trace:%s:%s" % (key, "+".join(sorted(feats)) if len(feats) <= 2 else "combo")
    # a failure that a one-feature template shows under the default options is that finding; otherwise the options matter
    return sig if explained or vec == "default" else sig + ":vec=" + vec


def validate(run, corpus, traces, name):
    verdicts = run.validate_traces("Trace_Paths", TRACE_CFG, traces, name=name, workers=4)
    return verdicts


def check(run):
    thorough = run.thorough
    dev = bool(os.environ.get("VERIF_DEV"))
    workers = 4 if dev else None
    nproc = 4 if dev else min(12, core.NCPU)

    # ------------------------------------------------------------------ 1. TLC: bounded instances of the history model
    acts = {}
    for name, srcs, mu, mf, maxobj, maxep, coll, depth in [
            ("mc-distinct", ["s3", "s4"], "MU_distinct", "MF_distinct", 3, 1, False, 5 if not thorough else 7),
            ("mc-distinct-1src", ["s3"], "MU_distinct", "MF_distinct", 4, 1, False, 6 if not thorough else 8)]:
        res = run.tlc("MC_Paths", mc_cfg(srcs, mu, mf, maxobj, maxep, coll, depth, ALL_INV), name=name, coverage=(name == "mc-distinct"), workers=workers, timeout=1500, heap="3g")
        if res.violated:
            run.spec_violation(res)
        for a, (dd, g) in res.coverage.items():
            acts[a] = acts.get(a, 0) + g
    for a in ("FromString", "FromFile", "ToModuleDir", "ReloadModuleFile", "WrapModule", "NewProcess", "Render", "Source", "Code", "Defs"):
        if not acts.get(a):
            raise MachineryError("vacuous model checking: action %s never taken (%s)" % (a, acts))
    run.extra["action_coverage"] = acts
    # with collisions / collection the property invariants that do not go through the registry still hold
    res = run.tlc("MC_Paths", mc_cfg(["s1", "s2", "s3"], "MU_mixed", "MF_mixed", 3, 1, True, 5 if not thorough else 6,
                                     ["PathIndependence", "DefsAgree", "ModuleFileReused", "RegistryWeak"], namings=("uri", "ruri1", "fn", "anon") if not thorough else ("uri", "uri2", "ruri1", "curi", "fn", "anon")), name="mc-mixed", workers=workers, timeout=1500, heap="3g")
    if res.violated:
        run.spec_violation(res)
    model_findings(run)

    # ------------------------------------------------------------------ 2. R: simulate -> replay on real objects
    nsim = 60 if not thorough else 500
    simdir = run.subdir("sim")
    cfg = mc_cfg(["s1", "s2", "s3"], "MU_mixed", "MF_mixed", 10, 100000, True, 100000, ["RegistryWeak"], namings=ALL_NAMINGS).replace("CONSTRAINT Bound\n", "")
    run.tlc("MC_Paths", cfg, name="sim", workers=1, simulate="file=%s/tr,num=%d" % (simdir, nsim), depth=24, timeout=900, count=False, heap="2g")
    files = sorted(os.listdir(simdir))
    if len(files) < nsim:
        raise MachineryError("simulate produced %d of %d behaviours" % (len(files), nsim))
    replayed = 0
    good = None
    for fnm in files:
        steps = [st for _, st in core.parse_simulate_file(os.path.join(simdir, fnm))]
        mm = replay(steps, run.subdir("rp-%d" % replayed))
        replayed += 1
        run.transitions += len(steps)
        if mm:
            run.violation("replay:%s:%s" % (mm["op"].get("op"), mm["op"].get("kind", mm["op"].get("m", ""))),
                          "real Template objects disagree with Paths.tla at step %d: expected %s, observed %s" % (mm["step"], mm["expected"], mm["observed"]),
                          {"history": [s["last"] for s in steps[: mm["step"] + 1]], "mismatch": mm, "uris": URIS})
            replayed -= 1
            break
        if good is None and any(s["last"].get("op") == "source" for s in steps):
            good = steps
    run.traces += replayed
    run.extra["behaviours_replayed"] = replayed
    if good:
        run.sample({"direction": "R", "history": [s["last"] for s in good[:10]]})
        # negative control: a corrupted expected value must be noticed by the replay comparer
        bad = copy.deepcopy(good)
        for s in bad:
            if s["last"].get("op") in ("source", "code", "render", "defs"):
                s["last"]["val"] = "s4" if s["last"]["val"] != "s4" else "s3"
                break
        run.negative_control(replay(bad, run.subdir("rp-neg")) is not None, "replay accepted a corrupted expected observation")
    elif replayed == len(files):
        raise MachineryError("no simulated behaviour contained a source query")

    # ------------------------------------------------------------------ 3. V: corpus on the eight paths x hash seeds
    corpus = make_corpus(run, 24 if not thorough else 500)
    seeds = choose_seeds(run)
    traces = record_corpus(run, corpus, nproc, seeds)
    by_id = {t["id"]: t for t in corpus}
    # negative controls: one corrupted digest, one deleted event
    ncs = []
    base = traces[0]
    bad = copy.deepcopy(base)
    bad["id"] = 10 ** 6 + 1
    k = max(i for i, e in enumerate(bad["events"]) if e["ev"] == "render" and e["key"] == "body|typed")
    bad["events"][k]["dig"] = "0" * 12
    ncs.append(bad)
    bad2 = copy.deepcopy(base)
    bad2["id"] = 10 ** 6 + 2
    k = min(i for i, e in enumerate(bad2["events"]) if e["ev"] == "construct" and e["kind"] == "moddir")
    del bad2["events"][k]
    ncs.append(bad2)
    bad3 = copy.deepcopy(base)
    bad3["id"] = 10 ** 6 + 3
    k = max(i for i, e in enumerate(bad3["events"]) if e["ev"] == "construct" and e["kind"] == "moddir")
    bad3["events"][k]["how"] = "compiled"
    ncs.append(bad3)
    verdicts = validate(run, corpus, traces + ncs, "trace")
    run.traces -= len(ncs)
    for nc in ncs:
        run.negative_control(not verdicts[nc["id"]]["ok"], "Trace_Paths accepted a corrupted trace (%d)" % nc["id"])
    unit_fail = {}
    sigs = {}
    nev = sum(len(tr["events"]) for tr in traces)
    pending = [(tr, verdicts[tr["id"]]) for tr in traces if not verdicts[tr["id"]]["ok"]]
    rounds = 0
    while pending:
        rounds += 1
        again = []
        pending.sort(key=lambda p: (by_id[p[0]["id"] % AUX].get("vec", "default") != "default", len(by_id[p[0]["id"] % AUX]["tags"]), by_id[p[0]["id"] % AUX]["inherit"], p[0]["id"]))
        for tr, v in pending:
            tpl = by_id[tr["id"] % AUX]
            i = v["i"]
            e = tr["events"][i - 1] if i else None
            sig = classify(tpl, tr, v, unit_fail)
            sigs[sig] = sigs.get(sig, 0) + 1
            related = [x for x in tr["events"] if e and x.get("ev") == e.get("ev") and x.get("key") == e.get("key")][:40]
            run.violation(sig, "template %s (features %s%s, options %s): event %d not accepted by Trace_Paths.tla (%s): %s"
                          % (tpl["marker"], tpl["tags"], ", inherits" if tpl["inherit"] else "", tpl.get("vec"), i, v["clause"], e),
                          {"template": tpl["text"], "encoding": tpl["encoding"], "context": CTX, "options": VECTORS[tpl.get("vec", "default")], "support": SUPPORT, "event": e, "verdict": v,
                           "same_key_events": related})
            # go on past the deviation: drop the events of that kind and validate the rest of the trace again
            if e and e.get("ev") in ("render", "source", "code", "defs") and rounds < 4:
                rest = [x for x in tr["events"] if not (x.get("ev") == e["ev"] and x.get("key") == e.get("key") and
                                                        (e["ev"] != "render" or v["clause"] != "PathIndependence" or x.get("m") == e.get("m") or sig.split(":")[2] == "seed"))]
                if len(rest) < len(tr["events"]):
                    again.append({"id": tr["id"], "textdig": tr["textdig"], "events": rest})
        if not again:
            break
        vv = validate(run, corpus, again, "trace-r%d" % rounds)
        run.traces -= len(again)
        pending = [(tr, vv[tr["id"]]) for tr in again if not vv[tr["id"]]["ok"]]
    run.extra["revalidation_rounds"] = rounds
    run.extra["trace_signatures"] = sigs
    run.transitions += nev
    run.extra["corpus"] = len(corpus)
    run.extra["events_validated"] = nev
    run.extra["hash_seeds"] = seeds
    run.sample({"direction": "V", "template": corpus[0]["text"], "events": traces[0]["events"][:8]})
    run.assumptions += [
        "in replayed histories (R) a new process is modelled inside one process by dropping every object and collecting; real fresh "
        "processes (one per PYTHONHASHSEED value, sharing the module directory) are used for the corpus (V)",
        "Meaning(text, context) is uninterpreted: the first render of a (template, context/def key) in a trace fixes the digest",
        "mako-render passes --var values as strings, so its reference is the render with the string-valued context",
        "the reference for get_def(name).render(args) is the same call made inside the template body (delimited segment of the body output)",
        "sources are immutable within a history (modification over time is C14/C15)",
    ]
    return {"rule": "TLC exhaustive on bounded Paths.tla instances (counterexamples of the code-shaped registry model replayed on the real "
                    "code); -simulate histories replayed action by action on real Template/ModuleTemplate objects; a seeded corpus realised "
                    "on the eight paths in fresh processes under PYTHONHASHSEED 0/1/2/7 and validated against Trace_Paths.tla. A case is one "
                    "history (R) or one template x all paths x all seeds (V).",
            "exhaustive": False}


if __name__ == "__main__":
    if len(sys.argv) >= 4 and sys.argv[1] == "child":
        sys.exit(child_main(sys.argv[2:]))
    sys.exit(2)
