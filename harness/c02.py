"""C02 -- expression substitution applies the filter pipeline in the documented order; the ${ }
scanner is not cut short by |, }, quotes, comments, newlines inside brackets or strings.

Specification: spec/Filters.tla (create_filter_callable as a machine of filter applications, the
property PipelineOrder / NameTable), spec/MC_Filters.tla (all D x P x E x BF x construct
configurations), spec/Trace_Filters.tla (observed applications), spec/MC_ExprScan.tla (ScanSplit
over grammar-generated nestings, on the ExprScan of spec/MakoLexer.tla).

 1. TLC checks PipelineOrder, NameTable, Monotone on every configuration and prints the expected
    application sequence of each; checks ScanSplit on every generated nesting and prints the split.
 2. R: every configuration becomes a real template (user filters = tagging callables, builtin flags
    on an input on which they do not commute, D/P names at module level through imports=, E names
    through the context); the rendered output must equal the input pushed through independent
    reference implementations of the documented functions IN THE ORDER TLC PRINTED.  Every scanner
    case is lexed by the real Lexer (Expression text / escapes) and rendered.
 3. V: seeded random configurations (0-4 filters of any kind) are rendered with LOGGING callables
    (user filters, interposed mako.filters functions, a module-level `str`); the observed
    application sequences are validated in batch by Trace_Filters.tla.
"""
import hashlib
import html.entities
import json
import multiprocessing
import os
import random
import warnings
import sys
import types
import urllib.parse

from . import core
from . import c01
from .core import MachineryError

RAW = " <a&b'\"é> "
BODY = RAW
ABSENT = ["$absent"]


class Val(str):
    """The value of the expression: a str subclass, so that every builtin accepts it, but a tagging
    filter can tell whether `str` has already been applied to it."""

    def __str__(self):
        return str.__str__(self) + ""

    def __repr__(self):
        return "Val()"


def tagger(name, log=None):
    def f(s):
        if log is not None:
            log.append(name)
        if type(s) is not Val and s == "":
            return s            # the '' a def returns to the ${f()} / <%call> that called it: nothing was written, nothing to tag
        if type(s) is Val:
            return str.__str__(s) + "?<" + name + ">"
        return "%s<%s>" % (s, name)
    f.__name__ = "tag_" + name
    return f


# Filter calls with arguments: abstract token (as in MC_Filters.CallToks) -> the literal spelling.  Single quotes only, so that
# the same spelling can stand in ${x | ...}, in filter="..." and in expression_filter="...".
CALL_SRC = {
    "k(int)": "k(7)", "k(name)": "k(nm)", "k(sp1)": "k(' ')", "k(sp2)": "k('  x   y')", "k(tab)": "k('a\tb')",
    "k(nbsp)": "k('a\xa0b')", "k(tq)": "k(\'\'\'l1\n  l2\'\'\')", "k(punct)": "k(', | } ) # ')", "k(kw)": "k(sep='  ')",
    "k(nested)": "k(inner('  '))", "k(list)": "k([1, ' \t '])", "k(dict)": "k({'a': '  '})", "k(two)": "k('  ', 7)",
}


def _inner(x):
    return x + "!"


def _cap(*a, **kw):
    return repr((a, sorted(kw.items())))


# the exact argument values each spelling denotes (CPython evaluates the literal), for the recording callable
CALL_REV = {eval("_cap" + src[1:], {"_cap": _cap, "nm": "NM", "inner": _inner}): tok for tok, src in CALL_SRC.items()}


def make_k(log=None):
    """k(args...) -> a tagging filter named after the argument token whose EXACT values it received."""
    def k(*a, **kw):
        key = _cap(*a, **kw)
        return tagger(CALL_REV.get(key, "k(?%s)" % key), log)
    return k


def tok_src(t):
    return CALL_SRC.get(t, t)


def make_g(log=None):
    def g(n):
        return tagger("g(%s)" % (n,), log)
    return g


# ---- independent reference implementations of the documented functions (doc/build/filtering.rst)
def ref_xml(s):
    return "".join({"&": "&amp;", "<": "&lt;", ">": "&gt;", '"': "&#34;", "'": "&#39;"}.get(c, c) for c in s)


def ref_entity(s):
    out = []
    for c in str(s):
        if ord(c) in html.entities.codepoint2name:
            out.append("&%s;" % html.entities.codepoint2name[ord(c)])
        elif ord(c) > 127:
            out.append("&#x%X;" % ord(c))
        else:
            out.append(c)
    return "".join(out)


def ref_html(s):
    import markupsafe          # documented: "provided by markupsafe.escape"
    return markupsafe.escape(s)


def reference(name):
    if name == "html_escape":
        return ref_html
    if name == "xml_escape":
        return ref_xml
    if name == "url_escape":
        return lambda s: urllib.parse.quote_plus(s.encode("utf-8"))
    if name == "trim":
        return lambda s: s.strip()
    if name == "html_entities_escape":
        return ref_entity
    if name == "str":
        return str
    if name == "repr":
        return repr                # a Python builtin used as a filter: "the callable of that name visible to the template"
    if name.startswith("decode."):
        return lambda x: x if isinstance(x, str) else (x.decode(name[7:]) if isinstance(x, bytes) else str(x))
    return tagger(name)


def apply_reference(apps, value):
    v = value
    for a in apps:
        v = reference(a)(v)
    return v


# ---- concretisation of a configuration
def install_module(log=None):
    m = types.ModuleType("c02_filters")
    for nm in ("d1", "d2", "p1", "p2", "b1"):
        setattr(m, nm, tagger(nm, log))
    m.k, m.nm, m.inner = make_k(log), "NM", _inner        # for calls written in <%page expression_filter>
    sys.modules["c02_filters"] = m
    return m


def session(c, D, P, E, BF):
    """A session (Filters.cfg) with one construct."""
    return {"D": D, "P": P, "BF": BF, "items": [{"c": c, "E": E, "s": "body"}], "items2": []}


def item_text(it, k, variant=0):
    """Template text of the k-th construct (names of defs are made unique by k)."""
    c, E = it["c"], it["E"]
    sep = [", ", ",", " ,  "][variant % 3]
    fl = sep.join(tok_src(t) for t in E)
    flt = (' filter="%s"' % fl) if fl else ""
    fn = "fn%d" % k
    if c == "expr":
        pad = ["", " ", "\n"][variant % 3] if fl else ""
        body = "${v%s}" % ((" |" + pad + fl + pad) if fl else "")
    elif c == "def":
        body = '<%%def name="%s()"%s>%s</%%def><%% %s() %%>' % (fn, flt, BODY, fn)
    elif c == "cacheddef":
        body = '<%%def name="%s()" cached="True"%s>%s</%%def><%% %s() %%>' % (fn, flt, BODY, fn)
    elif c == "block":
        body = '<%%block%s>%s</%%block>' % (flt, BODY)
    elif c == "text":
        body = '<%%text%s>%s</%%text>' % (flt, BODY)
    elif c == "bufdef":
        body = '<%%def name="%s()" buffered="True"%s>%s</%%def>${%s()}' % (fn, flt, BODY, fn)
    elif c == "cachedbufdef":
        body = '<%%def name="%s()" buffered="True" cached="True"%s>%s</%%def>${%s()}' % (fn, flt, BODY, fn)
    else:
        raise MachineryError("unknown construct %r" % c)
    return at_site(it.get("s", "body"), "[" + body + "]", k)


def at_site(site, x, k):
    """The construct's text x placed at a site of the template (Filters.tla: item.s).  None of the wrappers writes anything itself."""
    if site == "body":
        return x
    if site == "topdef":
        return '<%%def name="sd%d()">%s</%%def><%% sd%d() %%>' % (k, x, k)
    if site == "nesteddef":
        return '<%%def name="od%d()"><%%def name="sd%d()">%s</%%def><%% sd%d() %%></%%def><%% od%d() %%>' % (k, k, x, k, k)
    if site == "namedblock":
        return '<%%block name="nb%d">%s</%%block>' % (k, x)
    if site == "blockinblock":
        return '<%%block name="ob%d"><%%block name="nb%d">%s</%%block></%%block>' % (k, k, x)
    if site == "anonblock":
        return '<%%block>%s</%%block>' % x
    if site == "callbody":
        return '<%%def name="wd%d()"><%% caller.body() %%></%%def><%%call expr="wd%d()">%s</%%call>' % (k, k, x)
    if site == "nsdef":
        return '<%%namespace name="ns%d"><%%def name="sd%d()">%s</%%def></%%namespace><%% ns%d.sd%d() %%>' % (k, k, x, k, k)
    if site in ("inherited", "include"):
        return x                       # the surrounding templates are built by template_texts
    raise MachineryError("unknown site %r" % site)


def template_texts(cfg, variant=0):
    """The one or two templates of a session.  Anonymous blocks are named after their line: one construct per line."""
    sep = [", ", ",", " ,  "][variant % 3]
    page = "" if cfg["P"] == ABSENT else '<%%page expression_filter="%s"/>' % sep.join(tok_src(t) for t in cfg["P"])
    nl = "" if len(cfg["items"]) == 1 else "\n"
    t1 = page + nl.join(item_text(it, k + 1, variant) for k, it in enumerate(cfg["items"]))
    t2 = None
    if cfg["items2"]:
        t2 = "\n".join(item_text(it, k + 1, variant) for k, it in enumerate(cfg["items2"]))
    return t1, t2


def site_templates(cfg, variant=0):
    """(main template, {uri: other templates of the lookup}) for the two sites that need a second template: a block overridden
    in an INHERITING template (the construct and the page tag are the child's, the parent renders it) and an INCLUDED
    template (construct and page tag are the included template's)."""
    site = cfg["items"][0].get("s", "body") if len(cfg["items"]) == 1 and not cfg["items2"] else "body"
    t1, _ = template_texts(cfg, variant)
    if site == "inherited":
        sep = [", ", ",", " ,  "][variant % 3]
        page = "" if cfg["P"] == ABSENT else '<%%page expression_filter="%s"/>' % sep.join(tok_src(t) for t in cfg["P"])
        x = item_text(cfg["items"][0], 1, variant)
        return '<%inherit file="base1"/>' + page + '<%block name="nb1">' + x + '</%block>', {"base1": '<%block name="nb1">base</%block>'}
    if site == "include":
        return '<%include file="inc1"/>', {"inc1": t1}
    return t1, {}


def template_text(cfg, variant=0):
    t1, t2 = template_texts(cfg, variant)
    main, extras = site_templates(cfg, variant)
    if extras:
        return main + "".join("  ++  %s: %s" % kv for kv in sorted(extras.items()))
    return t1 if t2 is None else t1 + "  ++  " + t2


IMPORTS = ["from c02_filters import d1, d2, p1, p2, b1, k, nm, inner"]


def input_value(kind):
    """The value of `v`: a str (Val), or -- when the first filter applied is decode.<enc> -- bytes in that encoding."""
    return Val(RAW) if kind == "str" else RAW.encode(kind)


def input_kind(cfg, apps, variant):
    it = cfg["items"][0]
    if it["c"] == "expr" and len(cfg["items"]) == 1 and not cfg["items2"] and apps and apps[0] and apps[0][0].startswith("decode.") \
            and variant % 2 == 1:
        return apps[0][0][7:]
    return "str"


def render_config(cfg, variant=0, log=None, kind="str"):
    """('ok', output(s), template text) | ('mutated', what, text) | ('exc', Type, msg, text).
    The default_filters / buffer_filters list OBJECTS are created once per session and shared by everything compiled in
    it -- by both templates directly, or through one TemplateLookup -- and their content is looked at afterwards."""
    from mako.lookup import TemplateLookup
    from mako.template import Template
    install_module(log)
    dlist = None if cfg["D"] == ABSENT else list(cfg["D"])
    blist = list(cfg["BF"])
    kw = {"imports": IMPORTS, "buffer_filters": blist}
    if dlist is not None:
        kw["default_filters"] = dlist
    t1, t2 = template_texts(cfg, variant)
    text = template_text(cfg, variant)
    main, extras = site_templates(cfg, variant)
    try:
        if extras:
            lk = TemplateLookup(**kw)
            for u, t in sorted(extras.items()):
                lk.put_string(u, t)
            lk.put_string("t1", main)
            tmpls = [lk.get_template("t1")]
        elif (variant // 3) % 2 == 0 or log is not None:
            tmpls = [Template(t, **kw) for t in (t1, t2) if t is not None]
        else:
            lk = TemplateLookup(**kw)
            lk.put_string("t1", t1)
            if t2 is not None:
                lk.put_string("t2", t2)
            tmpls = [lk.get_template(u) for u in (("t1", "t2") if t2 is not None else ("t1",))]
        if log is not None:
            _interpose(tmpls[0], log)
        ctx = {"v": input_value(kind), "f1": tagger("f1", log), "f2": tagger("f2", log), "g": make_g(log),
               "k": make_k(log), "nm": "NM", "inner": _inner, "max": tagger("max", log)}
        try:
            out = "\n--\n".join(t.render_unicode(**ctx) for t in tmpls)
        finally:
            if log is not None:
                _restore()
        if dlist is not None and dlist != list(cfg["D"]):
            return ("mutated", "default_filters is now %r" % (dlist,), text)
        if dlist is None and any(t.default_filters != ["str"] for t in tmpls):
            return ("mutated", "Template.default_filters is now %r" % ([t.default_filters for t in tmpls],), text)
        if blist != list(cfg["BF"]):
            return ("mutated", "buffer_filters is now %r" % (blist,), text)
        return ("ok", out, text)
    except Exception as e:
        return ("exc", type(e).__name__, str(e)[:160], text)


_saved = {}


def _interpose(t, log):
    """Log every call of a builtin filter function: mako.filters.* are looked up at call time by the
    generated module (`filters.html_escape(...)`), `str` is a global of the module."""
    import mako.filters as mf

    def wrap(name, fn):
        def w(x, *a, **k):
            log.append(name)
            return fn(x, *a, **k)
        return w
    for nm in ("html_escape", "xml_escape", "url_escape", "trim", "html_entities_escape"):
        _saved[nm] = getattr(mf, nm)
        setattr(mf, nm, wrap(nm, _saved[nm]))
    _saved["decode"] = mf.decode
    orig = mf.decode

    class D:
        def __getattr__(self, key):
            return wrap("decode." + key, getattr(orig, key))
    mf.decode = D()
    t.module.__dict__["str"] = wrap("str", str)


def _restore():
    import mako.filters as mf
    for nm, fn in _saved.items():
        setattr(mf, nm, fn)
    _saved.clear()


def expected_output(cfg, apps, kind="str"):
    """apps: one application sequence per construct (items of template 1, then of template 2)."""
    n1 = len(cfg["items"])
    res = []
    for part, aa in ((cfg["items"], apps[:n1]), (cfg["items2"], apps[n1:])):
        if not part:
            continue
        pieces = ["[" + str(apply_reference(a, input_value(kind) if it["c"] == "expr" else BODY)) + "]" for it, a in zip(part, aa)]
        res.append(("" if len(part) == 1 and part is cfg["items"] else "\n").join(pieces))
    return "\n--\n".join(res)


def check_config(job):
    cfg, apps, variant = job
    kind = input_kind(cfg, apps, variant)
    exp = expected_output(cfg, apps, kind)
    obs = render_config(cfg, variant, kind=kind)
    if obs[0] == "ok" and obs[1] == exp:
        return None
    return {"cfg": cfg, "template": obs[-1], "expected_applications": apps, "expected_output": exp, "observed": obs[:-1]}


def pipeline_signature(cfg, apps, obs):
    """construct(s) : which filter sources are involved : failure mode"""
    items = cfg["items"] + cfg["items2"]
    cs = [it["c"] for it in items]
    src = []
    if any(c in ("expr", "bufdef", "cachedbufdef") for c in cs):
        if cfg["D"] != ABSENT and cfg["D"]:
            src.append("D")
        if cfg["P"] != ABSENT:
            src.append("P+n" if "n" in cfg["P"] else "P")
    if any(it["E"] for it in items):
        src.append("E+n" if any("n" in it["E"] for it in items) else "E")
    if cfg["BF"] and any(c in ("bufdef", "cachedbufdef") for c in cs):
        src.append("BF")
    mode = {"ok": "output-differs", "mutated": "configuration-object-mutated"}.get(obs[0]) or "raises-" + obs[1]
    what = cs[0] if len(cs) == 1 else ("sequence+second-template" if cfg["items2"] else "sequence")
    sites = sorted(set(it.get("s", "body") for it in items) - {"body"})
    if sites:
        what += "@" + "+".join(sites)
    return "pipeline:%s:%s:%s" % (what, "+".join(src) or "none", mode)


def _pool_map(fn, jobs, procs):
    if procs <= 1 or len(jobs) < 500:
        return [fn(j) for j in jobs]
    ctx = multiprocessing.get_context("fork")
    with ctx.Pool(procs) as pool:
        return pool.map(fn, jobs, chunksize=max(20, len(jobs) // (procs * 8)))


# ----------------------------------------------------------------------------- ScanSplit cases
class CI(int):
    """context value of a filler name: an int that can also be called"""

    def __call__(self, *a):
        return "call(%s)" % ",".join(str(x) for x in a)


def scan_ctx():
    ctx = {}
    for i, nm in enumerate(c01.W_POOL + c01.U_POOL):
        ctx[nm] = CI(2 + i)
    ctx["g"] = lambda a: tagger("g(..)")
    return ctx


def check_scan_case(job):
    syms, alts, seed, table = job
    warnings.simplefilter("ignore")
    rng = random.Random(seed)
    m = c01.conc_map(rng, syms)
    text = c01.cat(m, syms)
    off = c01.offsets(m, syms)
    calts = [c01.concretise_alt(a, m, syms, text, off) for a in alts]
    real = c01.run_lexer(text)
    if not any(c01.lexer_agrees(c, real, text.count("\n")) for c in calts):
        return {"sig": "scan:%s" % ("split-differs" if real[0] == "ok" else ("rejected" if real[0] == "mako" else "raises-" + real[1])),
                "text": text, "syms": syms, "expected": calts, "observed": real}
    alt = alts[0]
    node = [n for n in alt["n"] if n["k"] == "expr"][0]
    ctx = scan_ctx()
    src = c01.cat(m, node["b"]).strip()
    try:
        value = eval(compile(src, "<judge>", "eval"), {"__builtins__": {}}, dict(ctx))
        exp = None
    except Exception as e:
        exp = ("exc", type(e).__name__)
    if exp is None:
        apps = table[" ".join(alt["fl"])]
        exp = ("ok", m["w"] + str(apply_reference(apps, value)) + m["w"])
    obs = c01.run_render(text, ctx)
    good = (exp[0] == "ok" and obs[0] == "ok" and obs[1] == exp[1]) or (exp[0] == "exc" and obs[0] == "exc" and obs[1] == exp[1])
    if not good:
        return {"sig": "scan:render-%s" % ("output-differs" if obs[0] == "ok" else "raises-" + obs[1]), "text": text, "syms": syms,
                "expected": exp, "observed": obs}
    return None


# ----------------------------------------------------------------------------- V: observed applications
E_TOKENS = ["h", "x", "u", "trim", "entity", "str", "unicode", "n", "f1", "f2", "g(1)", "decode.utf8", "decode.latin1",
            "k(sp2)", "k(tab)", "k(tq)", "k(kw)", "k(two)", "max"]


def random_config(rng):
    c = rng.choice(["expr", "expr", "expr", "def", "block", "text", "bufdef", "cachedbufdef", "cacheddef"])
    D = rng.choice([ABSENT, [], None, None])
    if D is None:
        D = [rng.choice(["str", "d1", "d2", "h", "trim", "decode.utf8"]) for _ in range(rng.randint(1, 3))]
    P = rng.choice([ABSENT, None, None])
    if P is None:
        P = [rng.choice(["p1", "p2", "n", "h", "x", "trim"]) for _ in range(rng.randint(1, 3))]
    E = [rng.choice(E_TOKENS) for _ in range(rng.randint(0, 4))]
    BF = [rng.choice(["b1", "trim", "n"]) for _ in range(rng.randint(0, 2))]
    return session(c, D, P, E, BF)


TRACE_CFG = "SPECIFICATION TSpec\nCHECK_DEADLOCK FALSE\n"


def validate_observed(run, n, workers):
    traces = []
    failed = []
    for i in range(n):
        rng = random.Random("%d/c02/%d" % (run.seed, i))
        cfg = random_config(rng)
        log = []
        obs = render_config(cfg, rng.randint(0, 2), log)
        if obs[0] != "ok":
            failed.append((cfg, obs))
            continue
        traces.append({"id": len(traces) + 1, "cfg": cfg, "apps": log, "template": obs[-1], "c": cfg["items"][0]["c"]})
    for cfg, obs in failed[:5]:
        run.violation(pipeline_signature(cfg, [], obs), "random configuration %s: rendering raises %s" % (cfg, obs[:-1]),
                      {"cfg": cfg, "template": obs[-1], "observed": obs[:-1]})
    if not traces:
        raise MachineryError("no random configuration rendered")
    # negative controls: corrupted copies of recorded sequences.  Only a recording that Trace_Filters ACCEPTS can serve as the
    # base of a control (under a changed Mako a rejected recording, once "corrupted", may happen to be the right sequence),
    # so controls are prepared for several candidates and evaluated for the first accepted one.
    ncs = []
    cands = [t for t in traces if len(t["apps"]) >= 3 and t["apps"][0] != t["apps"][1]][:6]
    nid = len(traces)
    for base in cands:
        for kind in ("swapped", "dropped", "extra"):
            c = json.loads(json.dumps(base))
            nid += 1
            c["id"] = nid
            if kind == "swapped":
                c["apps"][0], c["apps"][1] = c["apps"][1], c["apps"][0]
            elif kind == "dropped":
                c["apps"] = c["apps"][:-1]
            else:
                c["apps"] = c["apps"] + ["str"]
            ncs.append((kind, c, base["id"]))
    verdicts = run.validate_traces("Trace_Filters", TRACE_CFG, traces + [x for _, x, _ in ncs], name="trace-filters", workers=workers)
    good = [b["id"] for b in cands if verdicts[b["id"]]["ok"]]
    if good:
        for kind, x, bid in ncs:
            if bid == good[0]:
                run.negative_control(not verdicts[x["id"]]["ok"], "Trace_Filters accepted a corrupted application sequence (%s)" % kind)
    elif all(verdicts[t["id"]]["ok"] for t in traces):
        raise MachineryError("no recorded application sequence is long enough for a negative control")
    run.traces -= len(ncs)
    bad = 0
    for t in traces:
        v = verdicts[t["id"]]
        if not v["ok"]:
            bad += 1
            run.violation("observed:%s:%s" % (t["c"], v["clause"]),
                          "%s: observed applications %s rejected by Trace_Filters at application %s (%s)" % (t["template"], t["apps"], v["i"], v["clause"]),
                          {"trace": t, "verdict": v})
    return len(traces), bad


# ----------------------------------------------------------------------------- the check
def check(run):
    import mako
    run.extra["mako_file"] = mako.__file__
    thorough = run.thorough
    workers = int(os.environ.get("VERIF_WORKERS", "0")) or (min(8, core.NCPU) if not thorough else core.NCPU)
    procs = min(workers, 8)
    stats = {}

    # (i) the pipeline: all configurations
    cfg_text = "CONSTANT Deep = %s\nSPECIFICATION MCSpec\nINVARIANT PrintTerminal PipelineOrder SiteIndependent NameTable ConfigImmutable\nPROPERTY Monotone\nCHECK_DEADLOCK FALSE\n" % ("TRUE" if thorough else "FALSE")
    res = run.tlc("MC_Filters", cfg_text, name="mc-filters", coverage=True, workers=workers, timeout=1500)
    if res.violated:
        run.spec_violation(res)
        raise MachineryError("Filters model violates %s" % res.violated)
    for a in ("PrependPage", "PrependDefaults", "ApplyOne", "NextStage"):
        if res.coverage.get(a, [0, 0])[1] == 0:
            raise MachineryError("vacuous: action %s never taken" % a)
    run.extra["action_coverage"] = {a: res.coverage[a][1] for a in ("PrependPage", "PrependDefaults", "ApplyOne", "NextStage")}
    table = {}
    for rec in res.json_lines():
        if isinstance(rec, dict) and "cfg" in rec:
            table[json.dumps(rec["cfg"], sort_keys=True)] = (rec["cfg"], rec["apps"])
    # witnesses (against vacuity of the n rules), read off TLC's table
    one = [(c, c["items"][0], a[0]) for c, a in table.values() if len(c["items"]) == 1 and not c["items2"]]
    if not any(it["c"] == "expr" and "n" in it["E"] and a for c, it, a in one):
        raise MachineryError("vacuous: no configuration with a local n and remaining filters")
    if not any(it["c"] == "expr" and c["P"] != ABSENT and "n" in c["P"] and "n" not in it["E"] and len(a) > 1 for c, it, a in one):
        raise MachineryError("vacuous: no configuration with n in the page filter")
    if not any(len(c["items"]) >= 3 and c["items2"] and c["P"] != ABSENT and "n" not in c["P"] for c, a in table.values()):
        raise MachineryError("vacuous: no session with three constructs, a page filter and a second template")
    jobs = []
    for key in sorted(table):
        cfg, apps = table[key]
        h = int(hashlib.sha1(("%d|%s" % (run.seed, key)).encode()).hexdigest()[:6], 16)
        jobs.append((cfg, apps, h))
    results = _pool_map(check_config, jobs, procs)
    bad = 0
    for (cfg, apps, _), r in zip(jobs, results):
        if r is not None:
            bad += 1
            run.violation(pipeline_signature(cfg, apps, r["observed"]),
                          "%s: expected applications %s -> %r, observed %r" % (r["template"], apps, r["expected_output"], r["observed"]), r)
    run.traces += len(jobs)
    stats["configurations"] = {"rendered": len(jobs), "disagreements": bad, "states": res.distinct}
    for j in jobs[:: max(1, len(jobs) // 4)][:4]:
        run.sample({"cfg": j[0], "expected_applications": j[1], "template": template_text(j[0], j[2])})

    # negative controls of the comparer
    nc = 0
    for (cfg, apps, h), r0 in zip(jobs, results):
        if r0 is not None:
            continue                   # only a configuration on which code and model agree can serve as a control
        a = apps[-1]                   # the LAST construct of the session (the k-th, or the second template's)
        if (cfg["items"] + cfg["items2"])[-1]["c"] == "expr" and len(a) >= 2 and a[0] != a[1] and set(a) & {"f1", "f2", "d1", "p1"}:
            sw = apps[:-1] + [[a[1], a[0]] + a[2:]]
            dr = apps[:-1] + [a[:-1]]
            if expected_output(cfg, sw) == expected_output(cfg, apps) or expected_output(cfg, dr) == expected_output(cfg, apps):
                continue
            run.negative_control(check_config((cfg, sw, h)) is not None, "comparer accepted swapped applications for %s" % cfg)
            run.negative_control(check_config((cfg, dr, h)) is not None, "comparer accepted a dropped application for %s" % cfg)
            nc += 1
            if nc >= 8:
                break
    if nc == 0 and bad == 0:
        raise MachineryError("no negative control could be built")

    # (ii) ScanSplit
    # Depth 3 with Rich spellings no longer finishes in a useful time since the lexer alphabet grew (the initial states are
    # enumerated by one thread): the thorough tier adds the Rich spellings at depth 2 (372k states, ~8 min)
    depth = 2
    sres = run.tlc("MC_ExprScan", "CONSTANTS Depth = %d\n Rich = %s\nSPECIFICATION MCSpec\nINVARIANT PrintTerminal ScanSplit Accounting\nCHECK_DEADLOCK FALSE\n"
                   % (depth, "TRUE" if thorough else "FALSE"), name="mc-exprscan", coverage=False, workers=workers, timeout=1500)
    if sres.violated:
        run.spec_violation(sres)
        raise MachineryError("ExprScan model violates %s" % sres.violated)
    # application order of the filter lists used in the scanner cases, from the Filters table
    ftab = {}
    for fl in ([], ["h"], ["trim", "h"], ["h", "trim"], ["g(..)"]):
        E = ["g(1)" if x == "g(..)" else x for x in fl]
        key = json.dumps(session("expr", ABSENT, ABSENT, E, []), sort_keys=True)
        if key not in table:
            raise MachineryError("Filters table lacks configuration %s" % key)
        ftab[" ".join(fl)] = ["g(..)" if x == "g(1)" else x for x in table[key][1][0]]
    by = {}
    for rec in sres.json_lines():
        if isinstance(rec, dict) and "t" in rec:
            by.setdefault(tuple(rec["t"]), [])
            if rec not in by[tuple(rec["t"])]:
                by[tuple(rec["t"])].append(rec)
    if not by or not all(any(n["k"] == "expr" for n in a["n"]) for alts in by.values() for a in alts):
        raise MachineryError("vacuous: a scanner case without Expression node")
    sjobs = []
    for key in sorted(by):
        h = int(hashlib.sha1(("%d|scan|%s" % (run.seed, " ".join(key))).encode()).hexdigest()[:8], 16)
        sjobs.append((list(key), by[key], h, ftab))
    sresults = _pool_map(check_scan_case, sjobs, procs)
    sbad = 0
    for j, r in zip(sjobs, sresults):
        if r is not None:
            sbad += 1
            run.violation(r["sig"], "%r: expected %s; observed %s" % (r["text"], c01._short(r["expected"]), c01._short(r["observed"])), r)
    run.traces += len(sjobs)
    stats["scanner cases"] = {"cases": len(sjobs), "disagreements": sbad, "states": sres.distinct, "depth": depth}
    if sjobs:
        k = sjobs[len(sjobs) // 2]
        run.sample({"scanner_case": " ".join(k[0]), "expected": k[1]})
        # negative control: a split one symbol short must be rejected
        for k, r0 in zip(sjobs, sresults):
            if r0 is not None:
                continue
            alts = json.loads(json.dumps(k[1]))
            nd = [n for n in alts[0]["n"] if n["k"] == "expr"][0]
            if len(nd["b"]) > 2:
                nd["b"] = nd["b"][:-1]
                run.negative_control(check_scan_case((k[0], alts, k[2], ftab)) is not None, "scanner comparer accepted a shortened expression text")
                break

    # (iii) observed applications of random configurations
    n, vbad = validate_observed(run, 1500 if thorough else 300, workers)
    stats["random configurations (observed applications)"] = {"validated": n, "rejected": vbad}
    run.extra["parts"] = stats
    sigs = {}
    for v in run.violations:
        sigs[v["signature"]] = sigs.get(v["signature"], 0) + 1
    run.extra["violation_signatures"] = sigs
    run.assumptions.append("filters are observed through their effect on one input on which the builtins do not commute, and through logging wrappers")
    run.assumptions.append("names in default_filters / expression_filter / buffer_filters are module-level (imports=), names in ${x | f} come from the context")
    return {"rule": "TLC checks PipelineOrder/NameTable on all D x P x E x BF x construct configurations and ScanSplit on grammar-generated "
                    "nestings, prints expected application sequences / splits; each is rendered by the real Mako and compared; observed "
                    "application sequences of random configurations are validated by Trace_Filters", "exhaustive": True}
