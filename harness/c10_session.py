"""Runs sessions of C10 operations, each session in a fresh process of its own (direction R of
spec/Session_Escape.tla).

Started by harness/c10.py as `python -m harness.c10_session` with the sessions as JSON on stdin.
This process only IMPORTS mako (no operation is ever executed in it); every session runs in a child
forked from it, so each starts from the pristine process-global state, and all operations of one
session share that child.  Results go back as JSON: {"s": text} | {"b": hex of bytes} | {"x": type}.
"""
import json
import os
import sys


class Obj:
    def __init__(self, s):
        self.s = s

    def __str__(self):
        return self.s


def run_op(op, via_lookup):
    from mako import filters
    from mako.lookup import TemplateLookup
    from mako.template import Template
    s = op["text"]
    k = op["k"]
    if k == "render":
        if via_lookup:
            lk = TemplateLookup(output_encoding=op["a"], encoding_errors=op["b"])
            lk.put_string("t", "${x}")
            return lk.get_template("t").render(x=s)
        return Template("${x}", output_encoding=op["a"], encoding_errors=op["b"]).render(x=s)
    if k == "encode":
        return s.encode(op["a"], op["b"])
    f = op["a"]
    if f == "h":
        return str.__str__(filters.html_escape(s))
    if f == "x":
        return filters.xml_escape(s)
    if f == "u":
        return filters.url_escape(s)
    if f == "entity":
        return filters.html_entities_escape(s)
    if f == "unescape":
        return filters.html_entities_unescape(s)
    if f == "trim":
        return filters.trim(s)
    if f == "decode":
        return filters.decode.utf8(s.encode("utf-8"))
    raise ValueError(f)


def observe(op, via_lookup):
    try:
        r = run_op(op, via_lookup)
    except Exception as ex:  # noqa -- an observation
        return {"x": type(ex).__name__}
    if isinstance(r, bytes):
        return {"b": r.hex()}
    if isinstance(r, str):
        return {"s": r}
    return {"x": "type:" + type(r).__name__}


def main():
    import mako.filters  # noqa: F401 -- import only
    import mako.lookup  # noqa: F401
    import mako.template  # noqa: F401
    import mako.util  # noqa: F401
    sessions = json.load(sys.stdin)
    out = []
    for sess in sessions:
        r, w = os.pipe()
        pid = os.fork()
        if pid == 0:
            code = 0
            try:
                os.close(r)
                res = [observe(op, (sess["id"] + i) % 2 == 1) for i, op in enumerate(sess["ops"])]
                os.write(w, json.dumps(res).encode("ascii"))
            except BaseException:
                code = 1
            finally:
                os._exit(code)
        os.close(w)
        data = b""
        while True:
            chunk = os.read(r, 65536)
            if not chunk:
                break
            data += chunk
        os.close(r)
        os.waitpid(pid, 0)
        out.append({"id": sess["id"], "res": json.loads(data) if data else None})
    json.dump({"mako": mako.util.__file__, "out": out}, sys.stdout)


if __name__ == "__main__":
    main()
