"""Runs sessions of C10 operations, each session in a fresh process of its own (direction R of
spec/Session_Escape.tla).

Started by harness/c10.py as `python -m harness.c10_session` with the sessions as JSON on stdin.
This process only IMPORTS mako (no operation is ever executed in it); every session runs in a child
forked from it, so each starts from the pristine process-global state, and all operations of one
session share that child.  Results go back as JSON: {"s": text} | {"b": hex of bytes} | {"x": type}.
"""
import json
import os
import sys


class Obj:
    def __init__(self, s):
        self.s = s

    def __str__(self):
        return self.s


ROUTES = ["render", "unicode_encode", "context_bytes", "context_str", "def", "def_args", "def_unicode", "lookup_def",
          "module", "include", "inherit", "namespace", "lookup_kw", "file", "file_moddir"]
T_DEF = '<%def name="d()">${x}</%def><%def name="e(y)">${y}</%def>never rendered'
TMP = {"dir": None, "n": 0}


def render_route(route, cs, mode, s):
    """The text s rendered to bytes with output_encoding=cs, encoding_errors=mode through one entry point."""
    from mako import util
    from mako.lookup import TemplateLookup
    from mako.runtime import Context
    from mako.template import ModuleTemplate, Template
    kw = dict(output_encoding=cs, encoding_errors=mode)
    if route == "render":
        return Template("${x}", **kw).render(x=s)
    if route == "unicode_encode":
        return Template("${x}", **kw).render_unicode(x=s).encode(cs, mode)
    if route == "context_bytes":
        buf = util.FastEncodingBuffer(encoding=cs, errors=mode)
        Template("${x}", **kw).render_context(Context(buf, x=s))
        return buf.getvalue()
    if route == "context_str":
        buf = util.FastEncodingBuffer()
        Template("${x}", **kw).render_context(Context(buf, x=s))
        return buf.getvalue().encode(cs, mode)
    if route == "def":
        return Template(T_DEF, **kw).get_def("d").render(x=s)
    if route == "def_args":
        return Template(T_DEF, **kw).get_def("e").render(s)
    if route == "def_unicode":
        return Template(T_DEF, **kw).get_def("d").render_unicode(x=s).encode(cs, mode)
    if route == "lookup_def":
        lk = TemplateLookup(**kw)
        lk.put_string("/t", T_DEF)
        return lk.get_template("/t").get_def("e").render(y=s)
    if route == "module":
        return ModuleTemplate(Template("${x}").module, **kw).render(x=s)
    if route in ("include", "inherit", "namespace"):
        lk = TemplateLookup()                 # the parts come from a lookup WITHOUT encoding options: the top's apply
        lk.put_string("/inc", "${x}")
        lk.put_string("/base", "${self.body()}")
        lk.put_string("/ns", T_DEF)
        text = {"include": '<%include file="/inc"/>', "inherit": '<%inherit file="/base"/>${x}',
                "namespace": '<%namespace name="n" file="/ns"/>${n.d()}'}[route]
        return Template(text, lookup=lk, uri="/top", **kw).render(x=s)
    if route == "lookup_kw":
        lk = TemplateLookup(**kw)
        lk.put_string("t", "${x}")
        return lk.get_template("t").render(x=s)
    if route in ("file", "file_moddir"):
        md = None
        if route == "file_moddir":
            md = os.path.join(TMP["dir"], "m%d" % os.getpid())
        lk = TemplateLookup([os.path.join(TMP["dir"], "src")], module_directory=md, **kw)
        return lk.get_template("f.html").render(x=s)
    raise ValueError(route)


def run_op(op, via_lookup):
    from mako import filters
    s = op["text"]
    k = op["k"]
    if k == "render":
        return render_route(op.get("r") or ("lookup_kw" if via_lookup else "render"), op["a"], op["b"], s)
    if k == "encode":
        return s.encode(op["a"], op["b"])
    f = op["a"]
    if f == "h":
        return str.__str__(filters.html_escape(s))
    if f == "x":
        return filters.xml_escape(s)
    if f == "u":
        return filters.url_escape(s)
    if f == "entity":
        return filters.html_entities_escape(s)
    if f == "unescape":
        return filters.html_entities_unescape(s)
    if f == "trim":
        return filters.trim(s)
    if f == "decode":
        return filters.decode.utf8(s.encode("utf-8"))
    raise ValueError(f)


def observe(op, via_lookup):
    try:
        r = run_op(op, via_lookup)
    except Exception as ex:  # noqa -- an observation
        return {"x": type(ex).__name__}
    if isinstance(r, bytes):
        return {"b": r.hex()}
    if isinstance(r, str):
        return {"s": r}
    return {"x": "type:" + type(r).__name__}


def main():
    import mako.filters  # noqa: F401 -- import only
    import mako.lookup  # noqa: F401
    import mako.template  # noqa: F401
    import mako.util  # noqa: F401
    import mako.runtime  # noqa: F401
    import shutil
    import tempfile
    sessions = json.load(sys.stdin)
    TMP["dir"] = tempfile.mkdtemp(prefix="c10s-", dir=sys.argv[1] if len(sys.argv) > 1 else None)
    os.makedirs(os.path.join(TMP["dir"], "src"))
    with open(os.path.join(TMP["dir"], "src", "f.html"), "w") as f:
        f.write("${x}")
    out = []
    for sess in sessions:
        r, w = os.pipe()
        pid = os.fork()
        if pid == 0:
            code = 0
            try:
                os.close(r)
                res = [observe(op, (sess["id"] + i) % 2 == 1) for i, op in enumerate(sess["ops"])]
                os.write(w, json.dumps(res).encode("ascii"))
            except BaseException:
                code = 1
            finally:
                os._exit(code)
        os.close(w)
        data = b""
        while True:
            chunk = os.read(r, 65536)
            if not chunk:
                break
            data += chunk
        os.close(r)
        os.waitpid(pid, 0)
        out.append({"id": sess["id"], "res": json.loads(data) if data else None})
    shutil.rmtree(TMP["dir"], ignore_errors=True)
    json.dump({"mako": mako.util.__file__, "out": out}, sys.stdout)


if __name__ == "__main__":
    main()
