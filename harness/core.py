"""Shared machinery of the Mako verification harness.

Everything a per-property check needs: a scratch directory, the TLC runner and its output
parsers, a reader for TLA+ values (simulate trace files, PrintT output), verdict bookkeeping with
the known-findings rule, replay files and the evidence writer.

Exit codes of a check: 0 = property held on everything explored, 1 = violation (a line
"VIOLATION property=<id> replay=<path>" was printed), 2 = machinery failure (TLC error, timeout,
vacuous run, negative control accepted).  A machinery failure never prints a VIOLATION line.
"""
import hashlib
import json
import os
import random
import re
import shutil
import subprocess
import sys
import tempfile
import time

VERIF = os.path.dirname(os.path.dirname(os.path.abspath(__file__)))
SPEC_DIR = os.path.join(VERIF, "spec")
EVIDENCE_DIR = os.environ.get("VERIF_EVIDENCE_DIR") or os.path.join(VERIF, "evidence")   # bin/with-patch redirects it
REPLAY_DIR = os.path.join(VERIF, "replays")
KNOWN_FILE = os.path.join(VERIF, "known_findings.json")
TLA_JAR = "/opt/veriftools/tla/tla2tools.jar"
TLA_CP = TLA_JAR + ":/opt/veriftools/tla/CommunityModules-deps.jar"
MAKO_SRC = os.environ.get("MAKO_SRC", "/repo")
NCPU = os.cpu_count() or 4


def tscale(seconds):
    """Time limits exist to stop a hung tool, not to judge the tree: they are scaled generously (a loaded or slower
    machine must not turn a passing check into a machinery failure).  VERIF_TIMEOUT_FACTOR overrides the factor."""
    try:
        f = float(os.environ.get("VERIF_TIMEOUT_FACTOR", "4"))
    except ValueError:
        f = 4.0
    return int(seconds * max(f, 1.0))


class MachineryError(Exception):
    """Something in the verification machinery itself failed (exit 2)."""


# --------------------------------------------------------------------------- TLA+ value reader
class _P:
    def __init__(self, s):
        self.s = s
        self.i = 0

    def ws(self):
        s = self.s
        while self.i < len(s) and s[self.i] in " \t\r\n":
            self.i += 1

    def peek(self, k=1):
        self.ws()
        return self.s[self.i:self.i + k]

    def eat(self, tok):
        self.ws()
        if not self.s.startswith(tok, self.i):
            raise ValueError("expected %r at %d: %r" % (tok, self.i, self.s[self.i:self.i + 40]))
        self.i += len(tok)

    def value(self):
        v = self.atom()
        # function literals:  a :> b @@ c :> d
        self.ws()
        if self.s.startswith(":>", self.i):
            d = {}
            k = v
            while True:
                self.eat(":>")
                d[_key(k)] = self.atom()
                self.ws()
                if self.s.startswith("@@", self.i):
                    self.eat("@@")
                    k = self.atom()
                else:
                    break
            return d
        return v

    def atom(self):
        self.ws()
        s = self.s
        c = s[self.i]
        if c == '"':
            j = self.i + 1
            out = []
            while s[j] != '"':
                if s[j] == "\\":
                    j += 1
                    out.append({"n": "\n", "t": "\t", "r": "\r"}.get(s[j], s[j]))
                else:
                    out.append(s[j])
                j += 1
            self.i = j + 1
            return "".join(out)
        if s.startswith("<<", self.i):
            self.eat("<<")
            items = []
            if self.peek(2) != ">>":
                while True:
                    items.append(self.value())
                    if self.peek(1) == ",":
                        self.eat(",")
                    else:
                        break
            self.eat(">>")
            return items
        if c == "{":
            self.eat("{")
            items = []
            if self.peek(1) != "}":
                while True:
                    items.append(self.value())
                    if self.peek(1) == ",":
                        self.eat(",")
                    else:
                        break
            self.eat("}")
            return {"$set": items}
        if c == "[":
            self.eat("[")
            d = {}
            if self.peek(1) != "]":
                while True:
                    self.ws()
                    m = re.compile(r"[A-Za-z_][A-Za-z0-9_]*").match(s, self.i)
                    if not m:
                        raise ValueError("field name at %d" % self.i)
                    self.i = m.end()
                    self.eat("|->")
                    d[m.group(0)] = self.value()
                    if self.peek(1) == ",":
                        self.eat(",")
                    else:
                        break
            self.eat("]")
            return d
        if c == "(":
            self.eat("(")
            v = self.value()
            self.eat(")")
            return v
        m = re.compile(r"-?\d+").match(s, self.i)
        if m:
            self.i = m.end()
            return int(m.group(0))
        m = re.compile(r"[A-Za-z_][A-Za-z0-9_]*").match(s, self.i)
        if m:
            self.i = m.end()
            w = m.group(0)
            if w == "TRUE":
                return True
            if w == "FALSE":
                return False
            return {"$mv": w}
        raise ValueError("cannot parse TLA+ value at %d: %r" % (self.i, s[self.i:self.i + 40]))


def _key(k):
    if isinstance(k, (list, dict)):
        return json.dumps(k, sort_keys=True)
    return k


def parse_tla_value(text):
    p = _P(text)
    v = p.value()
    p.ws()
    if p.i != len(p.s):
        raise ValueError("trailing text in TLA+ value: %r" % p.s[p.i:p.i + 40])
    return v


_ST = re.compile(r"^STATE_(\d+) ==\s*$")
_ACT = re.compile(r"^\\\* <(\w+)(?:\((.*)\))? line \d+, col \d+ to line \d+, col \d+ of module \w+>")


def _parse_state_body(body):
    st = {}
    for c in re.split(r"(?m)^/\\ ", body):
        c = c.strip()
        if not c:
            continue
        name, _, val = c.partition("=")
        st[name.strip()] = parse_tla_value(val.strip())
    return st


def parse_simulate_file(path):
    """One behaviour written by `tlc -simulate file=...`: list of (action, state dict); `action`
    is the action name, its actual parameters (when TLC prints them) are in state["$args"]."""
    steps = []
    act = None
    args = None
    cur = None
    lines = []

    def flush():
        nonlocal cur, lines
        if cur is not None:
            st = _parse_state_body("\n".join(lines))
            if cur[1] is not None:
                st["$args"] = cur[1]
            steps.append((cur[0], st))
        cur = None
        lines = []

    with open(path) as f:
        for line in f:
            line = line.rstrip("\n")
            m = _ACT.match(line)
            if m:
                flush()
                act = m.group(1)
                args = parse_tla_value("<<" + m.group(2) + ">>") if m.group(2) else None
                continue
            if _ST.match(line):
                flush()
                cur = (act, args)
                continue
            if line.startswith("=====") or line.startswith("----"):
                continue
            if cur is not None:
                lines.append(line)
    flush()
    return steps


# --------------------------------------------------------------------------- TLC
class TLCResult:
    def __init__(self, out, rc, wall):
        self.out = out
        self.rc = rc
        self.wall = wall
        m = re.findall(r"(\d+) states generated, (\d+) distinct states found, (\d+) states left", out)
        self.generated, self.distinct, self.left = (int(x) for x in m[-1]) if m else (0, 0, 0)
        m = re.search(r"depth of the complete state graph search is (\d+)", out)
        self.depth = int(m.group(1)) if m else 0
        self.violated = re.findall(r"Error: (?:Invariant|Action property) (\w+) is violated", out)
        if "Temporal properties were violated" in out:
            self.violated.append("<temporal>")
        if re.search(r"Error: Deadlock reached", out):
            self.violated.append("<deadlock>")
        self.completed = ("Model checking completed. No error has been found." in out) or \
            bool(re.search(r"Finished in ", out) and not re.search(r"(?m)^Error:", out))
        self.errors = re.findall(r"(?m)^Error: .*$", out)
        # per-action coverage: "<Name line a, col b to line c, col d of module M>: distinct:generated"
        self.coverage = {}
        for name, d, g in re.findall(r"(?m)^<(\w+) line \d+, col \d+ to line \d+, col \d+ of module \w+>: (\d+):(\d+)", out):
            a = self.coverage.setdefault(name, [0, 0])
            a[0] += int(d)
            a[1] += int(g)

    def json_lines(self):
        """Values printed with PrintT(ToJson(x)): TLC prints a JSON string literal per line."""
        seen = []
        for m in re.finditer(r'"[\[{](?:[^"\\\n]|\\.)*[\]}]"', self.out):
            try:
                seen.append(json.loads(json.loads(m.group(0))))
            except Exception:
                pass
        return seen

    def counterexample(self):
        """States of the printed error trace, as list of (header, dict)."""
        states = []
        blocks = re.split(r"(?m)^State (\d+): ", self.out)
        for k in range(1, len(blocks) - 1, 2):
            body = blocks[k + 1]
            head, _, rest = body.partition("\n")
            rest = rest.split("\n\n")[0]
            st = {}
            for c in re.split(r"(?m)^/\\ ", rest):
                c = c.strip()
                if not c or "=" not in c:
                    continue
                name, _, val = c.partition("=")
                try:
                    st[name.strip()] = parse_tla_value(val.strip())
                except Exception:
                    st[name.strip()] = val.strip()
            states.append((head.strip(), st))
        return states


class Run:
    """One execution of one property's check."""

    def __init__(self, prop, tier=None, seed=None):
        self.prop = prop
        self.tier = tier or os.environ.get("VERIF_TIER") or "quick"
        if self.tier not in ("quick", "thorough"):
            self.tier = "quick"
        try:
            self.seed = int(seed if seed is not None else os.environ.get("VERIF_SEED", "0"))
        except ValueError:
            self.seed = 0
        self.rng = random.Random(self.seed)
        self.t0 = time.time()
        base = "/dev/shm" if os.path.isdir("/dev/shm") and os.access("/dev/shm", os.W_OK) else None
        self.scratch = tempfile.mkdtemp(prefix="mv-%s-" % prop, dir=base)
        self.states = 0
        self.transitions = 0
        self.traces = 0
        self.evaluations = 0
        self.samples = []
        self.extra = {}
        self.assumptions = []
        self.violations = []
        self.known_hit = {}
        self.tlc_runs = []
        self.negative_controls = 0
        self._known = load_known()
        self.thorough = self.tier == "thorough"

    # ---- scratch
    def subdir(self, name):
        p = os.path.join(self.scratch, name)
        os.makedirs(p, exist_ok=True)
        return p

    def cleanup(self):
        shutil.rmtree(self.scratch, ignore_errors=True)

    # ---- TLC
    def tlc(self, module, cfg, name=None, workers=None, timeout=900, simulate=None, depth=None,
            env=None, extra_files=None, coverage=False, deque=False, heap=None, expect_ok=True,
            count=True, extra_args=None):
        """Run TLC on spec/<module>.tla with cfg text `cfg`.  Returns TLCResult.

        With expect_ok, any TLC error that is not an invariant/property violation raises
        MachineryError; violations are left to the caller (res.violated)."""
        name = name or module
        timeout = tscale(timeout)
        work = self.subdir("tlc-" + name)
        for f in os.listdir(SPEC_DIR):
            if f.endswith(".tla"):
                shutil.copy(os.path.join(SPEC_DIR, f), work)
        for fn, text in (extra_files or {}).items():
            with open(os.path.join(work, fn), "w") as f:
                f.write(text)
        with open(os.path.join(work, module + ".cfg"), "w") as f:
            f.write(cfg)
        jopts = ["-XX:+UseParallelGC"]
        # an explicit bound: the JVM default (a quarter of the machine) times several concurrent checks starves everybody
        jopts.append("-Xmx" + (heap or os.environ.get("VERIF_TLC_HEAP", "6g")))
        if deque:
            jopts.append("-Dtlc2.tool.queue.IStateQueue=StateDeque")
        cmd = ["java"] + jopts + ["-cp", TLA_CP, "tlc2.TLC", "-metadir", os.path.join(work, "meta"),
                                  "-noGenerateSpecTE", "-workers", str(workers or NCPU)]
        if coverage:
            cmd += ["-coverage", "1"]
        if simulate:
            cmd += ["-simulate", simulate]
        if depth:
            cmd += ["-depth", str(depth)]
        if simulate or depth:
            cmd += ["-seed", str(self.seed)]
        cmd += list(extra_args or [])
        cmd += ["-config", module + ".cfg", module + ".tla"]
        e = dict(os.environ)
        e.update(env or {})
        t0 = time.time()
        for attempt in range(3):
            try:
                p = subprocess.run(cmd, cwd=work, env=e, capture_output=True, text=True, timeout=timeout)
            except subprocess.TimeoutExpired:
                subprocess.run(["pkill", "-f", os.path.join(work, "meta")], capture_output=True)
                raise MachineryError("TLC timed out after %ss on %s" % (timeout, name))
            out = p.stdout + p.stderr
            # the JVM could not get its memory / was killed (a loaded machine): nothing was decided -- try again
            starved = p.returncode in (-9, 137, 134) or "OutOfMemoryError" in out or "insufficient memory" in out \
                or "Could not reserve enough space" in out or "Cannot allocate memory" in out or "unable to create native thread" in out
            if not starved or attempt == 2:
                break
            shutil.rmtree(os.path.join(work, "meta"), ignore_errors=True)
            time.sleep(20 * (attempt + 1))
        res = TLCResult(p.stdout + p.stderr, p.returncode, time.time() - t0)
        res.work = work
        if count:
            self.states += res.distinct
            self.transitions += res.generated
        self.tlc_runs.append({"module": module, "name": name, "generated": res.generated,
                              "distinct": res.distinct, "depth": res.depth,
                              "wall_s": round(res.wall, 2), "violated": res.violated,
                              "mode": "simulate" if simulate else "exhaustive"})
        if expect_ok and not res.violated and not res.completed:
            tail = res.out[-3000:]
            raise MachineryError("TLC did not complete on %s:\n%s" % (name, tail))
        if expect_ok and not res.violated:
            bad = [x for x in res.errors]
            if bad:
                raise MachineryError("TLC error on %s: %s\n%s" % (name, bad[:3], res.out[-2000:]))
        return res

    def validate_traces(self, module, cfg, traces, name=None, workers=8, timeout=900, deque=False, heap=None):
        """Batch trace validation: `traces` is a list of {"id":..,"events":[..]}; the trace spec has
        one initial state per trace and prints one JSON verdict {t, ok, i, clause, ...} per trace.
        Returns {id: verdict}.  A trace without verdict is a machinery failure."""
        if not traces:
            return {}
        work_name = name or module
        res = self.tlc(module, cfg, name=work_name, workers=workers, timeout=timeout, deque=deque, heap=heap,
                       env={"TRACE_FILE": "traces.json"},
                       extra_files={"traces.json": json.dumps(traces)}, expect_ok=False)
        verdicts = {}
        for v in res.json_lines():
            if isinstance(v, dict) and "t" in v:
                verdicts.setdefault(v["t"], v)
        missing = [t["id"] for t in traces if t["id"] not in verdicts]
        if missing or res.violated or not res.completed:
            raise MachineryError("trace validation %s: %d traces without verdict, violated=%s, tail:\n%s"
                                 % (work_name, len(missing), res.violated, res.out[-2500:]))
        self.traces += len(traces)
        return verdicts

    # ---- verdicts
    def violation(self, signature, what, replay):
        """Report a disagreement between the code and the property.

        `signature` identifies the failing input/call site/history class.  A signature listed as
        `known` in known_findings.json is reported once as KNOWN-FINDING and does not fail the
        check; anything else (including signatures listed as `fixed`) is a VIOLATION."""
        for k in self._known:
            if k.get("property") == self.prop and k.get("status") == "known" and _sig_match(k, signature):
                hit = self.known_hit.setdefault(k["id"], {"what": k["what"], "count": 0, "example": replay})
                hit["count"] += 1
                return False
        os.makedirs(REPLAY_DIR, exist_ok=True)
        body = {"property": self.prop, "signature": signature, "what": what, "seed": self.seed,
                "tier": self.tier, "mako_src": MAKO_SRC, "replay": replay}
        txt = json.dumps(body, indent=1, sort_keys=True, default=str)
        h = hashlib.sha1(txt.encode()).hexdigest()[:10]
        path = os.path.join(REPLAY_DIR, "%s-%s.json" % (self.prop, h))
        if len(self.violations) < 25:
            with open(path, "w") as f:
                f.write(txt)
            print("VIOLATION property=%s replay=%s" % (self.prop, path))
            print("  %s: %s" % (signature, what))
            sys.stdout.flush()
        self.violations.append({"signature": signature, "what": what, "replay": path})
        return True

    def spec_violation(self, res, what=None):
        """A TLC run of the design model found an invariant violated: the *model* of the design
        admits a bad state; reported as a violation of the property with the counterexample."""
        ce = res.counterexample()
        self.violation("model:" + ",".join(res.violated), what or ("TLC: %s violated in the design model" % res.violated),
                       {"counterexample": ce[:60], "tlc_tail": res.out[-1500:]})

    def negative_control(self, rejected, what):
        """Record the outcome of a negative control (a corrupted trace / expected value must be
        rejected by the comparer).  An accepted negative control is a machinery failure."""
        if not rejected:
            raise MachineryError("negative control accepted: " + what)
        self.negative_controls += 1

    def sample(self, obj, limit=6):
        if len(self.samples) < limit:
            self.samples.append(obj)

    # ---- evidence
    def finish(self, rule="", exhaustive=None):
        wall = time.time() - self.t0
        for kid, hit in sorted(self.known_hit.items()):
            print("KNOWN-FINDING: property=%s %s [%s, %d occurrence(s) this run]" % (self.prop, hit["what"], kid, hit["count"]))
        cov = {
            "states": max(self.states, 0),
            "transitions": max(self.transitions, 0),
            "traces_validated_against_impl": self.traces,
            "samples": self.samples or ["(none)"],
            "evaluations": self.evaluations or self.traces,
            "rule": rule,
            "tlc_runs": self.tlc_runs,
            "negative_controls": self.negative_controls,
            "known_findings_hit": {k: v["count"] for k, v in self.known_hit.items()},
            "mako_src": MAKO_SRC,
        }
        if exhaustive is not None:
            cov["exhaustive"] = bool(exhaustive)
        cov.update(self.extra)
        ev = {"property_id": self.prop, "tier": self.tier, "seed": self.seed, "level": "model_checking",
              "coverage": cov, "assumptions": self.assumptions, "wall_s": round(wall, 2),
              "violations": len(self.violations)}
        os.makedirs(EVIDENCE_DIR, exist_ok=True)
        with open(os.path.join(EVIDENCE_DIR, self.prop + ".json"), "w") as f:
            json.dump(ev, f, indent=1, sort_keys=True, default=str)
        self.cleanup()
        print("%s %s: %d states, %d transitions, %d implementation traces/executions, %d violation(s), %d known finding(s), %.1fs"
              % (self.prop, self.tier, self.states, self.transitions, self.traces, len(self.violations), len(self.known_hit), wall))
        return 1 if self.violations else 0


def _sig_match(k, signature):
    pat = k.get("signature")
    if pat is None:
        return False
    if k.get("signature_is_regex"):
        return re.fullmatch(pat, signature) is not None
    return pat == signature


def load_known():
    try:
        with open(KNOWN_FILE) as f:
            return json.load(f).get("findings", [])
    except FileNotFoundError:
        return []


def main_wrapper(prop, fn, argv=None):
    """Run `fn(run)` for a property with uniform exit-code handling."""
    import argparse
    ap = argparse.ArgumentParser()
    ap.add_argument("--tier", default=None)
    ap.add_argument("--seed", default=None)
    ap.add_argument("--replay", default=None)
    a = ap.parse_args(argv)
    seed, tier = a.seed, a.tier
    if a.replay:
        # a replay file records the seed and tier of the run that produced it: checks that do not implement
        # a dedicated replay re-run deterministically with those, which reproduces the recorded violation
        try:
            with open(a.replay) as f:
                rec = json.load(f)
            print("replay of %s: signature %s -- %s" % (a.replay, rec.get("signature"), rec.get("what")))
            seed = rec.get("seed", seed) if seed is None else seed
            tier = rec.get("tier", tier) if tier is None else tier
        except Exception as e:
            print("MACHINERY-FAILURE property=%s: cannot read replay file: %s" % (prop, e))
            return 2
    run = Run(prop, tier, seed)
    run.replay_path = a.replay
    try:
        import mako
        if not os.path.abspath(mako.__file__).startswith(os.path.abspath(MAKO_SRC) + os.sep):
            raise MachineryError("mako imported from %s, not from MAKO_SRC=%s" % (mako.__file__, MAKO_SRC))
        rule = fn(run)
        if isinstance(rule, dict):
            code = run.finish(**rule)
        else:
            code = run.finish(rule or "")
        return code
    except MachineryError as e:
        print("MACHINERY-FAILURE property=%s: %s" % (prop, e))
        run.cleanup()
        return 2
    except Exception:
        import traceback
        traceback.print_exc()
        print("MACHINERY-FAILURE property=%s: unexpected exception in the harness" % prop)
        run.cleanup()
        return 2


def tla_str(s):
    return '"' + s.replace("\\", "\\\\").replace('"', '\\"') + '"'


def tla_set(items):
    return "{" + ", ".join(items) + "}"


def tla_seq(items):
    return "<<" + ", ".join(items) + ">>"


def to_tla(v):
    """Python value -> TLA+ literal (dict -> record, list -> sequence, set -> set)."""
    if isinstance(v, bool):
        return "TRUE" if v else "FALSE"
    if isinstance(v, int):
        return str(v)
    if isinstance(v, str):
        return tla_str(v)
    if isinstance(v, (list, tuple)):
        return tla_seq([to_tla(x) for x in v])
    if isinstance(v, (set, frozenset)):
        return tla_set(sorted(to_tla(x) for x in v))
    if isinstance(v, dict):
        return "[" + ", ".join("%s |-> %s" % (k, to_tla(x)) for k, x in v.items()) + "]"
    raise TypeError("no TLA+ literal for %r" % (v,))
