"""C01 -- literal text and the documented escapes are reproduced exactly; lexing ends with a
complete tree or a Mako exception.

Specification: spec/MakoLexer.tla (symbol-level reference lexer, one action per matcher of the
cascade in Lexer.parse, incl. the ExprScan bracket/quote/comment scanner), spec/MC_MakoLexer.tla
(bounded exhaustive instance), spec/Trace_MakoLexer.tla (long recorded documents).

 1. TLC enumerates every string of <= k symbols over the directive alphabet (plus hand-picked
    longer strings), checks Accounting / Iterations / ErrOrTree in every state and Progress on
    every step, and prints, per string, every acceptable outcome: normal-form node list + expected
    output, or the error (with its position).
 2. R: every string is concretised (filler, non-ASCII, LF/CRLF drawn from the seed), run through
    the real Lexer(text).parse() and Template(text).render_unicode(), and compared with the
    outcomes TLC printed, on the normal form (adjacent Text merged, empties dropped).
 3. V: seeded long documents (well-formed directives at every kind of position between runs of
    arbitrary filler) are lexed and rendered by the real code; symbols, abstracted nodes, abstracted
    output and the cursor offsets are validated in batch by Trace_MakoLexer.tla.

Python never decides what the right tree / output is: it concretises, runs, projects, compares.
CPython's own parser is used as judge of "is this Python text syntactically valid" only.
The time-polynomial clause of C01 is NOT checked.
"""
import ast as pyast
import hashlib
import json
import multiprocessing
import os
import random
import shutil
import tempfile
import warnings

from . import core
from .core import MachineryError

# ----------------------------------------------------------------------------- alphabets
BASE_SYMS = ["w", "sp", "tb", "nl", "cr", "pc", "hs", "bs", "lt", "gt", "sl", "dl", "lb", "rb", "TX", "DC"]
# + the two "suspicious" filler symbols: o = neither word nor white space, v = Unicode-only white space
QUICK_SYMS = BASE_SYMS + ["o", "v"]
THOROUGH_SYMS = QUICK_SYMS + ["u", "pp", "dq", "ex"]
HOT_SYMS = ["pc", "hs", "bs", "nl", "lt", "sl", "w", "sp"]
EXPR_SYMS = ["w", "sp", "nl", "hs", "lb", "rb", "lp", "rp", "dq", "sq", "pp", "bs"]

FIXED = {"sp": " ", "tb": "\t", "cr": "\r", "pc": "%", "hs": "#", "dl": "$", "lb": "{", "rb": "}", "lt": "<",
         "gt": ">", "sl": "/", "bs": "\\", "pp": "|", "ex": "!", "dq": '"', "sq": "'", "lp": "(", "rp": ")",
         "TX": "text", "DC": "doc", "DF": "def", "BK": "block",
         "ls": "[", "rs": "]", "cm": ",", "cl": ":", "Fh": "h", "Ft": "trim", "Fg": "g",
         "IN": "include", "BLK": "<%block>", "IFT": "if True:", "IFF": "if False:", "FOR": "for _i in (1, 2):",
         "EIF": "endif", "EFR": "endfor"}
W_POOL = ["a", "b7", "kk", "zq", "Yy_1"]
U_POOL = ["é", "ü", "漢", "Ω", "ж", "\U00010400"]      # the last one: a non-BMP letter
# Suspicious characters, by class of the filler symbol they concretise.  Every class is used SYSTEMATICALLY (rotated over
# the enumeration; all of them at the first position of the text), not drawn at random:
#   o: ZWNBSP/BOM, ZWSP, NUL, a combining mark, a non-BMP symbol (+ two ordinary ones)
#   v: LS, PS, NEL, VT, FF, NBSP -- white space for \s / str.strip, not for `[ \t]`, not line ends for `^`
O_CLASSES = ["\ufeff", "\u200b", "\x00", "\u0301", "\U0001F600", "~", "\u20ac"]
O_NAMES = ["zwnbsp", "zwsp", "nul", "combining", "nonbmp", "tilde", "euro"]
V_CLASSES = ["\u2028", "\u2029", "\x85", "\x0b", "\x0c", "\xa0"]
# ... and, as the Python text of a directive (or as literal text, where it must be reproduced verbatim): fillers that the Python
# compiler rejects for DIFFERENT reasons, or accepts only just.  All are parenthesised (no word character at either end), hold no
# quote, brace, |, #, <, %, $, backslash or newline, and are bracket-balanced: for the lexer they are one opaque filler.
PY_FILLERS = [
    ("py-grammar", "(x+)"),                                   # SyntaxError
    ("py-surrogate", "(\ud800)"),                              # a lone surrogate: UnicodeEncodeError in the compiler
    ("py-nonutf8", "(x\udcff)"),                               # the same, low half (what surrogateescape produces)
    ("py-nul", "(x\x00)"),                                     # ValueError / SyntaxError: null byte
    ("py-formfeed", "(\x0cx)"),                                # accepted: form feed is white space in Python
    ("py-control", "(x\x01)"),                                 # invalid non-printable character
    ("py-deep60", "(" * 60 + "x" + ")" * 60),                   # accepted
    ("py-deep200", "(" * 200 + "x" + ")" * 200),                # at the compiler's nesting limit
    ("py-chain200", "(" + "+".join(["x"] * 200) + ")"),         # accepted
    ("py-chain600", "(" + "+".join(["x"] * 600) + ")"),         # accepted by the compiler, deep for any recursive visitor
    ("py-chain5000", "(" + "+".join(["x"] * 5000) + ")"),       # RecursionError in the compiler
    ("py-hugeint", "(" + "9" * 6000 + ")"),                     # exceeds the int literal limit
]
# Fillers with a comfortable margin below CPython's own limits (nesting <= 60, chains <= 200, no oversized literal): only for
# these is the RENDERED output of a directive holding the filler compared.  For the others the judged outcome is the LEXING
# outcome (a tree that accounts for the source, or a Mako exception; never a raw exception); that the module GENERATED around
# an expression standing at a CPython limit does not compile is recorded in the evidence, not a verdict.  Literal placements
# (plain text, <%text>, <%doc>, ##) must reproduce every filler verbatim, whatever its class.
PY_NEAR_LIMIT = {"py-deep200", "py-chain600", "py-chain5000", "py-hugeint"}
O_NAMES = O_NAMES + [n for n, _ in PY_FILLERS]
O_CLASSES = O_CLASSES + [t for _, t in PY_FILLERS]
O_POOL, V_POOL = O_CLASSES, V_CLASSES
CTL = {"IFO": ("if", False), "IFT": ("if", False), "IFF": ("if", False), "FOR": ("for", False), "EIF": ("if", True), "EFR": ("for", True)}

EXTRA_STRINGS = [
    "w lt pc TX gt lt sl pc TX gt w",            # empty <%text></%text>
    "w lt pc TX gt w nl pc lt sl pc TX gt w",    # <%text> body with a line-leading %
    "lt pc TX sl gt w",
    "lt pc DC gt hs hs nl lt sl pc DC gt nl w",
    "w sp lt sl pc sp w",                        # DESIGN s.5 #1
    "dl lb sp w sp hs sp w sp rb",               # DESIGN s.5 #12
    "w nl pc sp w cr w nl w",                    # DESIGN s.5 #13
    "dl lb w rb bs nl pc pc w",
    "w bs cr nl pc pc nl hs hs w bs nl w nl w",
    "lt pc sp w sp pc gt dl lb w rb nl tb pc pc w",
    "lt pc ex sp pc gt nl sp hs hs sp w cr nl pc pc",
    # tag heads with odd spacing, closers with blanks, <%doc> holding closer-like text, ## ending in a backslash, %% behind tabs
    "lt pc TX sp sp gt w lt sl pc TX gt w",
    "lt pc TX nl tb gt w nl lt sl pc TX gt",
    "lt pc TX sp sl gt w",
    "lt pc sp TX gt w pc gt w",
    "w lt sl pc sp TX sp gt",
    "lt pc DC gt lt sl pc DC sp gt w lt sl pc w gt lt sl pc DC gt w",
    "hs hs w bs nl w nl w",
    "tb tb pc pc w nl sp tb pc pc pc nl tb pc pc",
    # Python text in every directive kind: ${ }, its filter list, <% %>, <%! %>, a % control line, ${} in a tag attribute --
    # and the same filler as literal text, in <%text>, <%doc>, a ## comment (run with EVERY class behind o)
    "w dl lb o rb w",
    "w dl lb w pp o rb w",
    "w lt pc sp o sp pc gt w",
    "w lt pc ex sp o sp pc gt w",
    "pc sp IFO nl w nl pc sp EIF nl",
    "w INC w",
    "o w nl sp o lt pc TX gt o lt sl pc TX gt lt pc DC gt o lt sl pc DC gt nl hs hs o nl o",
    # suspicious characters (run with EVERY class behind o / v): first / last character, after a newline, before a directive
    "o w nl o dl lb w rb o",
    "v w nl v dl lb w rb v",
    "o lt pc TX gt o lt sl pc TX gt o",
    "v nl v pc pc w nl o pc pc",
    "dl lb v w rb",                              # Unicode-only white space inside ${ } ...
    "w lt pc sp v sp pc gt w",                   # ... and inside <% %>
    "dl lb w sp pp v w v rb",
]


def conc_map(rng, syms, oc=None, vc=None):
    """Concretisation of every symbol for ONE string / document (drawn from the seed)."""
    m = dict(FIXED)
    m["w"] = rng.choice(W_POOL)
    m["u"] = rng.choice(U_POOL)
    o, v = rng.choice(O_CLASSES), rng.choice(V_CLASSES)
    m["o"] = o if oc is None else O_CLASSES[oc % len(O_CLASSES)]
    m["v"] = v if vc is None else V_CLASSES[vc % len(V_CLASSES)]
    crlf = rng.random() < 0.4
    for i in range(len(syms) - 1):
        if syms[i] == "cr" and syms[i + 1] == "nl":
            crlf = False            # `cr nl` IS a CRLF for the spec; keep it one
    m["nl"] = "\r\n" if crlf else "\n"
    m["MAGIC"] = "## -*- coding: utf-8 -*-" + m["nl"]
    m["IFO"] = "if " + m["o"] + ":"
    m["INC"] = '<%include file="${' + m["o"] + '}"/>'
    m["DEF"] = '<%%def name="%s()">' % rng.choice(["f1", "gq"])
    m["DE2"] = '<%def name="h2(x=1)">'
    return m


def cat(m, syms):
    return "".join(m[s] for s in syms)


def offsets(m, syms):
    off = [0]
    for s in syms:
        off.append(off[-1] + len(m[s]))
    return off


def col_of(text, off):
    return off - text.rfind("\n", 0, off)


def norm_nl(s):
    return s.replace("\r\n", "\n")


def nows(s):
    return "".join(s.split())


# ----------------------------------------------------------------------------- the real lexer, projected
def flatten(nodes, out):
    from mako import parsetree
    for n in nodes:
        if isinstance(n, parsetree.Text):
            out.append(["text", n.lineno, n.pos, n.content])
        elif isinstance(n, parsetree.Comment):
            out.append(["comment", n.lineno, n.pos, n.text])
        elif isinstance(n, parsetree.Expression):
            out.append(["expr", n.lineno, n.pos, norm_nl(n.text), norm_nl(n.escapes.strip())])
        elif isinstance(n, parsetree.Code):
            out.append(["code", n.lineno, n.pos, bool(n.ismodule), n.text])
        elif isinstance(n, parsetree.ControlLine):
            out.append(["ctl", n.lineno, n.pos, n.keyword, bool(n.isend), n.text])
        elif isinstance(n, parsetree.TextTag):
            body = "".join(getattr(c, "content", "<?>") for c in n.nodes)
            bpos = [n.nodes[0].lineno, n.nodes[0].pos] if n.nodes and body else None
            out.append(["texttag", n.lineno, n.pos, body, bpos])
        elif isinstance(n, parsetree.Tag):
            out.append(["tag", n.lineno, n.pos, n.keyword])
            flatten(n.nodes, out)
            out.append(["endtag", n.keyword])
        else:
            out.append(["other", type(n).__name__])
    return out


def normal_form(items):
    res = []
    for it in items:
        if it[0] == "text":
            if it[3] == "":
                continue
            if res and res[-1][0] == "text":
                res[-1] = ["text", res[-1][1], res[-1][2], res[-1][3] + it[3]]
                continue
        res.append(list(it))
    return res


# ----------------------------------------------------------------------------- input routes
ROUTE_OPS = [["id"], ["del"], ["ins"], ["exp"], ["ins", "exp"], ["del", "ins"], ["exp", "del"]]
ROUTE_SYMS = ["w", "sp", "nl", "cr", "pc", "hs", "bs", "lt", "sl", "dl", "lb", "rb", "TX", "o"]
ROUTE_EXTRA = [
    "w dl lb w rb nl pc pc w o w",
    "o w nl hs hs w nl lt pc TX gt o lt sl pc TX gt o",
    "MAGIC w o nl pc pc w",
    "w bs nl o lt pc sp pc gt w dl lb w rb",
    "MAGIC o dl lb w rb o",
]
FORMS = ["str", "bytes-utf8", "bytes-bom", "bytes-utf16+input_encoding"]
ENTRIES = ["Template(text)", "TemplateLookup.put_string", "Template(filename)", "TemplateLookup(directories)"]


def preprocessors(ops, m, src, bare=False):
    """The real preprocessor callables for the operations of a route (MakoLexer.ApplyOp), on concrete text."""
    fns = []
    for k, op in enumerate(ops):
        if op == "id":
            fns.append(lambda t: t)
        elif op == "del":
            # deletes the first symbol of the text it receives: what that symbol is depends on the operations before it
            first = apply_ops_syms(ops[:k], src)[:1]
            n = len(cat(m, first))
            fns.append(lambda t, n=n: t[n:])
        elif op == "ins":
            hdr = cat(m, ["hs", "hs", "w", "nl"])
            fns.append(lambda t, hdr=hdr: hdr + t)
        elif op == "exp":
            a, b = m["o"], "${" + m["w"] + "}"
            fns.append(lambda t, a=a, b=b: t.replace(a, b))
        else:
            raise MachineryError("unknown route operation %r" % op)
    if not fns:
        return None
    if bare and len(fns) == 1:
        return fns[0]                    # a single callable instead of a list
    return fns


def apply_ops_syms(ops, syms):
    """The symbols of the text after the operations (concretisation helper: which symbol `del` removes, and the symbol
    offsets of a recorded document).  Expected trees never come from here: TLC computes Transform itself."""
    s = list(syms)
    for op in ops:
        if op == "del":
            s = s[1:]
        elif op == "ins":
            s = ["hs", "hs", "w", "nl"] + s
        elif op == "exp":
            s = [y for x in s for y in (["dl", "lb", "w", "rb"] if x == "o" else [x])]
    return s


def in_form(text, form):
    """(source object handed to Mako, input_encoding)"""
    try:
        text.encode("utf-8")
    except UnicodeEncodeError:
        return text, None     # a lone surrogate: such a source exists as str only
    if form == 1 and text.startswith("\ufeff"):
        form = 2          # in BYTES a leading EF BB BF is an encoding signature, not a character: such a source carries its own
    if form == 1:
        return text.encode("utf-8"), None
    if form == 2:
        return b"\xef\xbb\xbf" + text.encode("utf-8"), None
    if form == 3:
        return text.encode("utf-16"), "utf-16"
    return text, None


def run_lexer(text, cursor=None, pre=None, form=0):
    """('ok', normal form) | ('mako', ExcType, lineno, pos, msg) | ('exc', ExcType, msg)"""
    from mako import exceptions
    from mako.lexer import Lexer
    try:
        given, enc = in_form(text, form)
        lx = Lexer(given, input_encoding=enc, preprocessor=pre)
        if cursor is not None:
            orig = lx.match_end

            def match_end():
                cursor.append(lx.match_position)
                return orig()
            lx.match_end = match_end
        tree = lx.parse()
        return ("ok", normal_form(flatten(tree.nodes, [])))
    except (exceptions.SyntaxException, exceptions.CompileException) as e:
        return ("mako", type(e).__name__, e.lineno, e.pos, str(e)[:120])
    except RecursionError as e:
        return ("exc", "RecursionError", "")
    except Exception as e:      # total against mutated code: an observation, not a crash
        return ("exc", type(e).__name__, str(e)[:120])


def run_render(text, ctx, pre=None, form=0, entry=0):
    from mako import exceptions
    from mako.lookup import TemplateLookup
    from mako.template import Template
    tmp = None
    try:
        given, enc = in_form(text, form)
        if entry == 1:
            lk = TemplateLookup(preprocessor=pre, input_encoding=enc)
            lk.put_string("t.html", given)
            t = lk.get_template("t.html")
        elif entry in (2, 3):
            tmp = tempfile.mkdtemp(prefix="mv-c01-", dir="/dev/shm" if os.path.isdir("/dev/shm") else None)
            fn = os.path.join(tmp, "t.html")
            data = given if isinstance(given, bytes) else in_form(given, 1)[0]      # a file holds bytes
            if not isinstance(data, bytes):
                entry = 0              # not encodable: no file can hold it
            with open(fn, "wb") as f:
                f.write(data if isinstance(data, bytes) else b"")
            if entry == 2:
                t = Template(filename=fn, preprocessor=pre, input_encoding=enc)
            elif entry == 3:
                t = TemplateLookup(directories=[tmp], preprocessor=pre, input_encoding=enc).get_template("t.html")
            else:
                t = Template(given, preprocessor=pre, input_encoding=enc)
        else:
            t = Template(given, preprocessor=pre, input_encoding=enc)
        return ("ok", t.render_unicode(**ctx))
    except (exceptions.SyntaxException, exceptions.CompileException) as e:
        return ("mako", type(e).__name__, e.lineno, e.pos, str(e)[:120])
    except Exception as e:
        return ("exc", type(e).__name__, str(e)[:120])
    finally:
        if tmp:
            shutil.rmtree(tmp, ignore_errors=True)


# ----------------------------------------------------------------------------- spec outcomes, concretised
def py_ok(src):
    try:
        pyast.parse(src, "<judge>", "exec")
        return True
    except Exception:
        return False


def concretise_alt(alt, m, syms, text, off):
    """Spec outcome -> comparable form.  ('err', why, line, col, definite, maxline) or
    ('ok', nodes, judges) where judges[i] in {'valid', 'invalid', 'maybe'} for expr/code nodes."""
    e = alt["e"]
    if e["why"] != "none":
        p = e["p"]
        return ("err", e["why"], e["l"], col_of(text, off[p - 1]) if p <= len(off) else 0, bool(e["d"]))
    nodes = []
    judges = []
    for n in alt["n"]:
        k = n["k"]
        l, c = n["l"], col_of(text, off[n["p"] - 1])
        b = cat(m, n["b"])
        j = None
        if k == "text":
            nodes.append(["text", l, c, b])
        elif k == "comment":
            nodes.append(["comment", l, c, b])
        elif k == "expr":
            f = cat(m, n["f"]).strip()       # the filter text is compared modulo surrounding white space (any kind)
            nodes.append(["expr", l, c, norm_nl(b), norm_nl(f)])
            if not py_ok(b.lstrip()):
                j = "invalid"
            elif f and not py_ok(f + ","):
                j = "invalid"
            elif f:
                j = "maybe"
            else:
                j = "valid"
        elif k == "code":
            nodes.append(["code", l, c, bool(n["m"]), b])
            j = "maybe"
        elif k == "ctl":
            kw, isend = CTL[n["b"][0]]
            nodes.append(["ctl", l, c, kw, isend, m[n["b"][0]]])
            if n["b"][0] == "IFO":
                j = "valid" if py_ok("if " + m["o"] + ":\n pass") else "invalid"
                b = m["IFO"]
        elif k == "texttag":
            bpos = [n["bl"], col_of(text, off[n["bp"] - 1])] if n["b"] else None
            nodes.append(["texttag", l, c, b, bpos])
        elif k == "tag":
            nodes.append(["tag", l, c, m[n["b"][0]]])
            if n["b"][0] == "IN":
                j = "valid" if py_ok(m["o"]) else "invalid"
                b = m["INC"]
        elif k == "endtag":
            nodes.append(["endtag", cat(m, n["b"])])
        judges.append((j, b.count("\n")))
    return ("ok", nodes, judges)


def nodes_equal(a, b):
    if len(a) != len(b):
        return False
    for x, y in zip(a, b):
        if x[0] != y[0]:
            return False
        if x[0] == "code":
            if x[1:4] != y[1:4] or nows(x[4]) != nows(y[4]):
                return False
        elif x != y:
            return False
    return True


ERR_FROM = {"expr-lexical", "block-lexical"}    # raised by the node constructor: line may be further down


def lexer_agrees(calt, real, nlines):
    """Does the observed result of the real lexer match this acceptable outcome?"""
    if calt[0] == "err":
        _, why, l, c, definite = calt
        if why == "ANY":
            return real[0] in ("ok", "mako")
        # C01 asks for "a Mako syntax/compile exception"; WHERE it is reported is C11's business
        # (position differences are counted in the evidence, see check_string)
        return real[0] == "mako"
    _, nodes, judges = calt
    if real[0] == "ok":
        return nodes_equal(nodes, real[1])
    if real[0] == "mako":
        # a Python-level syntax error raised by an Expression / Code node's constructor: acceptable iff
        # CPython itself rejects that node's text (Code: not judged here, C19) and no earlier node is invalid
        for nd, (j, nnl) in zip(nodes, judges):
            if j is None:
                continue
            if real[3] == nd[2] and nd[1] <= real[2] <= nd[1] + nnl + 1 and j in ("invalid", "maybe") \
                    and "Error)" in real[4]:
                return True
            if j == "invalid":
                return False
        return False
    return False


def expected_render(alt, m, ctx):
    """Expected output of an accepted tree outcome, or None if the render is outside C01 (code blocks
    with a body, filters, expressions that are not plain Python expressions)."""
    for n in alt["n"]:
        if n["k"] == "code":
            body = cat(m, n["b"])
            if any(ln.strip() and not ln.strip().startswith("#") for ln in body.replace("\r", "\n").split("\n")):
                return None
            if body.strip() and not body.endswith("\n") and "#" in body.split("\n")[-1]:
                return None
        if n["k"] == "ctl" or n["k"] == "tag":
            return None
    out = []
    o = alt["o"]
    i = 0
    while i < len(o):
        if o[i] == "X(":
            j = o.index(")X", i)
            inner = o[i + 1:j]
            if "X|" in inner:
                return None
            src = cat(m, inner).strip()
            try:
                code = compile(src, "<judge>", "eval")
            except Exception:
                return None
            try:
                out.append(str(eval(code, {"__builtins__": {}}, dict(ctx))))
            except NameError:
                return None              # what an undefined name means is C04's business
            except Exception as e:
                return ("exc", type(e).__name__)
            i = j + 1
        else:
            out.append(m[o[i]])
            i += 1
    return ("ok", "".join(out))


def filler_in_python(alt):
    """Does the filler symbol stand inside the Python text of a directive of this outcome (rather than in literal text)?"""
    for n in alt["n"]:
        if n["k"] in ("expr", "code") and ("o" in n["b"] or "o" in n.get("f", [])):
            return True
        if n["k"] == "ctl" and n["b"][0] == "IFO":
            return True
        if n["k"] == "tag" and n["b"][0] == "IN":
            return True
    return False


def make_ctx():
    ctx = {}
    for i, nm in enumerate(W_POOL + U_POOL + ["text", "doc", "def", "block"]):
        ctx[nm] = 2 + i
    ctx["x"] = 1              # the name used by the Python-text fillers
    return ctx


SPECIAL = ["incomplete-close", "lone-cr-line", "hash-eof-expr", "empty-text-tag", "hash-eof-block", "exotic-space-in-python",
           "cr-before-percent", "comment-continuation", "junk-attr"]


def literal_of(nodes):
    return "".join(n[3] for n in nodes if n[0] in ("text", "texttag"))


def one_char_dropped(shorter, longer):
    """`shorter` is `longer` with 1..3 characters deleted."""
    if not (1 <= len(longer) - len(shorter) <= 3):
        return False
    it = iter(longer)
    return all(ch in it for ch in shorter)


def classify(alts, calts, real, render_obs):
    """Signature (site : failure mode) of a disagreement.  Heuristic; the verdict does not depend on it."""
    feats = set()
    for a in alts:
        feats.update(a["ft"])
    site = None
    for f in SPECIAL:
        if f in feats:
            site = f
            break
    oks = [c for c in calts if c[0] == "ok"]
    errs = [c for c in calts if c[0] == "err"]
    if real[0] == "exc":
        mode = "raises-" + real[1]
    elif real[0] == "ok" and not oks:
        mode = "accepted"
        if render_obs is not None and render_obs[0] == "exc" and render_obs[1] in ("SyntaxError", "IndentationError", "TabError"):
            mode += "+module-raises-" + render_obs[1]
        site = site or errs[0][1]
    elif real[0] == "mako" and not errs:
        mode = "rejected"
        site = site or "tree"
    elif real[0] == "mako":
        mode = "error-position"
        site = site or errs[0][1]
    else:
        got = real[1]
        lg = literal_of(got)
        want = oks[0][1]
        for c in oks:
            if one_char_dropped(lg, literal_of(c[1])):
                want = c[1]
                break
        lw = literal_of(want)
        if [n[0] for n in want] != [n[0] for n in got] and lw == lg:
            mode = "node-kinds"
        elif one_char_dropped(lg, lw):
            mode = "text-dropped"
        elif len(lg) < len(lw):
            mode = "text-lost"
        elif len(lg) > len(lw):
            mode = "text-added"
        elif lg != lw:
            mode = "text-changed"
        else:
            mode = "position-or-content"
        if site is None:
            site = "tree"
            for x, y in zip(want, got):
                if x != y:
                    site = x[0]
                    break
    return "lexer:%s:%s" % (site, mode)


# ----------------------------------------------------------------------------- one string (worker side)
def check_string(job):
    """job = (syms, alts, seed) -> None | dict describing the disagreement; also returns counters."""
    syms, alts, seed, do_render = job[:4]
    oc, vc, route = (tuple(job) + (None, None, None))[4:7]
    warnings.simplefilter("ignore")        # SyntaxWarnings of CPython about the generated Python fragments
    rng = random.Random(seed)
    # the input route: `syms` is the text TLC lexed (after Transform); the source handed to Mako is route["src"], it reaches
    # the lexer through the preprocessors of route["ops"], in one of FORMS, and the renderer through one of ENTRIES
    if route is None:
        route = {"src": syms, "ops": [], "form": (seed // 7) % len(FORMS),
                 "entry": ((seed // 31) % 2) if (seed // 5) % 16 else 2 + (seed // 31) % 2}
    src = route["src"]
    m = conc_map(rng, list(src) + ["sp"] + list(syms), oc, vc)
    given = cat(m, src)
    # which Python-text filler (if any) stands behind o in this string: part of the signature of a RAW exception
    pycls = None
    if m["o"] in O_CLASSES[7:] and ({"o", "IFO", "INC"} & (set(src) | set(syms))):
        pycls = O_NAMES[O_CLASSES.index(m["o"])]
    pre = preprocessors(route["ops"], m, src, bare=bool(seed % 2))
    form, entry = route["form"], route["entry"]
    text = cat(m, syms)
    off = offsets(m, syms)
    nlines = text.count("\n")
    calts = [concretise_alt(a, m, syms, text, off) for a in alts]
    real = run_lexer(given, None, pre, form)
    how = {"given": given, "preprocessor": route["ops"], "form": FORMS[form], "entry": ENTRIES[entry]}
    hit = None
    for a, c in zip(alts, calts):
        if lexer_agrees(c, real, nlines):
            hit = (a, c)
            break
    rendered = 0
    if hit is not None and hit[1][0] == "err" and real[0] == "mako" and hit[1][4] and hit[1][1] != "ANY":
        _, why, l, c, _d = hit[1]
        same = (real[3] == c and l <= real[2] <= l + nlines) if why in ERR_FROM else ((real[2], real[3]) == (l, c))
        if not same:
            rendered = -1000000          # flag: error reported at another position than the construct's start
    if hit is None:
        robs = None
        if real[0] == "ok":
            robs = run_render(given, make_ctx(), pre, form, entry)
        sig = classify(alts, calts, real, robs)
        if real[0] == "exc" and pycls:
            sig = "lexer:python-text[%s]:raises-%s" % (pycls, real[1])
        return {"sig": sig, "text": text, "syms": syms, "expected": calts, "observed": real, "render": robs,
                "stage": "lexer", "route": how}, rendered
    if do_render and real[0] == "ok":
        ctx = make_ctx()
        exp = expected_render(hit[0], m, ctx)
        if exp is not None:
            rendered = 1
            robs = run_render(given, ctx, pre, form, entry)
            good = (exp[0] == "ok" and robs[0] == "ok" and robs[1] == exp[1]) or \
                   (exp[0] == "exc" and robs[0] == "exc" and robs[1] == exp[1])
            if not good and pycls in PY_NEAR_LIMIT and filler_in_python(hit[0]) and robs[0] == "exc":
                # the lexing outcome was right; the generated module around a filler at a CPython limit failed: evidence only
                return {"evidence": "near-limit-module-failure", "class": pycls, "text": text[:80], "observed": robs[:2]}, rendered
            if not good:
                feats = [f for f in SPECIAL if f in hit[0]["ft"]]
                site = feats[0] if feats else "render"
                if pycls and robs[0] == "exc":
                    site = "python-text[%s]" % pycls
                if robs[0] == "ok" and exp[0] == "ok":
                    mode = "text-dropped" if one_char_dropped(robs[1], exp[1]) else "output-differs"
                else:
                    mode = "render-" + (robs[1] if robs[0] != "ok" else "ok-but-expected-" + str(exp[1]))
                return {"sig": "render:%s:%s" % (site, mode), "text": text, "syms": syms, "expected": exp,
                        "observed": robs, "stage": "render", "route": how}, rendered
    return None, rendered


def _pool_map(fn, jobs, procs):
    if procs <= 1 or len(jobs) < 2000:
        return [fn(j) for j in jobs]
    ctx = multiprocessing.get_context("fork")
    with ctx.Pool(procs) as pool:
        return pool.map(fn, jobs, chunksize=max(50, len(jobs) // (procs * 8)))


# ----------------------------------------------------------------------------- TLC enumeration
def mc_cfg(syms, first, k, with_empty, invariants=True, rk=0):
    q = lambda xs: "{" + ", ".join('"%s"' % x for x in xs) + "}"
    return ("CONSTANTS K = %d\n Sym = %s\n First = %s\n WithEmpty = %s\n RK = %d\n Prefix <- PrefixDef\n Extra <- ExtraDef\n"
            " Routes <- RoutesDef\n RExtra <- RExtraDef\n"
            "SPECIFICATION MCSpec\nINVARIANT PrintTerminal Accounting Iterations ErrOrTree\nPROPERTY Progress\n"
            "CHECK_DEADLOCK FALSE\n") % (k, q(syms), q(first), "TRUE" if with_empty else "FALSE", rk)


def mcx_module(prefix, extra, routes=(), rextra=()):
    seq = lambda xs: "<<" + ", ".join('"%s"' % x for x in xs) + ">>"
    return ("---- MODULE MCX_MakoLexer ----\nEXTENDS MC_MakoLexer\nPrefixDef == %s\nExtraDef == {%s}\n"
            "RoutesDef == {%s}\nRExtraDef == {%s}\n====\n"
            % (seq(prefix), ", ".join(seq(x) for x in extra), ", ".join(seq(x) for x in routes), ", ".join(seq(x) for x in rextra)))


MATCHERS = ["MatchEnd", "MatchExpression", "MatchControlLine", "MatchLineComment", "MatchDocComment", "MatchTagStart",
            "MatchTagEnd", "MatchPythonBlock", "MatchPercent", "MatchContinuation", "MatchText"]


def enumerate_strings(run, name, syms, k, prefix=(), extra=(), first=None, with_empty=True, workers=None,
                      need=MATCHERS, coverage=False, routes=(), rk=0, rextra=()):
    res = run.tlc("MCX_MakoLexer", mc_cfg(syms, first or syms, k, with_empty, rk=rk), name=name, coverage=coverage,
                  workers=workers, timeout=1500,
                  extra_files={"MCX_MakoLexer.tla": mcx_module(list(prefix), [list(x) for x in extra], routes, rextra)})
    if res.violated:
        run.spec_violation(res, "TLC: %s violated in the reference lexer model (%s)" % (res.violated, name))
        raise MachineryError("reference lexer model violates its own invariant %s" % res.violated)
    for a in (need if coverage else ()):
        if res.coverage.get(a, [0, 0])[1] == 0:
            raise MachineryError("vacuous: action %s never taken in %s" % (a, name))
    by = {}
    for rec in res.json_lines():
        if not isinstance(rec, dict) or "t" not in rec:
            continue
        key = tuple(rec["t"]) if not rec.get("route") else ("@route", tuple(rec["src"]), tuple(rec["route"]))
        alts = by.setdefault(key, [])
        if rec not in alts:
            alts.append(rec)
    return res, by


def _note_evidence(run, r):
    ev = run.extra.setdefault("near_limit_module_failures", {})
    key = "%s:%s" % (r["class"], r["observed"][1])
    ev[key] = ev.get(key, 0) + 1
    if len(run.extra.setdefault("near_limit_examples", [])) < 4:
        run.extra["near_limit_examples"].append(r["text"])


def replay(run, label, by, procs, render_every=1, all_classes=False):
    jobs = []
    lead = {"o": 0, "v": 0}
    for idx, key in enumerate(sorted(k for k in by if not (k and k[0] == "@route"))):
        h = int(hashlib.sha1(("%d|%s|%s" % (run.seed, label, " ".join(key))).encode()).hexdigest()[:8], 16)
        rend = (idx % render_every) == 0
        # the class of suspicious character behind o / v rotates over the enumeration (from the seed) ...
        classes = [(h % len(O_CLASSES), (h // 64) % len(V_CLASSES))]
        if key and key[0] in lead:
            n = len(O_CLASSES) if key[0] == "o" else len(V_CLASSES)
            if len(key) <= 3:
                # ... and at the FIRST position of the text every class is used on every short string
                classes = [((c, classes[0][1]) if key[0] == "o" else (classes[0][0], c)) for c in range(n)]
            else:
                lead[key[0]] += 1          # ... and in strict rotation on the longer ones
                c = (lead[key[0]] + run.seed) % n
                classes = [(c, classes[0][1]) if key[0] == "o" else (classes[0][0], c)]
        if all_classes and ({"o", "v", "IFO", "INC"} & set(key)):
            classes = [(c, c) for c in range(max(len(O_CLASSES), len(V_CLASSES)))]
        for oc, vc in classes:
            jobs.append((list(key), by[key], h, rend, oc % len(O_CLASSES), vc % len(V_CLASSES)))
    results = _pool_map(check_string, jobs, procs)
    bad = 0
    rendered = 0
    for (syms, alts, h, _, oc, vc), (r, rn) in zip(jobs, results):
        if rn < 0:
            rn += 1000000
            run.extra["error_position_differences"] = run.extra.get("error_position_differences", 0) + 1
            if len(run.extra.setdefault("error_position_examples", [])) < 5:
                run.extra["error_position_examples"].append(" ".join(syms))
        rendered += rn
        if r is not None and r.get("evidence"):
            _note_evidence(run, r)
            r = None
        if r is not None:
            bad += 1
            r["concretisation_seed"] = h
            r["filler_classes"] = {"o": O_CLASSES[oc], "v": V_CLASSES[vc]}
            r["spec_outcomes"] = alts
            run.violation(r["sig"], "%r: expected (TLC) %s; observed %s" % (r["text"], _short(r["expected"]), _short(r["observed"])), r)
    run.traces += len(jobs)
    run.evaluations += len(jobs) + rendered
    return len(jobs), rendered, bad


def replay_routes(run, label, by, procs):
    """Sources that reach the lexer through a pre-lexing route (TLC's Transform action): the expected tree is the one of
    the TRANSFORMED text; the real code gets the source as given plus the preprocessor callables.  The form of the source
    (str / bytes / BOM / input_encoding) and the entry point rotate over the enumeration, deterministically from the seed."""
    jobs = []
    for idx, key in enumerate(sorted(k for k in by if k and k[0] == "@route")):
        _, src, ops = key
        alts = by[key]
        h = int(hashlib.sha1(("%d|%s|%s|%s" % (run.seed, label, " ".join(src), "+".join(ops))).encode()).hexdigest()[:8], 16)
        entry = (idx + run.seed) % 2 if (idx + run.seed) % 24 else 2 + (idx // 24) % 2
        route = {"src": list(src), "ops": list(ops), "form": (idx + run.seed) % len(FORMS), "entry": entry}
        jobs.append((list(alts[0]["t"]), alts, h, True, h % len(O_CLASSES), (h // 64) % len(V_CLASSES), route))
    results = _pool_map(check_string, jobs, procs)
    bad = rendered = 0
    for job, (r, rn) in zip(jobs, results):
        rendered += rn % 1000000 if rn < 0 else rn
        if r is not None and r.get("evidence"):
            _note_evidence(run, r)
            r = None
        if r is not None:
            bad += 1
            r["spec_outcomes"] = job[1]
            r["source_symbols"] = job[6]["src"]
            run.violation(r["sig"], "%r through %s: lexed text %r: expected (TLC) %s; observed %s"
                          % (r["route"]["given"], r["route"], r["text"], _short(r["expected"]), _short(r["observed"])), r)
    run.traces += len(jobs)
    run.evaluations += len(jobs) + rendered
    return len(jobs), rendered, bad


def _short(x):
    s = repr(x)
    return s if len(s) < 300 else s[:300] + "..."


# ----------------------------------------------------------------------------- V: long documents
class DocGen:
    """Seeded generator of long documents as symbol sequences: runs of arbitrary filler (incl. stray
    % # $ < \\ that form no directive) interleaved with well-formed directives at every kind of
    position (line start, mid-line, after a continuation, after CRLF, at the end of input)."""

    def __init__(self, rng, crlf_ok=True):
        self.r = rng
        self.s = []
        self.ndef = 0

    # -- position predicates on what has been emitted so far
    def line_start(self):
        return not self.s or self.s[-1] == "nl"

    def blank_line_so_far(self):
        i = len(self.s)
        while i > 0 and self.s[i - 1] != "nl":
            if self.s[i - 1] not in ("sp", "tb"):
                return False
            i -= 1
        return True

    def emit(self, *syms):
        self.s.extend(syms)

    def blanks(self, p=0.5, mx=3):
        if self.r.random() < p:
            for _ in range(self.r.randint(1, mx)):
                self.emit(self.r.choice(["sp", "sp", "tb"]))

    def to_line_start(self):
        if not self.line_start():
            if self.r.random() < 0.15 and self.s[-1] != "bs":
                self.emit("bs", "nl")       # after a continuation
            else:
                if self.s[-1] == "bs":
                    self.emit("w")
                self.emit("nl")

    def filler(self, n, inline=False):
        """n symbols of text that form no directive."""
        r = self.r
        for _ in range(n):
            ls_blank = self.blank_line_so_far()
            x = r.random()
            last = self.s[-1] if self.s else None
            if last == "nl" and x < 0.12:
                c = r.choice(["o", "v"])                 # a suspicious character directly after a newline
            elif x < 0.30:
                c = r.choice(["w", "u", "o", "w", "v"])
            elif x < 0.45:
                c = r.choice(["sp", "sp", "tb"])
            elif x < 0.55 and not inline:
                c = "nl"
            elif x < 0.58:
                c = "cr"
            elif x < 0.62 and last in ("w", "u"):
                self.emit("v", r.choice(["w", "u"]))
                continue
            else:
                c = r.choice(["pc", "hs", "dl", "lt", "bs", "gt", "sl", "rb", "lb", "pp", "ex", "dq", "sq", "lp", "rp",
                              "TX", "DC", "DF", "BK"])
            # keep it free of directives
            if c == "pc" and ls_blank:
                c = "w"
            if c == "hs" and (ls_blank or (last == "hs" and self._hs_leads())):
                c = "w"
            if c == "lb" and last == "dl":
                c = "sp"
            if c == "pc" and last == "lt":
                c = "w"
            if c == "pc" and last == "sl" and len(self.s) > 1 and self.s[-2] == "lt":
                c = "w"
            if c in ("nl", "cr") and last == "bs":
                c = "w"
            if c == "cr" and ls_blank:
                c = "w"
            if last == "cr" and c == "nl":
                pass                     # an explicit CRLF
            self.emit(c)
        if self.s and self.s[-1] == "bs":
            self.emit("w")
        if self.s and self.s[-1] == "cr":
            self.emit("w")
        if self.s and self.s[-1] == "dl":
            self.emit("w")
        if self.s and self.s[-1] == "lt":
            self.emit("w")
        if len(self.s) > 1 and self.s[-1] == "sl" and self.s[-2] == "lt":
            self.emit("w")

    def _hs_leads(self):
        # is the `#` just emitted the first non-blank of its line?
        i = len(self.s) - 1
        while i > 0 and self.s[i - 1] in ("sp", "tb"):
            i -= 1
        return i == 0 or self.s[i - 1] == "nl"

    def verbatim(self, n, avoid):
        """n arbitrary symbols (anything at all, directives included) not containing `avoid`."""
        r = self.r
        start = len(self.s)
        pool = ["w", "u", "o", "v", "sp", "tb", "nl", "pc", "hs", "dl", "lb", "rb", "lt", "gt", "sl", "bs", "pp", "ex",
                "dq", "sq", "lp", "rp", "TX", "DC", "DF", "BK", "IFT", "EIF", "DEF", "BLK", "cr"]
        for _ in range(n):
            c = r.choice(pool)
            self.emit(c)
            if self.s[-len(avoid):] == list(avoid):
                self.s[-1] = "w"
        return start

    def expression(self):
        self.emit("dl", "lb")
        ws = ["sp", "sp", "tb", "nl"]
        for _ in range(self.r.choice([0, 0, 1, 2])):
            self.emit(self.r.choice(ws))
        self.emit(self.r.choice(["w", "u", "w"]))
        for _ in range(self.r.choice([0, 0, 1, 2])):
            self.emit(self.r.choice(ws))
        self.emit("rb")

    def code(self):
        self.emit("lt", "pc")
        module = self.r.random() < 0.25
        if module:
            self.emit("ex")
        k = self.r.random()
        if k < 0.3 or module:
            self.blanks(0.8)
            if self.r.random() < 0.4:
                self.emit("nl")
                if self.r.random() < 0.5:
                    self.emit("hs", "sp", "w", "sp", "pc", "gt", "sp", "rb", "nl")     # comment hiding %>
        elif k < 0.65:
            self.emit("sp", "w", "sp")
        else:
            self.emit("nl", "sp", "sp", "w", "nl")
            if self.r.random() < 0.5:
                self.emit("sp", "sp", "w", "sp", "hs", "sp", "dq", "nl")
        self.emit("pc", "gt")

    def line_comment(self):
        self.to_line_start()
        self.blanks(0.4)
        self.emit("hs", "hs")
        n = self.r.randint(0, 8)
        pool = ["w", "u", "o", "v", "sp", "tb", "pc", "hs", "dl", "lb", "rb", "lt", "gt", "sl", "pp", "dq", "TX", "IFT", "DEF"]
        for _ in range(n):
            self.emit(self.r.choice(pool))
        self.end_line()

    def end_line(self, allow_eof=False):
        self.emit("nl")

    def percent(self):
        self.to_line_start()
        self.blanks(0.5)
        self.emit("pc", "pc")
        for _ in range(self.r.choice([0, 0, 0, 1, 2])):
            self.emit("pc")

    def doc_comment(self):
        self.emit("lt", "pc", "DC", "gt")
        self.verbatim(self.r.randint(0, 12), ("lt", "sl", "pc", "DC"))
        if self.s[-3:] == ["lt", "sl", "pc"]:
            self.emit("w")
        self.emit("lt", "sl", "pc", "DC", "gt")

    def text_tag(self):
        self.emit("lt", "pc", "TX", "gt")
        self.verbatim(self.r.randint(1, 12), ("lt", "sl", "pc", "TX"))
        if self.s[-3:] == ["lt", "sl", "pc"] or self.s[-2:] == ["lt", "sl"] or self.s[-1] == "lt":
            self.emit("w")
        self.emit("lt", "sl", "pc", "TX", "gt")

    def control(self, depth, budget, in_def):
        kw = self.r.choice(["IFT", "IFT", "IFF", "FOR"])
        self.to_line_start()
        self.blanks(0.5)
        self.emit("pc")
        self.blanks(0.6)
        self.emit(kw)
        self.blanks(0.3)
        self.emit("nl")
        # a body that emits no Python statement (only a def, an empty <% %>) makes the generated module
        # invalid (Mako's auto-`pass` rule, C03's business): always start the body with some text
        self.emit(self.r.choice(["w", "u", "sp"]))
        self.body(depth + 1, budget, in_def)
        self.to_line_start()
        self.blanks(0.5)
        self.emit("pc")
        self.blanks(0.6)
        self.emit("EIF" if kw in ("IFT", "IFF") else "EFR")
        self.blanks(0.3)
        self.end_ctl = True

    def tag(self, depth, budget, in_def):
        if self.ndef < 2 and self.r.random() < 0.5:
            self.ndef += 1
            self.emit("DEF" if self.ndef == 1 else "DE2")
            self.body(depth + 1, budget, True)
            self.emit("lt", "sl", "pc")
            self.blanks(0.2, 1)
            self.emit("DF")
            self.blanks(0.2, 1)
            self.emit("gt")
        elif not in_def:
            ln = self.s.count("nl")
            if ln == getattr(self, "blk_line", -1):      # two anonymous blocks on one line get the same name in Mako
                self.emit("nl")
                ln += 1
            self.blk_line = ln
            self.emit("BLK")
            self.body(depth + 1, budget, in_def)
            self.emit("lt", "sl", "pc", "BK", "gt")
        else:
            self.expression()

    def body(self, depth, budget, in_def):
        r = self.r
        target = len(self.s) + budget
        self.end_ctl = False
        while len(self.s) < target:
            if self.end_ctl:
                self.emit("nl")          # a control line's terminator
                self.end_ctl = False
            x = r.random()
            if 0.38 <= x < 0.84 and r.random() < 0.3 and not (0.56 <= x < 0.69):
                self.emit(r.choice(["o", "v"]))          # a suspicious character directly before an inline directive
            if x < 0.38:
                self.filler(r.randint(1, 10))
            elif x < 0.50:
                self.expression()
            elif x < 0.56:
                self.code()
            elif x < 0.63:
                self.line_comment()
            elif x < 0.69:
                self.percent()
            elif x < 0.74:
                self.doc_comment()
            elif x < 0.79:
                self.text_tag()
            elif x < 0.84:
                if self.s and self.s[-1] not in ("bs", "cr"):
                    self.emit("bs", "nl")
            elif x < 0.92 and depth < 3:
                self.control(depth, max(4, (target - len(self.s)) // 2), in_def)
            elif depth < 3:
                self.tag(depth, max(4, (target - len(self.s)) // 2), in_def)
        if self.end_ctl and depth > 0:
            self.emit("nl")
            self.end_ctl = False

    def document(self, n, first=None, last=None):
        if first:
            self.emit(first)             # a suspicious character as the very first character of the document
        self.body(0, n, False)
        if self.end_ctl:
            if last or self.r.random() < 0.5:
                self.emit("nl")          # else: the control line ends at the end of input
        elif self.r.random() < 0.3:
            self.filler(self.r.randint(1, 4))
        if last:
            if self.s[-1] in ("bs", "dl", "lt"):
                self.emit("w")
            self.emit(last)              # ... and as the very last one
        return self.s


class Tokeniser:
    """Abstraction of concrete strings of one document back to symbols (greedy, longest first)."""

    def __init__(self, m, extra=()):
        tab = {}
        for s, c in m.items():
            tab.setdefault(c, s)
        tab["\n"] = "nl"           # (in a CRLF document Expression text arrives with \r\n already folded to \n)
        for c, s in extra:
            tab[c] = s
        self.tab = sorted(tab.items(), key=lambda kv: -len(kv[0]))

    def __call__(self, text):
        out = []
        i = 0
        while i < len(text):
            for c, s in self.tab:
                if c and text.startswith(c, i):
                    out.append(s)
                    i += len(c)
                    break
            else:
                return ["?"]
        return out


def record_document(syms, seed, oc=None, vc=None, route=None):
    rng = random.Random(seed)
    route = route or {"ops": [], "form": 0, "entry": 0}
    lexed = apply_ops_syms(route["ops"], syms)       # only to map the offsets the real lexer reports back to symbols
    m = conc_map(rng, list(syms) + ["sp"] + lexed, oc, vc)
    given = cat(m, syms)
    pre = preprocessors(route["ops"], m, syms, bare=bool(seed % 2))
    text = cat(m, lexed)
    off = offsets(m, lexed)
    idx = {o: i + 1 for i, o in enumerate(off)}
    tok = Tokeniser(m, [("⟦", "X("), ("⟧", ")X")])
    cursor = []
    real = run_lexer(given, cursor, pre, route["form"])
    rec = {"syms": syms, "route": route["ops"], "cursor": cursor, "res": "ok", "nodes": [], "out": [], "ep": 0, "el": 0,
           "how": {"form": FORMS[route["form"]], "entry": ENTRIES[route["entry"]]}}

    def sym_pos(l, c):
        # (line, col) -> symbol index (0: not on a symbol boundary)
        o = -1
        start = 0
        for _ in range(l - 1):
            start = text.find("\n", start) + 1
            if start == 0:
                return 0
        o = start + c - 1
        return idx.get(o, 0)
    if real[0] == "mako":
        rec["res"] = "err"
        rec["el"] = real[2]
        rec["ep"] = sym_pos(real[2], real[3])
        rec["msg"] = real[4]
        return rec, text
    if real[0] == "exc":
        rec["res"] = "exc:" + real[1]
        return rec, text
    inv_ctl = {}
    for a in CTL:
        inv_ctl[m[a]] = a
    nodes = []
    for n in real[1]:
        k = n[0]
        if k == "endtag":
            nodes.append({"k": "endtag", "p": 0, "l": 0, "b": tok(n[1])})
            continue
        if k == "other":
            nodes.append({"k": "other", "p": 0, "l": 0, "b": []})
            continue
        d = {"k": k, "l": n[1], "p": sym_pos(n[1], n[2])}
        if k in ("text", "comment"):
            d["b"] = tok(n[3])
        elif k == "expr":
            d["b"] = tok(n[3])
            d["f"] = tok(n[4])
        elif k == "code":
            d["b"] = tok(n[4])
            d["m"] = 1 if n[3] else 0
        elif k == "ctl":
            d["b"] = [inv_ctl.get(n[5].strip(), "?")]
        elif k == "texttag":
            d["b"] = tok(n[3])
            if n[4] is not None:
                d["bl"] = n[4][0]
                d["bp"] = sym_pos(n[4][0], n[4][1])
        elif k == "tag":
            d["b"] = [{"def": "DF", "block": "BK"}.get(n[3], "?")]
        nodes.append(d)
    rec["nodes"] = nodes
    ctx = {}
    for nm in W_POOL + U_POOL:
        ctx[nm] = "⟦" + nm + "⟧"
    robs = run_render(given, ctx, pre, route["form"], route["entry"])
    if robs[0] == "ok":
        rec["out"] = tok(robs[1])
    else:
        rec["res"] = "render-" + robs[1]
        rec["msg"] = robs[-1]
    return rec, text


def _record_job(job):
    return record_document(*job)


TRACE_CFG = "SPECIFICATION TSpec\nINVARIANT TAccounting\nCHECK_DEADLOCK FALSE\n"


def validate_documents(run, ndocs, lo, hi, procs, workers):
    docs = []
    for i in range(ndocs):
        rng = random.Random("%d/doc/%d" % (run.seed, i))
        n = rng.randint(lo, hi)
        # suspicious characters: every document begins with one and most end with one; the class behind o / v
        # rotates over the documents so that every class stands at offset 0 of some document in every run
        first = ["o", "v"][i % 2]
        last = [None, "o", "v"][(i // 2) % 3]
        syms = DocGen(rng).document(n, first, last)
        # the input route rotates as well: preprocessor operations, form of the source, entry point, magic encoding comment
        ops = ([[]] + ROUTE_OPS)[(i + run.seed) % (1 + len(ROUTE_OPS))]
        if (i + run.seed) % 5 == 0 and "ins" not in ops:
            syms = ["MAGIC"] + syms
        route = {"ops": ops, "form": (i // 3 + run.seed) % len(FORMS), "entry": (i // 2 + run.seed) % len(ENTRIES)}
        docs.append((syms, rng.randrange(1 << 30), (i // 2 + run.seed) % len(O_CLASSES), (i // 2 + run.seed) % len(V_CLASSES), route))
    recs = _pool_map(_record_job, docs, procs if ndocs >= 2000 else 1) if False else [_record_job(d) for d in docs]
    traces = []
    texts = {}
    for i, (rec, text) in enumerate(recs):
        rec["id"] = i + 1
        traces.append(rec)
        texts[i + 1] = text
    # negative controls: corrupt one node body / drop one output symbol / shift one position
    ncs = []
    good = [t for t in traces if t["res"] == "ok" and len(t["nodes"]) > 3 and len(t["out"]) > 3]
    if good:
        base = good[0]
        for kind in ("node-body", "output", "position", "cursor"):
            c = json.loads(json.dumps(base))
            c["id"] = len(traces) + len(ncs) + 1
            if kind == "node-body":
                tn = [n for n in c["nodes"] if n["k"] == "text"][0]
                tn["b"] = tn["b"][:-1] if len(tn["b"]) > 1 else tn["b"] + ["w"]
            elif kind == "output":
                del c["out"][len(c["out"]) // 2]
            elif kind == "position":
                c["nodes"][2]["p"] += 1
            else:
                c["cursor"] = c["cursor"][:2] + c["cursor"][1:]
            ncs.append((kind, c))
    env_traces = traces + [c for _, c in ncs]
    res = run.tlc("Trace_MakoLexer", TRACE_CFG, name="trace-docs", workers=workers, timeout=1500,
                  env={"TRACE_FILE": "traces.json", "JAVA_TOOL_OPTIONS": "-Xss64m"},
                  extra_files={"traces.json": json.dumps(env_traces)}, expect_ok=False)
    if res.violated:
        run.spec_violation(res, "TLC: %s violated while re-lexing a recorded document" % res.violated)
        raise MachineryError("Trace_MakoLexer: invariant %s violated on a generated document" % res.violated)
    if not res.completed:
        raise MachineryError("Trace_MakoLexer did not complete:\n" + res.out[-2500:])
    verdicts = {}
    for v in res.json_lines():
        if isinstance(v, dict) and "t" in v and "clause" in v:
            verdicts.setdefault(v["t"], []).append(v)
    missing = [t["id"] for t in env_traces if t["id"] not in verdicts]
    if missing:
        raise MachineryError("trace validation: %d documents without verdict\n%s" % (len(missing), res.out[-2000:]))
    for kind, c in ncs:
        run.negative_control(not any(v["ok"] for v in verdicts[c["id"]]), "Trace_MakoLexer accepted a corrupted recording (%s)" % kind)
    bad = 0
    nsyms = 0
    for t in traces:
        nsyms += len(t["syms"])
        vs = verdicts[t["id"]]
        if any(v["ok"] for v in vs):
            continue
        bad += 1
        v = vs[0]
        feats = [f for f in SPECIAL if f in v.get("ft", [])]
        run.violation("document:%s:%s" % (feats[0] if feats else "cascade", v["clause"]),
                      "long document %d (%d symbols): Trace_MakoLexer rejects the recording at node %s, clause %s"
                      % (t["id"], len(t["syms"]), v["i"], v["clause"]),
                      {"text": texts[t["id"]], "trace": t, "verdicts": vs})
    run.traces += len(traces)
    return len(traces), nsyms, bad


# ----------------------------------------------------------------------------- the check
def check(run):
    import mako
    run.extra["mako_file"] = mako.__file__
    thorough = run.thorough
    workers = int(os.environ.get("VERIF_WORKERS", "0")) or (min(8, core.NCPU) if not thorough else core.NCPU)
    procs = min(workers, 8 if not thorough else 16)
    extra = [x.split() for x in EXTRA_STRINGS]
    stats = {}

    # 1+2: exhaustive enumeration, replayed into the real lexer
    # coverage (vacuity) on the small instance k = 3 + the hand-picked strings: every matcher must fire
    res3, by3 = enumerate_strings(run, "mc-k3-coverage", QUICK_SYMS, 3, extra=extra, workers=workers, coverage=True)
    run.extra["action_coverage"] = {a: res3.coverage.get(a, [0, 0])[1] for a in MATCHERS}
    n, rn, bad = replay(run, "k3", {k: v for k, v in by3.items() if list(k) in extra}, 1, all_classes=True)
    stats["hand-picked strings"] = {"strings": n, "rendered": rn, "disagreements": bad}
    res, by = enumerate_strings(run, "mc-k4", QUICK_SYMS, 4, workers=workers)
    kinds = set(nd["k"] for alts in by.values() for a in alts for nd in a["n"]) | set(a["e"]["why"] for alts in by.values() for a in alts)
    for need in ("text", "comment", "expr", "code", "control-line", "incomplete-close", "none", "unterminated-expr", "tag"):
        if need not in kinds:
            raise MachineryError("vacuous: no outcome of kind %r among the strings of <= 4 symbols" % need)
    n, rn, bad = replay(run, "k4", by, procs)
    stats["k<=4 over %d symbols" % len(QUICK_SYMS)] = {"strings": n, "rendered": rn, "disagreements": bad,
                                                        "states": res.distinct}
    for key in sorted(by)[:: max(1, len(by) // 5)][:5]:
        run.sample({"symbols": " ".join(key), "expected": by[key]})

    # input routes: every source of <= 3 symbols (and the hand-picked ones) through every preprocessor route, with the
    # Transform action producing the text that Accounting speaks about
    rk = 4 if thorough else 3
    resr, byr = enumerate_strings(run, "mc-routes", ROUTE_SYMS, 1, first=["w"], workers=workers, routes=ROUTE_OPS, rk=rk,
                                  rextra=[x.split() for x in ROUTE_EXTRA])
    if not any(a["ft"] and "coding-comment" in a["ft"] for k, alts in byr.items() if k and k[0] == "@route" for a in alts):
        raise MachineryError("vacuous: the magic encoding comment is never stepped over in the route instance")
    if not any(len(a["t"]) > len(k[1]) and len(a["n"]) >= 2 for k, alts in byr.items() if k and k[0] == "@route" for a in alts):
        raise MachineryError("vacuous: no route lengthens a source with several nodes")
    n, rn, bad = replay_routes(run, "routes", byr, procs)
    stats["input routes: sources <= %d symbols x %d preprocessor routes" % (rk, len(ROUTE_OPS))] = {
        "sources x routes": n, "rendered": rn, "disagreements": bad, "states": resr.distinct}

    # negative controls of the comparer: a corrupted expected outcome must be rejected
    nc = 0
    for key in sorted(by):
        alts = by[key]
        if len(alts) == 1 and alts[0]["e"]["why"] == "none" and len(alts[0]["n"]) >= 2 and alts[0]["n"][0]["k"] == "text":
            if check_string((list(key), alts, 1, True))[0] is not None:
                continue               # only a string on which code and model agree can serve as a control
            c = json.loads(json.dumps(alts))
            c[0]["n"][0]["b"] = c[0]["n"][0]["b"] + ["w"]
            r, _ = check_string((list(key), c, 1, False))
            run.negative_control(r is not None, "comparer accepted a corrupted node body")
            c = json.loads(json.dumps(alts))
            c[0]["n"][1]["p"] = c[0]["n"][1]["p"] + 1 if c[0]["n"][1]["p"] < len(key) else c[0]["n"][1]["p"] - 1
            r, _ = check_string((list(key), c, 1, False))
            run.negative_control(r is not None, "comparer accepted a shifted node position")
            nc += 1
            if nc >= 3:
                break
    for key in sorted(by):
        alts = by[key]
        if len(alts) == 1 and alts[0]["e"]["why"] == "none" and not alts[0]["ft"] and all(x["k"] == "text" for x in alts[0]["n"]) and alts[0]["n"]:
            if check_string((list(key), alts, 1, True))[0] is not None:
                continue
            c = json.loads(json.dumps(alts))
            c[0]["o"] = c[0]["o"] + ["w"]
            r, _ = check_string((list(key), c, 1, True))
            run.negative_control(r is not None and r["stage"] == "render", "render comparer accepted a corrupted expected output")
            c = json.loads(json.dumps(alts))
            c[0] = {"t": c[0]["t"], "n": [], "o": [], "ft": [], "e": {"why": "control-line", "p": 1, "l": 1, "d": True}}
            r, _ = check_string((list(key), c, 1, False))
            run.negative_control(r is not None, "comparer accepted an error outcome for a string that lexes")
            break

    if thorough:
        # k = 5 over the 16 symbols, one TLC start per first symbol (bounds the size of TLC's output)
        tot = [0, 0, 0, 0]
        for f in BASE_SYMS:
            res, by = enumerate_strings(run, "mc-k5-" + f, BASE_SYMS, 5, first=[f], with_empty=False, workers=workers)
            by = {k: v for k, v in by.items() if len(k) == 5}
            n, rn, bad = replay(run, "k5", by, procs, render_every=5)
            tot = [tot[0] + n, tot[1] + rn, tot[2] + bad, tot[3] + res.distinct]
        stats["k=5 over %d symbols" % len(BASE_SYMS)] = {"strings": tot[0], "rendered": tot[1], "disagreements": tot[2], "states": tot[3]}
        # k <= 4 over 20 symbols (adds non-ASCII words, |, ", !)
        res, by = enumerate_strings(run, "mc-k4-20", THOROUGH_SYMS, 4, workers=workers)
        by = {k: v for k, v in by.items() if set(k) - set(QUICK_SYMS)}
        n, rn, bad = replay(run, "k4-20", by, procs, render_every=2)
        stats["k<=4 over %d symbols" % len(THOROUGH_SYMS)] = {"strings": n, "rendered": rn, "disagreements": bad, "states": res.distinct}
        # the hot sub-alphabet: k = 6 everywhere, k = 7 behind a leading % or #
        tot = [0, 0, 0, 0]
        for kk, firsts in ((6, [[x] for x in HOT_SYMS]), (7, [["pc"], ["hs"]])):
            for f in firsts:
                res, by = enumerate_strings(run, "mc-hot%d-%s" % (kk, f[0]), HOT_SYMS, kk, first=f, with_empty=False, workers=workers)
                by = {k: v for k, v in by.items() if len(k) == kk}
                n, rn, bad = replay(run, "hot%d" % kk, by, procs, render_every=5)
                tot = [tot[0] + n, tot[1] + rn, tot[2] + bad, tot[3] + res.distinct]
        stats["k=6 over the hot sub-alphabet, k=7 behind % or #"] = {"strings": tot[0], "rendered": tot[1], "disagreements": tot[2], "states": tot[3]}
    else:
        res, by = enumerate_strings(run, "mc-hot5", HOT_SYMS, 5, with_empty=False, workers=workers)
        by = {k: v for k, v in by.items() if len(k) == 5}
        n, rn, bad = replay(run, "hot5", by, procs)
        stats["k=5 over the hot sub-alphabet"] = {"strings": n, "rendered": rn, "disagreements": bad, "states": res.distinct}

    # ${ } bodies: every string of <= k symbols over the expression alphabet after `${`
    kx = 5 if thorough else 4
    res, by = enumerate_strings(run, "mc-expr", EXPR_SYMS, kx, prefix=("dl", "lb"), workers=workers,
                                need=["MatchEnd", "MatchExpression", "MatchText"])
    n, rn, bad = replay(run, "expr", by, procs)
    stats["${ + k<=%d over the expression alphabet" % kx] = {"strings": n, "rendered": rn, "disagreements": bad, "states": res.distinct}

    # 3: long documents
    nd, lo, hi = (600, 200, 2000) if thorough else (100, 200, 1200)
    ndocs, nsyms, bad = validate_documents(run, nd, lo, hi, procs, workers)
    stats["long documents"] = {"documents": ndocs, "symbols": nsyms, "rejected": bad}
    run.extra["parts"] = stats
    sigs = {}
    for v in run.violations:
        sigs[v["signature"]] = sigs.get(v["signature"], 0) + 1
    run.extra["violation_signatures"] = sigs
    run.assumptions.append("text is a sequence of symbols; filler words / non-ASCII / LF-vs-CRLF are chosen per string from the seed")
    run.assumptions.append("CPython's parser judges whether an expression's text is valid Python; <% %> bodies are compared modulo white space (C19)")
    run.assumptions.append("the time-polynomial clause is not checked")
    run.assumptions.append("input routes: preprocessor operations id/del/ins/exp (and pairs), str / utf-8 bytes / BOM / utf-16 with "
                           "input_encoding, magic coding comment, Lexer / Template / TemplateLookup.put_string / file entry points")
    return {"rule": "TLC enumerates all strings <= k symbols (Accounting, Progress, Iterations, ErrOrTree in every state) and prints every "
                    "acceptable outcome; each string is concretised and run through the real Lexer and Template.render_unicode and compared "
                    "on the normal form; long generated documents are recorded from the real code and re-lexed by Trace_MakoLexer",
            "exhaustive": True}
