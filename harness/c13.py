"""C13 -- an exception at any point leaves the render state consistent.

Specification: spec/Render.tla with raise points: `raiseAt = k` makes the k-th executed mark raise (marks stand
at statement positions, inside argument evaluation, inside filter functions and inside decorators); the
exceptional exit protocol of every frame kind (action Unwind) is the `finally:` part the code generator emits
for it; handlers are `% try` frames at any ancestor level, an include_error_handler returning True (inc frames),
an error_handler returning True, format_exceptions, or the caller of render_context.  Direction R:

 1. Seeded programs (defs buffered/filtered/decorated, captures, calls with content, loops, `with`, includes)
    and, for each, handler-position variants: the statement holding a chosen mark wrapped in a `% try` at every
    lexical ancestor level, error_handler on the template, format_exceptions, nothing (caller catches).
 2. TLC executes every (program, raise point), checking RestoredAtHandler, BufferRestored, CallerRestored,
    LoopRevert, PartialDiscarded, StackDiscipline, Balanced, Propagates in every state, and prints the expected
    output / observations / result / final stack state per terminal state.
 3. Each (program, raise point) is rendered through render_context on a harness-owned Context; compared are the
    output tokens after the handled exception, the per-mark stack observations, the exception object reaching
    the caller (identity), the stack depths and a Context.write() after the failed render_context, and a second
    render of the same Template without a raise (must equal TLC's fault-free expectation).
"""
import copy

from . import render_common as rc
from .core import MachineryError

NEED = ("ExecMark", "ExecCall", "ExecCapture", "ExecCallContent", "ExecCallerBody", "ExecInclude", "ExecNextBody", "ExecTextFilter", "ExecFor", "ExecTry",
        "ExecWith", "Unwind", "Return", "BreakCont")


def _chains(stmts, target, chain):
    """lexical chain [(suite, index), ...] from the function's outermost suite down to the mark `target`."""
    for i, s in enumerate(stmts):
        here = chain + [(stmts, i)]
        if s["k"] == "mark" and s["m"] == target:
            return here
        subs = []
        if s["k"] == "if":
            subs += [a["a"] for a in s["arms"]]
        for key in ("a", "h", "els"):
            if isinstance(s.get(key), list):
                subs.append(s[key])
        for sub in subs:
            r = _chains(sub, target, here)
            if r:
                return r
    return None


def handler_variants(p, rng, ids):
    """p plus variants with a `% try` around the statement holding a chosen mark, one per ancestor level,
    plus error_handler / format_exceptions variants."""
    out = [p]
    marks = []
    rc.walk(p["body"], lambda s, path: marks.append(s["m"]) if s["k"] == "mark" and not s.get("arg") and "callc" not in path and "expr" not in path else None)
    for key in p["top"]:
        rc.walk(p["defs"][key]["body"], lambda s, path: marks.append((key, s["m"])) if s["k"] == "mark" and not s.get("arg") and "callc" not in path and "expr" not in path else None)
    rng.shuffle(marks)
    for mk in marks[:1]:
        q0 = copy.deepcopy(p)
        if isinstance(mk, tuple):
            root, target = q0["defs"][mk[0]]["body"], mk[1]
        else:
            root, target = q0["body"], mk
        ch = _chains(root, target, [])
        if not ch:
            continue
        for lvl in range(len(ch)):
            q = copy.deepcopy(q0)
            root2 = q["defs"][mk[0]]["body"] if isinstance(mk, tuple) else q["body"]
            ch2 = _chains(root2, target, [])
            suite, i = ch2[lvl]
            st = suite[i]
            if st["k"] in ("brk", "cont", "ret"):
                continue
            suite[i] = dict(k="try", a=[st], h=[dict(k="text", t="h%d" % next(ids)), dict(k="mark", m=next(ids), rl=False, w="s")])
            out.append(q)
    # the handler's outcome: handles, declines (the original object must propagate), raises something else
    for mode in ("true", "false", "raise"):
        if mode == "true" or rng.random() < .6:
            q = copy.deepcopy(p)
            q["eh"], q["fe"] = mode, False
            out.append(q)
    if rc.XB[p.get("xc", "boom")] and rng.random() < .5:
        q = copy.deepcopy(p)
        q["eh"], q["fe"] = "none", True
        out.append(q)
    return out


def fe_ordinary_loop_family():
    """format_exceptions with enable_loop=False and a context variable named `loop` (an ordinary name then)."""
    body = [dict(k="text", t="t1"), dict(k="mark", m=2, rl=True, w="s"), dict(k="text", t="t3")]
    return [dict(defs={}, incs=[], body=body, eh="none", fe=True, top=[], el="off", xc="boom", route=route)
            for route in ("context", "unicode")]


def sig_fe_loop(p, x):
    return "format-exceptions-with-ordinary-loop-variable:%s" % (x["got"]["res"] if x["clause"] == "res" else x["clause"])


def check(run):
    thorough = run.thorough
    maxraise = 12 if not thorough else 16
    prof = rc.profile(w=dict(expr=5, callc=4, block=2, inc=3, text=3, mark=5, ret=1, **{"try": 1, "for": 2, "with": 2, "while": 1, "if": 1}),
                      nincs=(0, 2), depth=3, p_fm=0.8, p_dm=0.8, p_amark=0.5, eh=0.0, fe=0.0, p_bad_args=0.03, p_cmark=0.4,
                      eh_modes=["true", "false", "raise"], ieh_modes=["true", "true", "false", "raise"], xcs=["boom", "boom", "abort", "sysexit", "kbint", "stopiter"], p_inh=0.25, p_lk=0.3, npy=(0, 2), routes=["context", "context", "unicode", "render", "render"],
                      oes=[None, None, "utf-8", "ascii", "latin-1"], ees=["strict", "strict", "replace", "htmlentityreplace"],
                      msgs=["ascii", "latin1", "nonlatin", "nonbmp"], p_nasrc=0.3)
    g = rc.Gen(run.rng, prof)
    n_base = 85 if not thorough else 800
    import itertools
    progs = []
    for _ in range(n_base):
        base = g.gen_prog()
        progs += handler_variants(base, run.rng, itertools.count(5000))
    # random programs with their own % try placement, includes with/without include_error_handler
    prof2 = rc.profile(w=dict(expr=5, callc=4, block=2, inc=3, **{"try": 4, "for": 2, "with": 2}), nincs=(1, 2), depth=3,
                       eh=0.35, fe=0.2, p_fm=0.8, p_dm=0.8, p_amark=0.5, p_cmark=0.4,
                       eh_modes=["true", "false", "raise"], ieh_modes=["true", "true", "false", "raise"], xcs=["boom", "boom", "abort", "sysexit", "kbint", "stopiter"], p_inh=0.25, p_lk=0.3, npy=(0, 2), routes=["context", "context", "unicode", "render", "render"],
                      oes=[None, None, "utf-8", "ascii", "latin-1"], ees=["strict", "strict", "replace", "htmlentityreplace"],
                      msgs=["ascii", "latin1", "nonlatin", "nonbmp"], p_nasrc=0.3)
    g2 = rc.Gen(run.rng, prof2)
    progs += [g2.gen_prog() for _ in range(150 if not thorough else 1600)]
    run.extra["programs"] = len(progs)
    for i in range(0, len(progs), 300):
        rc.check_batch(run, progs[i:i + 300], maxraise, "raise-%d" % (i // 300), coverage=True)
    rc.check_batch(run, fe_ordinary_loop_family(), 2, "format-exceptions-loop-variable", signature_of=sig_fe_loop)
    acts = run.extra.get("action_coverage", {})
    for a in NEED:
        if not acts.get(a):
            raise MachineryError("vacuous: action %s of Render.tla never taken (%s)" % (a, acts))
    run.assumptions += [
        "the planted exception (an Exception subclass, a BaseException-only class with a required constructor argument, SystemExit(3), KeyboardInterrupt or StopIteration) is raised by a context-supplied marker at its k-th invocation; % except names exactly that class",
        "error_handler / include_error_handler (on the Template or on the TemplateLookup) return True, return a false value, or raise a different exception; the caller of render / render_unicode / render_context must receive the very object (identity, args, code/payload)",
        "inheritance is one base template whose body renders the child through next.body(); named blocks across the chain (C06) and cached sections (C17) are not generated; format_exceptions only with Exception subclasses",
        "format_exceptions (output_encoding None/utf-8/ascii/latin-1 x encoding_errors strict/replace/htmlentityreplace x messages and source comments with non-ASCII, non-latin-1, non-BMP characters, on Template or TemplateLookup): an error page (bytes or str per entry, in utf-8 or the configured charset) naming the exception class and carrying its message after entity unescaping; never a secondary exception",
    ]
    return {"rule": "TLC executes Render.tla for every (program, raise point) with RestoredAtHandler / PartialDiscarded / "
                    "StackDiscipline / Balanced checked in every state; the real template is rendered through render_context for "
                    "the same raise point and output tokens after the handler, per-mark stack observations, exception identity, "
                    "final stack depths, Context.write() after the failure and a second fault-free render are compared. A case is "
                    "one (program with handler placement, raise point).",
            "exhaustive": False}
