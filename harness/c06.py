"""C06 -- inheritance chains: self/next/parent/local dispatch, blocks render once, body() args,
dynamic inherit, compile-time rejection of duplicate / misplaced named blocks.

Specification: spec/Inherit.tla (design model + invariants), spec/MC_Inherit.tla (bounded
enumeration + Emit), spec/Trace_Inherit.tla (trace validation), spec/MC_InheritCompile.tla
(compile-time clause).

 1. TLC enumerates every configuration of four families (dispatch / blocks / args / dyn) up to the
    bound, links the namespaces step by step as mako.runtime does, interprets the scripts, checks
    SelfMostDerived, NextParentAdjacent, LocalIsOwn, BaseBodyRuns, BlockOnce, AnonInPlace, BodyArgs,
    MemoSound and prints the expected token sequence of every configuration.
 2. R: every configuration is written as real templates (ops -> template text; put_string lookup and
    file-backed lookup), rendered from the most derived template, and the tokens in the output are
    compared with TLC's.  Nothing about *what* is expected is computed in Python.
 3. Compile-time clause: TLC enumerates template shapes with their verdict (MC_InheritCompile);
    each is compiled by the real Template and the exception class compared.
 4. V: seeded random chains (longer, richer scripts) are rendered, the recorded tokens are judged by
    Trace_Inherit.tla (which also evaluates the invariants on those configurations).
"""
import hashlib
import json
import multiprocessing
import os
import re
import signal

from . import core
from .core import MachineryError

TOK = re.compile(r"\{([^{}]*)\}")


# --------------------------------------------------------------------------- concretisation
def _ops(seq):
    """ops as dicts; TLC prints them as 'op|via|name', the random generator uses dicts."""
    out = []
    for o in seq:
        if isinstance(o, str):
            a, b, c = o.split("|")
            o = {"op": a, "via": b, "name": c}
        out.append(o)
    return out


def _guard(k, n, lvl, body, x=0, style=0):
    call = "g(context, %r, %r, %d, lambda: %s, %d)" % (k, n, lvl, body, x)
    return ("<%% %s %%>" % call) if style % 2 == 0 else ("${%s}" % call)


# Member names are opaque in Inherit.tla (f, a, b, c); the concretiser writes them in one of these classes
# (cfgd["nc"], rotated over the configurations so that every family meets every class in every run).
# Names equal to Namespace attributes/methods (uri, body, template, ...) are not used: what wins there is not documented.
NAME_CLASSES = [
    {"f": "f", "a": "a", "b": "b", "c": "c", "probe": "probe"},                                  # ordinary
    {"f": "_f", "a": "_a", "b": "_b", "c": "_c", "probe": "_probe"},                              # leading underscore
    {"f": "__f", "a": "__a", "b": "__b", "c": "__c", "probe": "__probe"},                          # double leading underscore
    {"f": "print", "a": "type", "b": "id", "c": "input", "probe": "vars"},                      # legal identifiers that are builtins
    {"f": "fooBar", "a": "attrVal", "b": "mainBlock", "c": "Inner_Block2", "probe": "probeIt"},    # mixed case
]


def cn(cfgd, name):
    return NAME_CLASSES[cfgd.get("nc", 0) % len(NAME_CLASSES)][name]


def script_text(cfgd, i, ops, style):
    """Template text of one script of template i (1-based); named blocks are written at their
    `here` position."""
    t = cfgd["tpl"][i - 1]
    pa = cfgd["pa"]
    parts = []
    for o in _ops(ops):
        op, via, name = o["op"], o["via"], o["name"]
        if op == "open":
            parts.append("{open||%d|${x}}" % i if pa else "{open||%d|-1}" % i)
        elif op == "close":
            parts.append("{close||%d|0}" % i)
        elif op == "anon":
            # on a line of its own: two anonymous blocks opened on one source line collide (finding, see the
            # compile-time clause where that layout is exercised on purpose)
            parts.append("\n<%%block>{anon||%d|0}</%%block>\n" % i)
        elif op == "emit":
            parts.append("{%s|%s|%d|0}" % (via, name, i))
        elif op == "call":
            parts.append(_guard("call", "%s.%s" % (via, name), i, "%s.%s()" % (via, cn(cfgd, name)), 0, style))
        elif op == "attr":
            parts.append(_guard("attr", via, i, "context.write('{val||%%d|%%d}' %% av(%s.attr.%s))" % (via, cn(cfgd, name)), 0, style))
        elif op == "here":
            inner = script_text(cfgd, i, t["bs"] if name == "b" else t["cs"], style)
            parts.append('<%%block name="%s">%s</%%block>' % (cn(cfgd, name), inner))
        elif op == "body":
            if pa:
                v = 10 * i + 1
                parts.append(_guard("call", via + ".body", i, "%s.body(x=%d)" % (via, v), v, style))
            else:
                parts.append(_guard("call", via + ".body", i, "%s.body()" % via, -1, style))
        else:
            raise MachineryError("unknown op %r" % (o,))
    sep = ["", "\n", " ", "\n\n"][(style // 2) % 4]
    return sep.join(parts)


def template_texts(cfgd, style, uri_of):
    """-> ({template id: text}, {template id: uri}); names are content hashes so that equal templates
    are shared between configurations (a namespace chain is built per render, templates are
    immutable)."""
    n = cfgd["N"]
    texts, uris = {}, {}
    placed = uses_dirs(cfgd)
    fnames = {}
    for i in [n + 1] + list(range(1, n + 1)):
        t = cfgd["tpl"][i - 1]
        head = []
        if placed:
            # templates live in directories; the target is written as the configuration says: absolute, or relative to the
            # directory of the template that writes the <%inherit> (pre1/pre2: the segments before the file name)
            def written(pre, j, t=t):
                return ("/" if t["abs"] else "") + "/".join(list(pre) + [fnames[j]])
            sib1 = written(t["pre1"], t["p1"]) if t["p1"] else None
            sib2 = written(t["pre2"], t["p2"]) if t["p2"] else None
        else:
            sib1 = uris[t["p1"]][1] if t["p1"] else None
            sib2 = uris[t["p2"]][1] if t["p2"] else None
        if cfgd["pa"]:
            head.append('<%page args="x=-1"/>')
        if t["inh"] == "static":
            head.append('<%%inherit file="%s"/>' % sib1)
        elif t["inh"] == "dyn":
            # decided at render time: the template below, the alternative base, or None ("do not inherit")
            c1, c2 = sib1, sib2
            head.append('<%%inherit file="${%r if context[\'sw\'] == \'p1\' else (%r if context[\'sw\'] == \'p2\' else None)}"/>' % (c1, c2))
        if t["a"] == "truthy":
            head.append("<%%! %s = %d %%>" % (cn(cfgd, "a"), i))
        elif t["a"] == "falsy":      # a different falsy value per level
            head.append("<%%! %s = %s %%>" % (cn(cfgd, "a"), FALSY[(i - 1) % len(FALSY)]))
        if t["f"]:
            head.append('<%%def name="%s()">%s</%%def>' % (cn(cfgd, "f"), script_text(cfgd, i, t["fs"], style)))
        # def probe is written in every template: the same Template objects serve whole renders and get_def() requests
        head.append('<%%def name="%s()">%s</%%def>' % (cn(cfgd, "probe"), script_text(cfgd, i, t["ps"], style)))
        text = "\n".join(head) + ("\n" if head else "") + script_text(cfgd, i, t["body"], style + i) + "\n"
        # (placed templates: the directory is part of the name, so that a decoy -- same name, other directory -- can never
        #  coincide with a real template of another configuration sharing this worker's tree)
        h = hashlib.sha1((text + ("|dir:" + "/".join(t["dir"]) if placed else "")).encode()).hexdigest()[:16]
        texts[i] = text
        uris[i] = uri_of(h, style + i)
        if placed:
            fnames[i] = uris[i][0].lstrip("/")
            uris[i] = ("/" + "/".join(list(t["dir"]) + [fnames[i]]), None)
    if placed:
        # decoys: a template of the same file name beside every other level (in particular beside the leaf); it must never
        # become part of the chain
        dirs = {tuple(t["dir"]) for t in cfgd["tpl"]}
        for j in list(fnames):
            for d in sorted(dirs - {tuple(cfgd["tpl"][j - 1]["dir"])}):
                key = "decoy-%d-%s" % (j, "/".join(d))
                texts[key] = ('<%%! %s = %d %%><%%def name="%s()">{f||%d|0}</%%def>{open||%d|-1}${next.body()}{close||%d|0}\n'
                              % (cn(cfgd, "a"), 90 + j, cn(cfgd, "f"), 90 + j, 90 + j, 90 + j))
                uris[key] = ("/" + "/".join(list(d) + [fnames[j]]), None)
    return texts, uris


def uses_dirs(cfgd):
    return any(t.get("dir") or not t.get("abs", True) for t in cfgd["tpl"])


def needs_files(cfgd):
    """relative spellings with . or .. only mean something on a file-backed lookup (put_string keys are opaque)"""
    return any(s in (".", "..") for t in cfgd["tpl"] for s in list(t.get("pre1", [])) + list(t.get("pre2", [])))


FALSY = ["0", '""', "False", "None", "[]", "{}", "0.0", "()"]


def av(v):
    """attribute value -> (level that defined it, truthiness), for the val token"""
    if v:
        return (int(v), 1)
    return (FALSY.index(repr(v).replace("'", '"')) + 1, 0)


class _Alarm(Exception):
    pass


def _on_alarm(sig, frm):
    raise _Alarm()


_W = {}


def _worker_init(scratch):
    _W["scratch"] = scratch
    _W["pid"] = os.getpid()
    _W.pop("lk", None)
    _W.pop("flk", None)


def _lookups():
    from mako.lookup import TemplateLookup
    if "lk" not in _W:
        _W["lk"] = TemplateLookup()
        d = os.path.join(_W["scratch"], "files-%d" % os.getpid())
        os.makedirs(d, exist_ok=True)
        _W["fdir"] = d
        _W["flk"] = TemplateLookup(directories=[d])
        _W["have"] = set()
    return _W["lk"], _W["flk"]


def render_cfg(cfgd, style, backed):
    """Write the configuration as real templates and render the most derived one.  Returns the list
    of tokens 'k|n|l|x' found in the output (plus a final EXC token if the render raised)."""
    from mako.runtime import Context
    from mako.util import FastEncodingBuffer
    lk, flk = _lookups()
    if needs_files(cfgd):
        backed = True
    if backed:
        # (own uri = key handed to get_template, uri as spelled in an <%inherit> of a sibling)
        def uri_of(h, st):
            return ("/t_%s.html" % h, ("/t_%s.html" if st % 3 else "t_%s.html") % h)
    else:
        def uri_of(h, st):
            return ("t_%s" % h, "t_%s" % h)
    toks = []
    try:
        texts, uris = template_texts(cfgd, style, uri_of)
        for i, text in texts.items():
            key = (backed, uris[i][0])
            if key in _W["have"]:
                continue
            if backed:
                pth = os.path.join(_W["fdir"], uris[i][0].lstrip("/"))
                os.makedirs(os.path.dirname(pth), exist_ok=True)
                with open(pth, "w") as f:
                    f.write(text)
            else:
                lk.put_string(uris[i][0], text)
            _W["have"].add(key)

        def g(context, k, n, lvl, fn, x=0):
            context.write("{%s|%s|%d|%d}" % (k, n, lvl, x))
            try:
                fn()
            except _Alarm:
                raise
            except Exception:
                context.write("{ERR||0|0}")
            return ""
        buf = FastEncodingBuffer()
        kw = dict(g=g, av=av, sw=cfgd["sw"])
        signal.signal(signal.SIGALRM, _on_alarm)
        signal.setitimer(signal.ITIMER_REAL, core.tscale(10))
        try:
            # the request: on template `top`, whole template or its def probe (Template.get_def), through
            # render_context / render / render_unicode, on a Template fetched now or one held from an earlier request
            top = uris[cfgd.get("top", cfgd["N"])][0]
            held = _W.setdefault("held", {})
            if style % 2 and (backed, top) in held:
                tmpl = held[(backed, top)]
            else:
                tmpl = held[(backed, top)] = (flk if backed else lk).get_template(top)
            target = tmpl.get_def(cn(cfgd, "probe")) if cfgd.get("entry", "render") == "def" else tmpl
            how = (style // 2) % 3
            if how == 0:
                target.render_context(Context(buf, **kw))
            else:
                r = target.render(**kw) if how == 1 else target.render_unicode(**kw)
                buf.write(r.decode() if isinstance(r, bytes) else r)
        finally:
            signal.setitimer(signal.ITIMER_REAL, 0)
        toks = TOK.findall(buf.getvalue())
    except BaseException as e:  # noqa -- total against mutated code: an exception is an observation
        if isinstance(e, (KeyboardInterrupt, SystemExit)):
            raise
        try:
            toks = TOK.findall(buf.getvalue())
        except Exception:
            toks = []
        toks.append("EXC|%s|0|0" % ("Timeout" if isinstance(e, _Alarm) else type(e).__name__))
    return toks


def _render_batch(args):
    items, style = args
    return [(idx, backed, render_cfg(dict(cfgd, nc=idx + style), style + idx % 7, backed)) for (idx, cfgd, backed) in items]


def _compile_shape(args):
    """Compile one template shape; -> 'rejected' (CompileException), 'ok', or 'exc:Type'."""
    shapes = args
    from mako import exceptions
    from mako.template import Template
    res = []
    for idx, (shape, layout) in shapes:
        text = shape_text(shape, layout)
        try:
            signal.signal(signal.SIGALRM, _on_alarm)
            signal.setitimer(signal.ITIMER_REAL, core.tscale(10))
            try:
                Template(text)
            finally:
                signal.setitimer(signal.ITIMER_REAL, 0)
            res.append((idx, "ok", text))
        except exceptions.CompileException:
            res.append((idx, "rejected", text))
        except BaseException as e:  # noqa
            if isinstance(e, (KeyboardInterrupt, SystemExit)):
                raise
            res.append((idx, "exc:" + type(e).__name__, text))
    return res


def shape_text(shape, layout="lines"):
    nl = "\n" if layout == "lines" else ""
    parts = ['<%def name="f()">F${caller.body() if caller else ""}</%def>']
    for k, item in enumerate(shape):
        inner = '<%%block name="%s">[%s]</%%block>' % (item["name"], item["name"])
        for depth, cont in reversed(list(enumerate(item["path"]))):
            if cont == "def":
                inner = '<%%def name="d%d_%d()">%s</%%def>${d%d_%d()}' % (k, depth, inner, k, depth)
            elif cont == "call":
                inner = '<%%call expr="f()">%s</%%call>' % inner
            elif cont == "anon":
                inner = "<%%block>%s%s</%%block>" % (nl, inner)
            elif cont == "blk":
                inner = '<%%block name="w%d_%d">%s</%%block>' % (k, depth, inner)
        parts.append(inner)
    return ("\n" if layout == "lines" else " ").join(parts) + "\n"


# --------------------------------------------------------------------------- random configurations (V)
def random_cfg(rng, n):
    """A random chain of n levels (+ the alternative base n+1) with random scripts, in the format of
    Inherit.tla's trace configuration."""
    def op(o, v="", nm=""):
        return {"op": o, "via": v, "name": nm}
    k = rng.choice([0] + list(range(1, n + 1)))        # the level with a dynamic <%inherit>: any level, or none
    pa = rng.random() < 0.3
    # where the templates live and how the inherit targets are spelled (half of the chains: one directory, absolute)
    all_dirs = [[], ["a", "b"], ["x"], ["a"]]
    if rng.random() < 0.5:
        placed_dirs, spells = [[]] * (n + 1), ["abs"] * (n + 1)
    else:
        placed_dirs = [rng.choice(all_dirs) for _ in range(n + 1)]
        spells = [rng.choice(["abs", "rel", "dotrel"]) for _ in range(n + 1)]

    def pre(i, j):      # the spelled directory part of "template j as written in template i"
        if not j:
            return []
        if spells[i - 1] == "abs":
            return list(placed_dirs[j - 1])
        import posixpath
        r = posixpath.relpath("/" + "/".join(placed_dirs[j - 1]), "/" + "/".join(placed_dirs[i - 1]))
        segs = [] if r == "." else r.split("/")
        return (["."] if spells[i - 1] == "dotrel" else []) + segs
    tpls = []
    for i in range(1, n + 2):
        decoy = i == n + 1
        inh = "none" if (decoy or (i == 1 and k != 1)) else ("dyn" if i == k else "static")
        hp = inh != "none"
        hn = i != n
        b = rng.random() < 0.5
        c = rng.choice(["none", "none", "top", "inb"])
        if c == "inb" and not b:
            c = "top"
        t = {"dir": list(placed_dirs[i - 1]), "spell": spells[i - 1], "abs": spells[i - 1] == "abs",
             "f": rng.random() < 0.5, "a": rng.choice(["none", "falsy", "truthy"]), "b": b, "c": c, "inh": inh,
             "p1": 0 if inh == "none" or i == 1 else i - 1, "p2": n + 1 if inh == "dyn" else 0}
        vias = ["self", "local"] + (["next"] if hn else []) + (["parent"] if hp else [])
        mid = []
        for _ in range(rng.randrange(2, 6)):
            mid.append(op("call", rng.choice(vias), rng.choice(["f", "f", "b", "c"])))
        for _ in range(rng.randrange(0, 3)):
            mid.append(op("attr", rng.choice(vias), "a"))
        for _ in range(rng.randrange(0, 3)):
            mid.append(op("anon"))
        if b:
            mid.append(op("here", "", "b"))
        if c == "top":
            mid.append(op("here", "", "c"))
        if hn and rng.random() < 0.85:
            mid.append(op("body", "next" if rng.random() < 0.75 else "self"))
        rng.shuffle(mid)
        t["pre1"], t["pre2"] = pre(i, t["p1"]), pre(i, t["p2"])
        t["body"] = [op("open")] + mid + [op("close")]
        t["fs"] = [op("emit", "f")] + ([op("call", "parent", "f")] if hp and rng.random() < 0.6 else []) \
            + ([op("attr", rng.choice(vias), "a")] if rng.random() < 0.3 else [])
        bs = []
        if hp and rng.random() < 0.6:
            bs.append(op("call", "parent", "b"))
        if c == "inb":
            bs.append(op("here", "", "c"))
        if rng.random() < 0.3:
            bs.append(op("call", rng.choice(vias), "f"))
        rng.shuffle(bs)
        t["bs"] = [op("emit", "B", "b")] + bs + [op("emit", "/B", "b")]
        ps = [op("call", v, rng.choice(["f", "b", "c"])) for v in ("self", "local", "parent", "next") if rng.random() < 0.8] \
            + [op("attr", v, "a") for v in ("self", "local", "parent", "next") if rng.random() < 0.5]
        rng.shuffle(ps)
        t["ps"] = [op("emit", "probe")] + ps
        t["cs"] = [op("emit", "B", "c")] + ([op("call", "parent", "c")] if hp and rng.random() < 0.4 else []) + [op("emit", "/B", "c")]
        tpls.append(t)
    # the request: on any level of the chain, whole template or get_def("probe")
    top = n if rng.random() < 0.5 else rng.randrange(1, n + 1)
    for o in tpls[top - 1]["body"]:        # self.body() written in the requested template itself would recurse for ever
        if o["op"] == "body" and o["via"] == "self":
            o["via"] = "next"
    return {"fam": "trace", "N": n, "top": top, "entry": rng.choice(["render", "render", "def"]),
            "sw": rng.choice(["p1", "p2", "none"]), "pa": pa, "mode": "random", "tpl": tpls}


def tok_rec(s):
    k, n, l, x = s.split("|")
    return {"k": k, "n": n, "l": int(l), "x": int(x)}


def _safe_tok(s):
    try:
        return tok_rec(s)
    except Exception:
        return {"k": "BAD", "n": s[:30], "l": 0, "x": 0}


# --------------------------------------------------------------------------- the check
INVS = ["TypeOK", "SelfMostDerived", "NextParentAdjacent", "LocalIsOwn", "BaseBodyRuns", "MemoSound",
        "BlockOnce", "AnonInPlace", "BodyArgs", "AttrValues", "InheritRelativeToWriter"]


def mc_cfg():
    return ("CONSTANTS MaxN <- MaxNDef\n  TraceTpl <- NoTrace\nSPECIFICATION Spec\n"
            + "".join("INVARIANT %s\n" % i for i in INVS) + "INVARIANT Emit\nCHECK_DEADLOCK FALSE\n")


def bounds_module(b):
    return ("---- MODULE MC_InheritBounds ----\nMaxNDef == [dispatch |-> %d, attrs |-> %d, blocks |-> %d, args |-> %d, dyn |-> %d, entry |-> %d, dirs |-> %d]\n====\n"
            % (b["dispatch"], b["attrs"], b["blocks"], b["args"], b["dyn"], b["entry"], b["dirs"]))


def first_diff(exp, obs):
    for k in range(min(len(exp), len(obs))):
        if exp[k] != obs[k]:
            return k
    return None if len(exp) == len(obs) else min(len(exp), len(obs))


def diff_signature(prefix, exp, obs, d):
    """class of a disagreement: the op before it, what was expected, what came (levels abstracted to
    their relation)."""
    def kn(t):
        p = t.split("|")
        return p[0] + (":" + p[1] if p[1] else "")
    prev = kn(exp[d - 1]) if d and d - 1 < len(exp) else "START"
    e = exp[d] if d < len(exp) else "END|||"
    o = obs[d] if d < len(obs) else "END|||"
    rel = ""
    try:
        le, lo = int(e.split("|")[2]), int(o.split("|")[2])
        if kn(e) == kn(o) and le != lo:
            rel = ":level-" + ("lower" if lo < le else "higher")
    except Exception:
        pass
    return "%s:after(%s):expected(%s):observed(%s)%s" % (prefix, prev, kn(e), kn(o), rel)


def check(run):
    thorough = run.thorough
    workers = 8 if os.environ.get("VERIF_FULL_CPU", "1") == "1" else 4
    nproc = min(core.NCPU, 12)
    # ------------------------------------------------------------------ 1. TLC: enumerate, check, print
    bounds = {"dispatch": 5, "attrs": 5, "blocks": 5, "args": 5, "dyn": 4, "entry": 4, "dirs": 4} if thorough else {"dispatch": 4, "attrs": 4, "blocks": 4, "args": 4, "dyn": 3, "entry": 3, "dirs": 3}
    # (-coverage slows TLC down 4x on this model: action coverage is taken from a complete run with chains <= 2,
    #  the large run's own vacuity evidence is the printed terminal states, see below)
    cov = run.tlc("MC_Inherit", mc_cfg(), name="mc-inherit-cov", heap="4g", coverage=True, timeout=250, workers=4,
                  extra_files={"MC_InheritBounds.tla": bounds_module({"dispatch": 2, "attrs": 2, "blocks": 2, "args": 2, "dyn": 2, "entry": 2, "dirs": 2})})
    if cov.violated:
        run.spec_violation(cov)
        return {"rule": "TLC found the design model violating %s" % cov.violated, "exhaustive": True}
    for a in ("PopulateSelf", "InheritFrom", "RunBodyOfBase", "RunDefOfTop", "Step", "Finish"):
        if not cov.coverage.get(a, [0, 0])[1]:
            raise MachineryError("vacuous model checking: action %s never taken (%s)" % (a, cov.coverage))
    run.extra["action_coverage"] = {a: v[1] for a, v in cov.coverage.items() if a[0].isupper()}
    res = run.tlc("MC_Inherit", mc_cfg(), name="mc-inherit", heap="4g", timeout=1500 if thorough else 250,
                  workers=workers or 8, extra_files={"MC_InheritBounds.tla": bounds_module(bounds)})
    if res.violated:
        run.spec_violation(res)
        return {"rule": "TLC found the design model violating %s" % res.violated, "exhaustive": True}
    recs, seen = [], set()
    for r in res.json_lines():
        if isinstance(r, dict) and "tpl" in r and "out" in r:
            key = json.dumps(r, sort_keys=True)
            if key not in seen:
                seen.add(key)
                recs.append(r)
    if len(recs) < 300:
        raise MachineryError("TLC printed only %d configurations" % len(recs))
    recs.sort(key=lambda r: json.dumps(r, sort_keys=True))
    fams = {}
    for r in recs:
        fams[r["fam"]] = fams.get(r["fam"], 0) + 1
    run.extra["configurations"] = fams
    run.extra["bounds"] = bounds
    # vacuity of the interesting outcomes: each token kind must occur in some expectation
    kinds = set()
    for r in recs:
        kinds.update(t.split("|")[0] for t in r["out"])
    for k in ("open", "close", "call", "f", "B", "/B", "ERR", "val", "attr", "anon"):
        if k not in kinds:
            raise MachineryError("vacuous enumeration: no expected output contains a %r token" % k)

    if not any(r["fam"] == "dyn" and r["sw"] == "none" and 1 < int(r["out"][0].split("|")[2]) < r["N"] for r in recs):
        raise MachineryError("vacuous enumeration: no dynamic inherit yields None at a middle level")
    if not any(t.startswith("val|") and t.endswith("|0") for r in recs for t in r["out"]):
        raise MachineryError("vacuous enumeration: no expected output contains a falsy attribute value")
    # ------------------------------------------------------------------ 2. R: replay every configuration
    items = []
    for idx, r in enumerate(recs):
        items.append((idx, r, False))
        if thorough or (idx + run.seed) % 2 == 0 or r["fam"] == "dyn":
            items.append((idx, r, True))
    chunks = [items[k::nproc * 4] for k in range(nproc * 4)]
    chunks = [c for c in chunks if c]
    scratch = run.subdir("render")
    ctxmp = multiprocessing.get_context("fork")
    with ctxmp.Pool(nproc, initializer=_worker_init, initargs=(scratch,)) as pool:
        async_res = pool.map_async(_render_batch, [(c, run.seed) for c in chunks])
        try:
            batches = async_res.get(timeout=core.tscale(900 if thorough else 200))
        except multiprocessing.TimeoutError:
            pool.terminate()
            raise MachineryError("replay workers timed out")
        # compile-time clause, same pool
        cres = run.tlc("MC_InheritCompile",
                       "CONSTANTS MaxItems = %d MaxPath = 2\nSPECIFICATION CSpec\nINVARIANT DupBlockRejected\nINVARIANT BlockInDefRejected\n"
                       "INVARIANT OthersAccepted\nINVARIANT CEmit\nCHECK_DEADLOCK FALSE\n" % 2,
                       name="mc-compile", heap="4g", workers=4, timeout=300)
        if cres.violated:
            run.spec_violation(cres)
        shapes, sseen = [], set()
        for r in cres.json_lines():
            if isinstance(r, dict) and "shape" in r:
                key = json.dumps(r, sort_keys=True)
                if key not in sseen:
                    sseen.add(key)
                    shapes.append(r)
        shapes.sort(key=lambda r: json.dumps(r, sort_keys=True))
        if thorough:
            # three items, container paths of length <= 1, from a second TLC run
            cres3 = run.tlc("MC_InheritCompile",
                            "CONSTANTS MaxItems = 3 MaxPath = 1\nSPECIFICATION CSpec\nINVARIANT DupBlockRejected\nINVARIANT BlockInDefRejected\n"
                            "INVARIANT OthersAccepted\nINVARIANT CEmit\nCHECK_DEADLOCK FALSE\n",
                            name="mc-compile3", heap="4g", workers=4, timeout=300)
            if cres3.violated:
                run.spec_violation(cres3)
            for r in cres3.json_lines():
                if isinstance(r, dict) and "shape" in r:
                    key = json.dumps(r, sort_keys=True)
                    if key not in sseen:
                        sseen.add(key)
                        shapes.append(r)
        if len(shapes) < 1000 or not any(s["rejected"] for s in shapes) or all(s["rejected"] for s in shapes):
            raise MachineryError("compile-shape enumeration looks vacuous (%d shapes)" % len(shapes))
        sidx = list(enumerate((s["shape"], s["layout"]) for s in shapes))
        schunks = [sidx[k::nproc * 2] for k in range(nproc * 2)]
        try:
            cbatches = pool.map_async(_compile_shape, [c for c in schunks if c]).get(timeout=core.tscale(300))
        except multiprocessing.TimeoutError:
            pool.terminate()
            raise MachineryError("compile workers timed out")

    bad_classes = {}
    n_exec = 0
    for batch in batches:
        for idx, backed, obs in batch:
            n_exec += 1
            exp = recs[idx]["out"]
            d = first_diff(exp, obs)
            if d is not None:
                sig = diff_signature("R:" + recs[idx]["fam"], exp, obs, d)
                bad_classes.setdefault(sig, []).append((idx, backed, obs, d))
    run.traces += n_exec
    run.transitions += sum(len(r["out"]) for r in recs)
    # a disagreement class met under one class of member names only is a different class of failure
    labels = ["ordinary", "leading-underscore", "double-underscore", "builtin-name", "mixed-case"]
    for sig in list(bad_classes):
        ncs = {(z[0] + run.seed) % len(NAME_CLASSES) for z in bad_classes[sig]}
        if len(ncs) == 1 and len(bad_classes[sig]) >= 3:
            bad_classes[sig + ":member-names(%s)" % labels[ncs.pop()]] = bad_classes.pop(sig)
    for sig in sorted(bad_classes):
        idx, backed, obs, d = min(bad_classes[sig], key=lambda z: (recs[z[0]]["N"], len(recs[z[0]]["out"]), z[0]))
        r = recs[idx]
        texts, uris = template_texts(dict(r, nc=idx + run.seed), run.seed + idx % 7, lambda h, st: ("t_%s" % h, "t_%s" % h))
        run.violation(sig, "real render disagrees with Inherit.tla at token %d: expected %s, observed %s (%d configurations in this class)"
                      % (d, r["out"][d] if d < len(r["out"]) else "END", obs[d] if d < len(obs) else "END", len(bad_classes[sig])),
                      {"config": {k: r[k] for k in ("fam", "N", "top", "entry", "sw", "pa", "mode")}, "file_backed": backed,
                       "templates": {uris[i][0]: texts[i] for i in texts}, "render": uris[r["top"]][0] + (" .get_def(probe)" if r["entry"] == "def" else ""),
                       "expected": r["out"], "observed": obs, "first_difference": d})
    # negative controls for the comparer: one expected token corrupted / one dropped
    good = next((b for batch in batches for b in batch if first_diff(recs[b[0]]["out"], b[2]) is None), None)
    if good is None:
        if not bad_classes:
            raise MachineryError("no configuration was replayed")
    else:
        exp = list(recs[good[0]]["out"])
        k = len(exp) // 2
        p = exp[k].split("|")
        p[2] = str(int(p[2]) + 1)
        run.negative_control(first_diff(exp[:k] + ["|".join(p)] + exp[k + 1:], good[2]) is not None, "comparer accepted a corrupted level")
        run.negative_control(first_diff(exp[:k] + exp[k + 1:], good[2]) is not None, "comparer accepted a dropped token")
    for r in recs[:: max(1, len(recs) // 3)][:3]:
        run.sample({"direction": "R", "config": {k: r[k] for k in ("fam", "N", "top", "entry", "sw", "pa", "mode")},
                    "declares": [{k: t[k] for k in ("f", "a", "b", "c", "inh")} for t in r["tpl"]], "expected_tokens": r["out"][:14]})

    # compile-time clause
    cbad = {}
    n_shapes = 0
    shape_verdict_lines = {json.dumps(shapes[idx]["shape"], sort_keys=True): verdict
                           for batch in cbatches for idx, verdict, _ in batch if shapes[idx]["layout"] == "lines"}
    for batch in cbatches:
        for idx, verdict, text in batch:
            n_shapes += 1
            want = "rejected" if shapes[idx]["rejected"] else "ok"
            if verdict != want:
                sh = shapes[idx]["shape"]
                feat = sorted({c for it in sh for c in it["path"]})
                dup = len({it["name"] for it in sh}) < len(sh)
                n_anon = sum(1 for it in sh for c in it["path"] if c == "anon")
                if want == "ok" and verdict == "rejected" and shapes[idx]["layout"] == "oneline" and n_anon >= 2 \
                        and shape_verdict_lines.get(json.dumps(sh, sort_keys=True)) == "ok":
                    # the same shape with every container on its own line is accepted
                    sig = "compile:two-anonymous-blocks-on-one-line:rejected"
                else:
                    sig = "compile:expected(%s):observed(%s):containers(%s)%s:%s" % (want, verdict, ",".join(feat), ":dup" if dup else "", shapes[idx]["layout"])
                cbad.setdefault(sig, []).append((idx, verdict, text))
    run.traces += n_shapes
    run.extra["compile_shapes"] = n_shapes
    for sig in sorted(cbad):
        idx, verdict, text = min(cbad[sig], key=lambda z: (len(z[2]), z[0]))
        run.violation(sig, "template shape %s: the specification says %s, Template() gave %s (%d shapes in this class)"
                      % (json.dumps(shapes[idx]["shape"]), "rejected" if shapes[idx]["rejected"] else "accepted", verdict, len(cbad[sig])),
                      {"shape": shapes[idx]["shape"], "template": text, "observed": verdict})
    agreed = next(((idx, verdict) for batch in cbatches for idx, verdict, _ in batch
                   if verdict == ("rejected" if shapes[idx]["rejected"] else "ok")), None)
    if agreed is not None:   # flip the expected verdict of one shape: the comparer must object
        run.negative_control(agreed[1] != ("ok" if shapes[agreed[0]]["rejected"] else "rejected"), "compile comparer accepted a flipped verdict")

    # ------------------------------------------------------------------ 4. V: random chains judged by Trace_Inherit
    n_traces = 400 if thorough else 120
    lens = [5, 6, 7] if thorough else [5, 5, 6]
    _worker_init(run.subdir("render-v"))
    traces = []
    for t in range(n_traces):
        c = random_cfg(run.rng, run.rng.choice(lens))
        c["nc"] = t + run.seed
        for backed in ((False, True) if t % 4 == 0 else (t % 2 == 1,)):
            obs = render_cfg(c, run.seed + t, backed)
            traces.append({"id": len(traces) + 1, "cfg": c, "out": [_safe_tok(s) for s in obs], "backed": backed})
    # negative controls: corrupt recordings; only those whose original is accepted count (corrupting a recording of
    # misbehaving code can make it right by accident)
    ncs = []
    for base in [t for t in traces if len(t["out"]) > 8 and t["out"][-1]["k"] == "close"][:6]:
        bad = json.loads(json.dumps(base))
        bad["id"] = 10 ** 6 + 2 * base["id"]
        bad["out"][len(bad["out"]) // 2]["l"] += 1
        bad2 = json.loads(json.dumps(base))
        bad2["id"] = 10 ** 6 + 2 * base["id"] + 1
        del bad2["out"][len(bad2["out"]) // 2]
        bad["base"] = bad2["base"] = base["id"]
        ncs += [bad, bad2]
    tcfg = ("CONSTANTS MaxN <- TMaxN\n  TraceTpl <- TraceTplImpl\nSPECIFICATION TSpec\n"
            + "".join("INVARIANT %s\n" % i for i in INVS) + "CHECK_DEADLOCK FALSE\n")
    verdicts = run.validate_traces("Trace_Inherit", tcfg, traces + ncs, name="trace-inherit", workers=workers or 8, timeout=600)
    run.traces -= len(ncs)
    for nc in ncs:
        if verdicts[nc["base"]]["ok"]:
            run.negative_control(not verdicts[nc["id"]]["ok"], "Trace_Inherit accepted a corrupted token sequence (%d)" % nc["id"])
    vbad = {}
    for t in traces:
        v = verdicts[t["id"]]
        run.transitions += len(t["out"])
        if not v["ok"]:
            d = v["i"] - 1
            obs = t["out"][d] if d < len(t["out"]) else {"k": "END", "n": ""}
            kn = lambda z: z["k"] + (":" + z["n"] if z["n"] else "")  # noqa
            sig = "V:after(%s):expected(%s):observed(%s):%s" % (kn(v["prev"]), kn(v["exp"]), kn(obs), v["clause"])
            vbad.setdefault(sig, []).append((t, v))
    for sig in sorted(vbad):
        t, v = min(vbad[sig], key=lambda z: (len(z[0]["out"]), z[0]["id"]))
        texts, uris = template_texts(t["cfg"], run.seed, lambda h, st: ("t_%s" % h, "t_%s" % h))
        run.violation(sig, "recorded render of a random chain is not the behaviour of Inherit.tla at token %d (%s): expected %s (%d traces in this class)"
                      % (v["i"], v["clause"], v["exp"], len(vbad[sig])),
                      {"config": t["cfg"], "templates": {uris[i][0]: texts[i] for i in texts}, "observed": t["out"], "verdict": v,
                       "file_backed": t["backed"]})
    if traces:
        run.sample({"direction": "V", "N": traces[0]["cfg"]["N"], "observed_tokens": ["%(k)s|%(n)s|%(l)d|%(x)d" % z for z in traces[0]["out"][:12]]})
    run.assumptions += [
        "a member call that finds no definition is observed as 'some exception inside the guarded call' (the property does not say which)",
        "tokens are written unbuffered through context.write; the shared buffer stack of copied contexts is relied upon",
        "templates with equal text are shared between configurations (content-hash URIs)",
    ]
    return {"rule": "TLC enumerates all configurations of the four families up to the bound and checks the invariants; every configuration "
                    "is rendered as real templates (put_string and file-backed) and compared token by token; all template shapes of the "
                    "compile-time clause are compiled; seeded random longer chains are judged by Trace_Inherit.tla. A case is one "
                    "configuration / shape / random chain.",
            "exhaustive": True}
