"""C19 (i): re-margining of <% %> blocks -- spec/Remargin.tla.

TLC enumerates every lexically possible block of <= MaxLines line kinds and prints, per line, whether
it starts a logical line (strip the margin, keep the relative indentation), continues one outside
strings (either), or is string content (keep).  Here every block is written at margins of 0..12
blanks and tabs; the reference text is built from TLC's flags; CPython executes the reference and
what Mako's re-indenters produce (pygen.adjust_whitespace alone; a full Template render, which also
goes through PythonPrinter.write_indented_block) and the values of the variables are compared.
The flags themselves are judged by CPython: the block as written, placed under `if True:`, must
compute the same values as the reference text.
"""
import itertools

from .core import MachineryError

TAB = "\t"
BS = "\\"
TEXT = {   # line kind -> text after the margin ({i} = statement number); string-content lines are verbatim
    "a": "v{i} = {i}", "sh": "v{i} = 'a#b'", "s3s": "v{i} = \"x'''y\"", "s3d": "v{i} = '\"\"\"'",
    "esc": "v{i} = 'it\\'s \"q\" # no'", "tab": "v{i} = 'a" + TAB + "b'", "c": "# plain comment", "c3": "# says ''' here",
    "tc3": "v{i} = 3  # c \"\"\"", "f3": "v{i} = '''one''' + \"k\"", "f3x": "v{i} = '''a''' + \"\"\"b\"\"\"",
    "o3s": "v{i} = '''t1", "o3d": "v{i} = \"\"\"u1", "ohs": "v{i} = '#' + '''h1", "oqd": "v{i} = \"'''\" + \"\"\"u1",
    "ocd": "v{i} = '''one''' + \"\"\"u1", "bs": "v{i} = 'p' + \\", "osq": "v{i} = 'p\\", "if": "if not False:",
    "blank": "", "kq": "   'q'", "kf": "   '''w''' + \"#\"", "k3": "      '''z1",
    "xs": "   mid", "xos": "  a\"\"\"b", "xhs": "  # not a comment", "xbs": "", "xbss": "  tail \\",
    "zs": "   t2'''", "zcs": "  t2''' + 'x#y'", "zms": "  t2'''  # c \"\"\"", "zos": "  t2''' + \"\"\"r1",
    "xd": "   mid", "xod": "  a'''b", "xhd": "  # not a comment", "xbd": "", "xbsd": "  tail \\",
    "zd": "      u2\"\"\"", "zcd": "  u2\"\"\" + 'x#y'", "zmd": "  u2\"\"\"  # c '''", "zod": "  u2\"\"\" + '''r1",
    "q2": "   q'",
    "k3d": "      \"\"\"y1", "kbs": "   'q' + " + BS, "kc3": "   'q'  # c '''", "kc": "   'q'  # plain note", "o3sb": "v{i} = '''t1 " + BS,
    "zbss": "  t2''' + " + BS, "zbsd": "  u2\"\"\" + " + BS,
    # runs of backslashes at the end of a physical line (BS = one backslash character)
    "osq3": "v{i} = 'C:" + BS * 2 + "d" + BS * 3, "odq": "v{i} = \"p" + BS, "odq3": "v{i} = \"C:" + BS * 2 + "d" + BS * 3,
    "sb2": "v{i} = 'p" + BS * 2 + "'", "cb1": "# path C:" + BS, "cb2": "# path C:" + BS * 2, "cb3": "# path C:" + BS * 3,
    "tcb1": "v{i} = 3  # c " + BS,
    "xb2s": "  tail " + BS * 2, "xb3s": "  tail " + BS * 3, "xb4s": "  tail " + BS * 4,
    "xb2d": "  tail " + BS * 2, "xb3d": "  tail " + BS * 3, "xb4d": "  tail " + BS * 4,
    "qc1": "   mid" + BS, "qc3": "   m" + BS * 3, "q2d": "    file.txt\"", "qd1": "   mid" + BS,
}
MARGINS = [" " * n for n in range(13)] + [TAB, TAB + TAB]


FEATURE = {}
for _f, _ks in {
    "hash-in-string": "sh esc ohs zcs zcd kf",
    "triple-quote-in-ordinary-string": "s3s s3d oqd",
    "triple-quote-in-comment": "c3 tc3 zms zmd kc3",
    "two-triple-quote-kinds-on-a-line": "f3x ocd zos zod",
    "other-triple-quote-inside-triple-string": "xos xod",
    "hash-inside-triple-string": "xhs xhd",
    "backslash-eol-inside-triple-string": "xbss xbsd",
    "backslash-run-eol-inside-triple-string": "xb2s xb3s xb4s xb2d xb3d xb4d",
    "escaped-backslash-before-newline-inside-quoted-string": "osq3 odq3 qc3",
    "comment-ending-in-backslash": "cb1 cb2 cb3 tcb1",
    "literal-tab-in-string": "tab",
    "backslash-newline-inside-quoted-string": "osq odq qc1 qd1",
}.items():
    for _k in _ks.split():
        FEATURE[_k] = _f


def feature_sig(sub):
    fs = sorted({FEATURE[k] for k in sub if k in FEATURE})
    return "+".join(fs) if fs else "plain(" + "+".join(sub) + ")"


def margin_class(m):
    return "m0" if m == "" else ("tab" if TAB in m else "blanks")


def written(case, margin, indent_strings):
    """the block as a template author writes it at `margin`"""
    out, n = [], 0
    for kid, flag, rel in zip(case["lines"], case["flags"], case["rels"]):
        t = TEXT[kid].replace("{i}", str(n))
        if flag == "strip":
            if "{i}" in TEXT[kid]:
                n += 1
            out.append((margin + "    " * rel + t) if t else t)
        elif flag == "either":
            out.append(margin + t)
        else:   # string content: verbatim; authors often indent it like the code around it
            out.append((margin + t) if (indent_strings and t) else t)
    return "\n".join(out)


def reference(case, margin, indent_strings):
    """what re-margining must produce, from the flags of the specification"""
    out, n = [], 0
    for kid, flag, rel in zip(case["lines"], case["flags"], case["rels"]):
        t = TEXT[kid].replace("{i}", str(n))
        if flag == "strip":
            if "{i}" in TEXT[kid]:
                n += 1
            out.append(("    " * rel + t) if t else t)
        elif flag == "either":
            out.append(t)
        else:
            out.append((margin + t) if (indent_strings and t) else t)
    return "\n".join(out)


def run_py(src):
    g = {}
    try:
        exec(compile(src, "<blk>", "exec"), g)
    except Exception as e:  # noqa
        return "exc:" + type(e).__name__
    return {k: v for k, v in g.items() if k[0] == "v" and k[1:].isdigit()}


def via_adjust(text):
    from mako.pygen import adjust_whitespace
    try:
        return run_py(adjust_whitespace(text))
    except Exception as e:  # noqa
        return "exc:" + type(e).__name__


def via_render(text, names, where):
    """the block in the page body (<% %>), at module level (<%! %>) or inside a <%def>"""
    from mako.template import Template
    got = {}

    def grab(**kw):
        got.update(kw)
        return ""
    show = "${grab(" + ", ".join("%s=%s" % (n, n) for n in names) + ")}"
    if where == "render-def":
        t = "<%def name=\"d()\"><%\n" + text + "\n%>\n" + show + "</%def>${d()}"
    else:
        t = ("<%!\n" if where == "render-module" else "<%\n") + text + "\n%>\n" + show
    try:
        Template(t).render_unicode(grab=grab)
    except Exception as e:  # noqa
        return "exc:" + type(e).__name__
    return got


def part_remargin(run):
    from . import c19
    maxl = 4 if run.thorough else 3
    cfg = "CONSTANT MaxLines = %d\nSPECIFICATION Spec\nINVARIANT TableConsistent\nINVARIANT Shape\nCHECK_DEADLOCK FALSE\n" % maxl
    res = run.tlc("Remargin", cfg, name="mc-remargin", workers=4, coverage=True, timeout=300)
    if res.violated:
        run.spec_violation(res)
        return
    c19.need_actions(res, ("AddLine", "Emit"), "Remargin")
    cases = {}
    for c in res.json_lines():
        if isinstance(c, dict) and "lines" in c and "flags" in c:
            cases[tuple(c["lines"])] = c
    if len(cases) < 1500:
        raise MachineryError("Remargin printed only %d blocks" % len(cases))
    if {k for c in cases for k in c} != set(TEXT):
        raise MachineryError("line kinds without text or never enumerated: %s" % sorted(set(TEXT) ^ {k for c in cases for k in c}))
    if not {"strip", "either", "keep"} <= {f for c in cases.values() for f in c["flags"]}:
        raise MachineryError("not every flag occurs")
    memo = {}

    def outcome(key, margin, ind, path):
        """'ok' or a failure mode, for one block / margin / path"""
        mk = (key, margin, ind, path)
        if mk in memo:
            return memo[mk]
        case = cases[key]
        ref = run_py(reference(case, margin, ind))
        if not isinstance(ref, dict):
            raise MachineryError("reference text of block %s does not run: %s\n%s" % (key, ref, reference(case, margin, ind)))
        text = written(case, margin, ind)
        if path == "adjust":
            got = via_adjust(text)
        else:
            got = via_render(text, sorted(ref), path)
        r = "ok" if got == ref else (got if isinstance(got, str) else "value-differs")
        memo[mk] = r
        return r

    def minimal(key, margin, ind, path):
        """smallest sub-block (order-preserving, itself a block of the specification) that fails too"""
        n = len(key)
        for ln in range(1, n):
            for idx in itertools.combinations(range(n), ln):
                sub = tuple(key[i] for i in idx)
                if sub in cases and outcome(sub, margin, ind, path) != "ok":
                    return plainer(sub, margin, ind, path)
        return plainer(key, margin, ind, path)

    def plainer(sub, margin, ind, path):
        """replace lines carrying a lexical feature by plain ones while the block still fails"""
        sub = list(sub)
        for i in range(len(sub)):
            if sub[i] not in FEATURE:
                continue
            for plain in ("a", "c", "o3s", "zs", "zd", "xs", "xd"):
                cand = tuple(sub[:i] + [plain] + sub[i + 1:])
                if cand in cases and outcome(cand, margin, ind, path) != "ok":
                    sub = list(cand)
                    break
        return tuple(sub)
    sigs = {}
    nexec = 0
    keys = sorted(cases)
    # the specification's flags are judged by CPython: as written under `if True:` == reference
    for key in keys:
        case = cases[key]
        for ind in (False, True):
            w = written(case, "    ", ind)
            wrapped = run_py("if True:\n" + w + "\n")
            ref = run_py(reference(case, "    ", ind))
            if wrapped != ref or not isinstance(ref, dict):
                raise MachineryError("Remargin.tla flags are wrong for %s (CPython: as written %r, reference %r)\n%s" % (key, wrapped, ref, w))
    sample_render = set(run.rng.sample(keys, min(len(keys), 2500 if run.thorough else 500)))
    # every short block with a backslash run at an end of line goes through full renders at every margin
    BSKINDS = {k for k, t in TEXT.items() if t.endswith(BS)}
    bs_blocks = {k for k in keys if len(k) <= 2 and BSKINDS & set(k)}
    # ... and every block with an explicitly joined line at four margins, in the body, a def and a <%! %> block
    joined = {k for k in keys if BSKINDS & set(k)} - bs_blocks
    for key in keys:
        for margin in MARGINS:
            ind = (len(margin) + len(key)) % 2 == 1
            paths = ["adjust"]
            if (margin in ("", "    ", TAB, " " * 7) and (key in sample_render or key in joined)) or key in bs_blocks:
                paths += ["render", "render-module", "render-def"]
            for path in paths:
                r = outcome(key, margin, ind, path)
                nexec += 1
                if r == "ok":
                    continue
                sub = minimal(key, margin, ind, path)
                r2 = outcome(sub, margin, ind, path)
                # the lexer-side re-indenter is part of a render: report render paths only for what adjust_whitespace gets right
                if path != "adjust" and outcome(sub, margin, ind, "adjust") != "ok":
                    continue
                # ... and the def placement only for what the body placement gets right
                if path == "render-def" and outcome(sub, margin, ind, "render") != "ok":
                    continue
                sig = "remargin:%s:%s:%s:%s" % ("adjust_whitespace" if path == "adjust" else path, feature_sig(sub), margin_class(margin),
                                               "error" if r2.startswith("exc:") else "string-altered")
                if sig not in sigs:
                    sigs[sig] = {"count": 0, "lines": "+".join(sub), "detail": r2, "block": written(cases[sub], margin, ind), "margin": margin, "reference": reference(cases[sub], margin, ind)}
                sigs[sig]["count"] += 1
    run.traces += nexec
    for sig in sorted(sigs):
        s = sigs[sig]
        run.violation(sig, "block %r (%s) at margin %r: re-margined by Mako it no longer means %r: %s [%d block/margin pairs]"
                      % (s["block"], s["lines"], s["margin"], s["reference"], s["detail"], s["count"]),
                      {"block": s["block"], "margin": s["margin"], "reference": s["reference"],
                       "repro": "from mako.pygen import adjust_whitespace; exec(adjust_whitespace(%r))" % s["block"]})
    run.extra["remargin"] = {"blocks": len(cases), "executions": nexec, "signatures": {k: v["count"] for k, v in sigs.items()}}
    k0 = next(k for k in keys if "o3s" in k and len(k) == 3)
    run.sample({"part": "remargin", "lines": list(k0), "flags": cases[k0]["flags"], "written": written(cases[k0], "    ", True),
                "reference": reference(cases[k0], "    ", True)}, limit=9)
    # negative control: a reference built from corrupted flags (string content stripped) must be noticed
    bad = dict(cases[k0])
    bad["flags"] = ["strip"] * len(bad["flags"])
    try:
        differs = run_py(reference(bad, "    ", True)) != run_py(reference(cases[k0], "    ", True))
    except Exception:  # noqa
        differs = True
    run.negative_control(differs, "remargin comparer accepted corrupted flags")
