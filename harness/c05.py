"""C05 -- defs write at the call site; buffering, filters, decorators, capture, calls with content.

Specification: spec/Render.tla (abstract render machine; call fragment: Bind, DoCall/Enter, DefFinish/FinExit,
ExecCapture, ExecCallContent, ExecCallerBody, decorator frames).  Direction R:

 1. Programs over defs (plain / buffered / filtered / decorated, positional / default / *args / keyword-only /
    **kw parameters, nested defs), calls by name / self. / local., capture(), string concatenations,
    <%call> and <%ns:def> tags with body arguments and nested defs, caller.body() / caller.<def>() in the
    callee, all inside loops, % try, other call bodies -- a systematic family (every def kind x call kind x
    surrounding construct) plus seeded random programs to nesting depth 4 -- are written as TLA+ literals.
 2. TLC runs the machine for every (program, raise point), checks StackDiscipline, CallerRestored,
    BufferRestored, NextCallerOnlyAroundCalls, CaptureLeavesOutput, FilterOnce, Balanced ... in every state and
    prints the expected output tokens, per-mark observations (buffer depth, caller depth, caller present,
    nextcaller set) and the final stack state.
 3. Each program is concretised as a real template (free layout / spelling choices from the seed), rendered
    through render_context for every raise point, and compared.
A disagreement that TLC reproduces with the named deviation ReturnDropsBuffer enabled is finding #21.
"""
import random

from . import render_common as rc
from .core import MachineryError

NEED = ("ExecMark", "ExecCall", "ExecEnter", "ExecBlock", "ExecCapture", "ExecCallContent", "ExecCallerBody", "ExecFor",
        "ExecTry", "Unwind", "Return")


def lit(t):
    return dict(k="lit", t=t)


def systematic(ids):
    """every def kind x way of calling it x surrounding construct; the callee calls caller.body() twice."""
    progs = []
    flagsets = [[], ["buffered"], ["filter"], ["buffered", "filter"]]
    for flags in flagsets:
        for dec in (False, True):
            for how in ("call", "cap", "callc", "concat", "callc-nested"):
                for around in ("none", "for", "try", "body", "buffered-def"):
                    n = iter(range(1, 1000))

                    def T():
                        return dict(k="text", t="t%d" % next(n))

                    def M():
                        return dict(k="mark", m=next(n), rl=False, w="s")
                    noargs = dict(pos=[], kw=[])
                    d0 = dict(flags=set(flags), fm=next(n) if "filter" in flags else 0, dec=dec, dm=next(n) if dec else 0, blk=False,
                              params=[dict(n="p", kind="opt", dv="dp")], bsig=[], nested=[], home=0,
                              body=[T(), M(), dict(k="expr", parts=[dict(k="val", v="p", vk="opt"), dict(k="cbody", args=noargs)]),
                                    M(), dict(k="expr", parts=[dict(k="cbody", args=noargs),
                                                               dict(k="call", d="n0", via="caller", args=noargs)]), T()])
                    args = dict(pos=["v%d" % next(n)], kw=[])
                    call = dict(k="call", d="d0", via="name", args=args)
                    defs = {"d0": d0}
                    if how == "call":
                        core_ = [dict(k="expr", parts=[call])]
                    elif how == "cap":
                        core_ = [dict(k="expr", parts=[dict(k="cap", d="d0", args=args)])]
                    elif how == "concat":
                        core_ = [dict(k="expr", parts=[lit("t%d" % next(n)), call, lit("t%d" % next(n)),
                                                       dict(k="cap", d="d0", args=noargs)])]
                    else:
                        inner = [T(), M()]
                        cdefs = []
                        if how == "callc-nested":
                            key = "n0_%d" % next(n)
                            defs[key] = dict(flags=set(flags), fm=0, dec=False, dm=0, blk=False, params=[dict(n="y", kind="opt", dv="dy")],
                                             bsig=[], nested=[], home=0, body=[T(), dict(k="mark", m=next(n), rl=False, w="x")])
                            cdefs = [dict(n="n0", key=key)]
                            inner = [T(), dict(k="callc", parts=[dict(k="call", d="d0", via="name", args=noargs)], body=[M(), T()],
                                               bparams=[], defs=[]), M()]
                        core_ = [dict(k="callc", parts=[dict(k="mark", m=next(n), rl=False, w="s", arg=True), call], body=inner,
                                      bparams=[], defs=cdefs)]
                    seq = [M()] + core_ + [M(), T()]
                    top = ["d0"]
                    if around == "for":
                        body = [dict(k="for", n=2, sized=True, a=seq, els=[], has_else=False), M()]
                    elif around == "try":
                        body = [dict(k="try", a=seq, h=[T(), M()]), M(), T()]
                    elif around == "body":
                        defs["d1"] = dict(flags=set(), fm=0, dec=False, dm=0, blk=False, params=[], bsig=[], nested=[], home=0,
                                          body=[T(), dict(k="expr", parts=[dict(k="cbody", args=noargs)]), M()])
                        top.append("d1")
                        body = [dict(k="callc", parts=[dict(k="call", d="d1", via="name", args=noargs)], body=seq, bparams=[], defs=[]), M()]
                    elif around == "buffered-def":
                        defs["d1"] = dict(flags={"buffered"}, fm=0, dec=False, dm=0, blk=False, params=[], bsig=[], nested=[], home=0,
                                          body=seq)
                        top.append("d1")
                        body = [T(), dict(k="expr", parts=[lit("t%d" % next(n)), dict(k="call", d="d1", via="name", args=noargs)]), M()]
                    else:
                        body = seq
                    progs.append(dict(defs=defs, incs=[], body=body, eh=False, top=top, el="on"))
    return progs


def signatures(maxlen=4):
    """every legal Python parameter list of <= maxlen entries over positional / positional-with-default / *args /
    keyword-only required / keyword-only with default (in every order) / **kw.  Keyword-only parameters only after
    *args (the property's grammar; a bare `*` is not part of it)."""
    import itertools
    out = []
    for npos in range(3):
        for nopt in range(3):
            for star in (0, 1):
                for nk in (range(3) if star else [0]):
                    for kinds in itertools.product(("kwo", "kwopt"), repeat=nk):
                        for ds in (0, 1):
                            if not 1 <= npos + nopt + star + nk + ds <= maxlen:
                                continue
                            ps = [dict(n="p%d" % (i + 1), kind="pos", dv="-") for i in range(npos)]
                            ps += [dict(n="q%d" % (i + 1), kind="opt", dv="dq%d" % (i + 1)) for i in range(nopt)]
                            if star:
                                ps.append(dict(n="a", kind="star", dv="-"))
                            ps += [dict(n="k%d" % (i + 1), kind=k, dv="dk%d" % (i + 1) if k == "kwopt" else "-") for i, k in enumerate(kinds)]
                            if ds:
                                ps.append(dict(n="kw", kind="dstar", dv="-"))
                            out.append(ps)
    return out


def call_shapes(ps):
    """positional counts 0..n+1 x every subset of the named parameters passed by keyword x an extra keyword."""
    import itertools
    named = [p["n"] for p in ps if p["kind"] in ("pos", "opt", "kwo", "kwopt")]
    npp = len([p for p in ps if p["kind"] in ("pos", "opt")])
    shapes = []
    for np_ in range(npp + 2):
        for r in range(len(named) + 1):
            for sub in itertools.combinations(named, r):
                for extra in (False, True):
                    shapes.append((np_, sub, extra))
    return shapes


def _probably_binds(ps, shape):
    """packing aid only (which calls can share a program without the first TypeError hiding the rest); the
    expectation, TypeError included, always comes from Bind in Render.tla."""
    np_, sub, extra = shape
    pp = [p for p in ps if p["kind"] in ("pos", "opt")]
    has = {p["kind"] for p in ps}
    if np_ > len(pp) and "star" not in has:
        return False
    filled = {p["n"] for p in pp[:np_]}
    if filled & set(sub) or (extra and "dstar" not in has):
        return False
    return all(p["n"] in filled or p["n"] in sub for p in ps if p["kind"] in ("pos", "kwo"))


def binding_family(rng, full):
    """programs that print every parameter of a def / call body after calls of every shape, through the four routes:
    by name (or self./local.), capture(), string concatenation, body(**args) of a call with content."""
    progs = []
    noargs = dict(pos=[], kw=[])
    for ps in signatures():
        n = iter(range(1, 100000))
        shapes = call_shapes(ps)
        good = [sh for sh in shapes if _probably_binds(ps, sh)]
        bad = [sh for sh in shapes if not _probably_binds(ps, sh)]
        if not full:
            rng.shuffle(good)
            rng.shuffle(bad)
            good, bad = good[:20], bad[:6]
        show = []
        for p in ps:
            show += [dict(k="lit", t="<" + p["n"]), dict(k="val", v=p["n"], vk=p["kind"])]
        show = [dict(k="expr", parts=show + [dict(k="lit", t=">")])]

        def args_of(sh):
            np_, sub, extra = sh
            kw = {nm: "v%d" % next(n) for nm in sub}
            if extra:
                kw["zz"] = "v%d" % next(n)
            return dict(pos=["v%d" % next(n) for _ in range(np_)], kw=[dict(n=k, nt=k + ":", v=kw[k]) for k in sorted(kw)])

        def program(shs):
            defs = {"d0": dict(flags=set(), fm=0, dec=False, dm=0, blk=False, params=ps, bsig=ps, nested=[], home=0, body=show)}
            top = ["d0"]
            body = []
            for j, sh in enumerate(shs):
                a = args_of(sh)
                route = (j + len(ps)) % 4
                if route == 0:
                    body.append(dict(k="expr", parts=[dict(k="call", d="d0", via="name", args=a)]))
                elif route == 1:
                    body.append(dict(k="expr", parts=[dict(k="cap", d="d0", args=a)]))
                elif route == 2:
                    body.append(dict(k="expr", parts=[lit("t%d" % next(n)), dict(k="call", d="d0", via="name", args=a), lit("t%d" % next(n))]))
                else:       # the callee passes the arguments to caller.body(); the body has this signature
                    key = "c%d" % next(n)
                    defs[key] = dict(flags=set(), fm=0, dec=False, dm=0, blk=False, params=[], bsig=ps, nested=[], home=0,
                                     body=[dict(k="expr", parts=[dict(k="cbody", args=a)])])
                    top.append(key)
                    body.append(dict(k="callc", parts=[dict(k="call", d=key, via="name", args=noargs)], body=show, bparams=ps, defs=[]))
                body.append(dict(k="text", t="t%d" % next(n)))
            return dict(defs=defs, incs=[], body=body, eh=False, fe=False, top=top, el="on")
        for i in range(0, len(good), 16):
            progs.append(program(good[i:i + 16]))
        for sh in bad:
            progs.append(program([sh]))
    return progs


def attribute_family(rng, full):
    """<%ns:def> tags whose attribute values are every sequence of 1..3 (4) pieces over literal word / blank(s) only /
    padded word / punctuation / ${str} / empty, plus single ${int} and ${None}; the callee prints each keyword
    argument atom by atom (blanks included)."""
    import itertools
    n = iter(range(1, 100000))

    def piece(kind):
        if kind == "word":
            return dict(kind="lit", atoms=["w%d" % next(n)])
        if kind == "blank":
            return dict(kind="lit", atoms=["SP"])
        if kind == "blank2":
            return dict(kind="lit", atoms=["SP", "SP"])
        if kind == "padded":
            return dict(kind="lit", atoms=["SP", "w%d" % next(n), "SP"])
        if kind == "punct":
            return dict(kind="lit", atoms=[rng.choice(["DASH", "COLON"])])
        if kind == "expr":
            return dict(kind="expr", atoms=["e%d" % next(n)])
        if kind == "int":
            return dict(kind="expr", atoms=["i%d" % next(n)])
        if kind == "none":
            return dict(kind="expr", atoms=["none"])
        return dict(kind="lit", atoms=[])
    kinds = ["word", "blank", "blank2", "padded", "punct", "expr", "empty"]
    values = [[piece("int")], [piece("none")]]
    for ln in range(1, 5 if full else 4):
        for combo in itertools.product(kinds, repeat=ln):
            values.append([piece(k) for k in combo])
    rng.shuffle(values)
    ps = [dict(n="p", kind="opt", dv="dp"), dict(n="q", kind="opt", dv="dq"), dict(n="kw", kind="dstar", dv="-")]
    show = [dict(k="expr", parts=[lit("<p"), dict(k="val", v="p", vk="vis"), lit("<q"), dict(k="val", v="q", vk="vis"), lit(">")]),
            dict(k="expr", parts=[dict(k="cbody", args=dict(pos=[], kw=[]))])]
    progs = []
    calls = []
    for i in range(0, len(values) - 1, 2):
        kw = [dict(n="p", nt="p:", v="-", pieces=values[i]), dict(n="q", nt="q:", v="-", pieces=values[i + 1])]
        calls.append(dict(k="callc", ns=True, parts=[dict(k="call", d="d0", via="name", args=dict(pos=[], kw=kw))],
                          body=[dict(k="text", t="t%d" % next(n))], bparams=[], defs=[]))
    for i in range(0, len(calls), 12):
        d0 = dict(flags=set(), fm=0, dec=False, dm=0, blk=False, params=ps, bsig=[], nested=[], home=0, body=show)
        progs.append(dict(defs={"d0": d0}, incs=[], body=calls[i:i + 12], eh=False, fe=False, top=["d0"], el="on"))
    return progs


NAME_POOL = [
    # one-letter names
    "a", "r", "g", "s", "e", "n", "f", "i", "c", "b", "m", "t", "u", "z",
    # substrings / prefixes / suffixes of reserved attribute words
    "ar", "rg", "gs", "arg", "rgs", "ex", "exp", "xpr", "pr", "nam", "ame", "na", "fil", "ile", "fi", "imp", "port", "ort",
    "filt", "ter", "lter", "cach", "ched", "ca", "buff", "ered", "buf", "inh", "able", "herit", "mod", "ule", "du",
    # the reserved words themselves, where a parameter may carry the name (`args` is the tag's own, `import` a keyword)
    "expr", "name", "file", "filter", "cached", "buffered", "inheritable", "module", "args_", "argss", "xargs",
    # names differing only in case
    "A", "Arg", "ARGS", "Args", "R", "Name", "FILE", "Expr", "G", "S",
]


def names_family(rng):
    """parameter / attribute NAMES: every name of the pool is a keyword parameter of a def that is called through
    <%self:d>/<%local:d> tags, <%call expr>, and plain calls with 1, 2 and 4 keyword arguments in shuffled orders; each
    value must reach the parameter of that name (defaults for the ones not passed), by Python's calling rules."""
    import itertools
    pool = list(NAME_POOL)
    rng.shuffle(pool)
    progs = []
    n = iter(range(1, 100000))
    for ci in range(0, len(pool), 4):
        names = pool[ci:ci + 4]
        if len(names) < 4:
            names += pool[:4 - len(names)]
        for required in (False, True):
            ps = [dict(n=nm, kind="opt", dv="d" + nm) for nm in names]
            if required:
                ps[0] = dict(n=names[0], kind="pos", dv="-")
            show = []
            for q in ps:
                show += [dict(k="lit", t="<" + q["n"]), dict(k="val", v=q["n"], vk="plain")]
            d0 = dict(flags=set(), fm=0, dec=False, dm=0, blk=False, params=ps, bsig=[], nested=[], home=0,
                      body=[dict(k="expr", parts=show + [dict(k="lit", t=">")]), dict(k="expr", parts=[dict(k="cbody", args=dict(pos=[], kw=[]))])])
            subsets = [c for r_ in (1, 2, 4) for c in itertools.combinations(names, r_)]
            if required:
                subsets = [c for c in subsets if names[0] in c] + [c for c in subsets if names[0] not in c][:1]   # the last one: TypeError
            body = []
            for j, sub in enumerate(subsets):
                kw = [dict(n=nm, nt=nm + ":", v="v%d" % next(n)) for nm in sorted(sub)]
                call = dict(k="call", d="d0", via="name", args=dict(pos=[], kw=kw))
                if j % 4 == 3:
                    body.append(dict(k="expr", parts=[call]))
                else:
                    st = dict(k="callc", parts=[call], body=[dict(k="text", t="t%d" % next(n))], bparams=[], defs=[])
                    if j % 4 != 2:
                        st["ns"] = True          # <%self:d0 k="v" ...> / <%local:d0 ...>; otherwise either spelling
                    body.append(st)
            progs.append(dict(defs={"d0": d0}, incs=[], body=body, eh=False, fe=False, top=["d0"], el="on"))
    return progs


def buffered_block_family():
    """an anonymous / filtered <%block buffered="True">: its content belongs at the place of the block."""
    progs = []
    for flags in (["buffered"], ["buffered", "filter"]):
        blk = dict(flags=set(flags), fm=0, dec=False, dm=0, blk=True, params=[], bsig=[], nested=[], home=0,
                   body=[dict(k="text", t="t1"), dict(k="mark", m=2, rl=False, w="s"), dict(k="text", t="t3")])
        progs.append(dict(defs={"b9": blk}, incs=[], eh=False, fe=False, top=[], el="on",
                          body=[dict(k="text", t="t4"), dict(k="block", d="b9"), dict(k="text", t="t5")]))
    return progs


def sig_buffered_block(p, x):
    return "buffered-block-drops-output:%s" % x["clause"]


def check(run):
    thorough = run.thorough
    maxraise = 10 if not thorough else 14
    # ---- 1. systematic family (all raise points)
    fam = systematic(None)
    rc.check_batch(run, fam, 12, "systematic", coverage=True)
    run.extra["systematic_programs"] = len(fam)
    # ---- 1b. argument binding: every signature x call shapes x call routes
    bind = binding_family(run.rng, thorough)
    for i in range(0, len(bind), 600):
        rc.check_batch(run, bind[i:i + 600], 0, "binding-%d" % (i // 600), coverage=True)
    run.extra["binding_programs"] = len(bind)
    # ---- 1c. attribute values of <%ns:def> tags as mixtures of literal pieces and ${} values
    attrs = attribute_family(run.rng, thorough)
    rc.check_batch(run, attrs, 0, "attributes", coverage=True)
    run.extra["attribute_programs"] = len(attrs)
    # ---- 1d. parameter / attribute names of calls with content
    nm = names_family(run.rng)
    rc.check_batch(run, nm, 0, "names", coverage=True)
    run.extra["name_programs"] = len(nm)
    # ---- 2. seeded random programs; nesting to depth 4
    n_rand = 260 if not thorough else 3000
    prof = rc.profile(w=dict(expr=6, callc=5, block=2, **{"while": 1, "with": 1}), depth=3, p_calldefs=0.4, npy=(0, 2),
                      routes=["context", "context", "unicode", "render"])
    deep = rc.profile(w=dict(expr=6, callc=7, block=1, text=2, mark=3, **{"if": 1, "for": 1, "while": 0, "with": 0, "try": 1}),
                      depth=4, suite=(1, 2), ndefs=(2, 3), max_cost=450)
    g = rc.Gen(run.rng, prof)
    progs = [g.gen_prog() for _ in range(n_rand)]
    g = rc.Gen(run.rng, deep)
    progs += [g.gen_prog() for _ in range(n_rand // 4)]
    for i in range(0, len(progs), 300):
        rc.check_batch(run, progs[i:i + 300], maxraise, "random-%d" % (i // 300), coverage=True)
    run.extra["random_programs"] = len(progs)
    # ---- 3. early return inside buffered / filtered defs and blocks (finding #21 is expected here)
    f21 = rc.profile(ret_in_flagged=True, w=dict(ret=4, expr=5, block=2), flags=[["buffered"], ["filter"], ["buffered", "filter"]],
                     depth=2, p_dec=0.1)
    g = rc.Gen(run.rng, f21)
    progs = [g.gen_prog() for _ in range(40 if not thorough else 300)]
    rc.check_batch(run, progs, 4, "early-return", coverage=False)
    rc.check_batch(run, buffered_block_family(), 2, "buffered-block", signature_of=sig_buffered_block)
    acts = run.extra.get("action_coverage", {})
    for a in NEED:
        if not acts.get(a):
            raise MachineryError("vacuous: action %s of Render.tla never taken (%s)" % (a, acts))
    run.assumptions += [
        "markers, filter functions, decorators and the `with` context manager are supplied by the harness through the context / a module block",
        "argument values are unique string tokens; binding errors are Python's TypeError raised before the callee is entered",
        "caller.body()/caller.<def>() are guarded by `if caller` / hasattr in the concretised templates (the property is silent on calling a missing caller)",
        "cached defs are not generated (C17)",
    ]
    return {"rule": "TLC executes Render.tla on every (program, raise point) with the invariants checked in every state; every "
                    "terminal state's expected output tokens / per-mark stack observations / final stack state are compared with a "
                    "render_context() of the concretised template. A case is one (program, raise point); the systematic family is "
                    "enumerated completely, the rest is seeded.",
            "exhaustive": False}
