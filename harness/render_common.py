"""Shared machinery of the Render.tla checks (C03, C05, C13).

Direction R: abstract programs (nested dicts) are generated from a seeded grammar, written as TLA+
literals, executed by TLC on the abstract machine of spec/Render.tla (invariants checked in every
state, one JSON line per terminal state with the expected output tokens, per-mark observations,
result and final stack state); every program is then concretised as real Mako templates, rendered
with context-supplied markers for every raise point, and the observations are compared.

There is no Python interpreter of programs in here: expectations come from TLC only.  The grammar
is documented next to `Gen`; the record fields are those read by spec/Render.tla.
"""
import copy
import itertools
import json
import os
import re
import signal

from . import core
from .core import MachineryError

TOK = re.compile(r"\[([^\[\]]+)\]")


# =========================================================================== program generation
# suite  := [stmt]
# stmt   := text(t) | mark(m, rl, w) | expr(parts) | callc(parts, body, bparams, defs) | block(d) | inc(t)
#         | if(arms[(c, a)], els) | for(n, sized, a, els) | while(n, a) | try(a, h) | with(t1, t2, a)
#         | py(v, t) | ret | brk | cont
# part   := lit(t) | val(v) | mark(...) | call(d, via, args) | cap(d, args) | cbody(args)
# def    := flags <= {buffered, filter}, fm (mark inside the filter function), dec (decorator), dm (mark
#           inside the decorator), blk (anonymous block), params, body
DEFAULT_PROFILE = dict(
    ndefs=(1, 3), depth=3, suite=(1, 3), def_depth=2,
    w=dict(text=3, mark=4, expr=4, callc=3, block=1, inc=0, **{"if": 2, "for": 2, "while": 1, "try": 2, "with": 1,
                                                                 "py": 1, "ret": 1, "brk": 1, "cont": 1, "textf": 1, "mkit": 1, "drain": 1, "itobs": 1}),
    flags=[[], [], ["buffered"], ["filter"], ["buffered", "filter"]],
    p_dec=0.2, p_params=0.6, p_bad_args=0.04, p_rl=0.6, p_loopcond=0.3, p_nested_def=0.25, p_calldefs=0.3,
    p_bparams=0.35, p_empty=0.08, ret_in_flagged=False, loop_in_body_under_for=False, eh=0.0, nincs=(0, 0), p_ieh=0.5,
    p_unbound=0.1, p_amark=0.3, p_fm=0.5, p_dm=0.5, p_cmark=0.25,
    eh_modes=["true"], ieh_modes=["true"], xcs=["boom"], p_inh=0.0, p_lk=0.0, routes=["context"], p_src=0.5, npy=(0, 0), p_pymod=0.5,
    oes=[None], ees=["strict"], msgs=["ascii"], p_nasrc=0.0,
)


def profile(**over):
    p = copy.deepcopy(DEFAULT_PROFILE)
    w = over.pop("w", None)
    p.update(over)
    if w:
        p["w"].update(w)
    return p


def hmode(v):
    """handler outcome of a program: none / true / false / raise (booleans from hand-written programs accepted)."""
    if v is True:
        return "true"
    if not v:
        return "none"
    return v


XB = {"boom": True, "stopiter": True, "abort": False, "sysexit": False, "kbint": False}


class Ctx:
    """Lexical generation context (one per Python function the code generator will emit)."""

    def __init__(self, callable_, bsig=None, tmpl=0):
        self.callable = list(callable_)   # def keys callable by name here
        self.bsig = bsig                  # signature of caller.body() expected by the enclosing def
        self.loop_refs = 0                # enclosing fors of this function whose `loop` may be read
        self.no_loop = False              # call body lexically under a for of an enclosing function
        self.under_for = False            # any for encloses this point (in this or an enclosing function)
        self.in_loop = False              # break / continue legal
        self.ret_ok = True
        self.vars = []
        self.its = []                     # shared iterators (name, kind) assigned in this function
        self.tmpl = tmpl
        self.in_def = False
        self.in_else = False
        self.pk = {}
        self.hcx = False                  # what `caller` names here is left open by the property (def nested in a call tag)
        self.in_callc = False             # lexically inside a call tag
        self.in_body = False              # directly in the body of a call tag (not in a def nested there)
        self.freeze_loop = False          # block under a for: its own fors must not rebind `loop` (see c03.loop_in_block_family)

    def child(self, **kw):
        c = copy.copy(self)
        c.vars = self.vars            # same function: assignments are shared
        c.its = self.its
        for k, v in kw.items():
            setattr(c, k, v)
        return c

    def function(self, **kw):
        """a new Python function (def, block, call body)."""
        c = copy.copy(self)
        c.vars = []
        c.its = []
        c.pk = {}
        c.in_loop = False
        for k, v in kw.items():
            setattr(c, k, v)
        return c


class Gen:
    def __init__(self, rng, prof):
        self.rng = rng
        self.p = prof
        self.ids = itertools.count(1)
        self.defs = {}

    def nid(self):
        return next(self.ids)

    def choice_w(self, kinds):
        w = [self.p["w"].get(k, 0) for k in kinds]
        if not sum(w):
            return "text"
        return self.rng.choices(kinds, weights=w)[0]

    # ---- signatures and arguments
    def gen_params(self):
        r = self.rng
        ps = []
        if r.random() > self.p["p_params"]:
            return ps
        if r.random() < .7:
            ps.append(dict(n="p", kind="pos", dv="-"))
        if r.random() < .5:
            ps.append(dict(n="q", kind="opt", dv="dq"))
        if r.random() < .3:
            ps.append(dict(n="a", kind="star", dv="-"))
            ko = []
            if r.random() < .5:
                ko.append(dict(n="k", kind="kwo", dv="-"))
            if r.random() < .5:
                ko.append(dict(n="k2", kind="kwopt", dv="dk2"))
            r.shuffle(ko)          # a keyword-only default may precede a required keyword-only parameter
            ps += ko
        if r.random() < .3:
            ps.append(dict(n="kw", kind="dstar", dv="-"))
        return ps

    def gen_args(self, ps, allow_bad=True):
        r = self.rng
        pos, kw = [], {}
        names = {p["n"]: p for p in ps}
        pp = [p for p in ps if p["kind"] in ("pos", "opt")]
        by_kw = False
        for p in pp:
            if p["kind"] == "opt" and r.random() < .4:
                by_kw = True
                continue
            if by_kw or r.random() < .3:
                by_kw = True
                kw[p["n"]] = "v%d" % self.nid()
            else:
                pos.append("v%d" % self.nid())
        if any(p["kind"] == "star" for p in ps) and not by_kw and len(pos) == len(pp) and r.random() < .6:
            pos += ["v%d" % self.nid() for _ in range(r.choice([1, 2]))]
        for p in ps:
            if p["kind"] == "kwo" or (p["kind"] == "kwopt" and r.random() < .5):
                kw[p["n"]] = "v%d" % self.nid()
        if any(p["kind"] == "dstar" for p in ps) and r.random() < .7:
            for z in r.sample(["z1", "z2", "z3"], r.choice([1, 2])):
                kw[z] = "v%d" % self.nid()
        if allow_bad and r.random() < self.p["p_bad_args"]:
            how = r.choice(["extra_pos", "unknown_kw", "drop", "dup"])
            if how == "extra_pos":
                pos.append("v%d" % self.nid())
            elif how == "unknown_kw":
                kw["zz"] = "v%d" % self.nid()
            elif how == "drop" and (pos or kw):
                if pos:
                    pos.pop()
                else:
                    kw.pop(sorted(kw)[0])
            elif how == "dup" and pos and pp:
                kw[pp[0]["n"]] = "v%d" % self.nid()
        return dict(pos=pos, kw=[dict(n=n, nt=n + ":", v=kw[n]) for n in sorted(kw)])

    def gen_bsig(self):
        r = self.rng
        if r.random() > self.p["p_bparams"]:
            return []
        ps = [dict(n="x", kind="pos" if r.random() < .6 else "opt", dv="dx")]
        if r.random() < .4:
            ps.append(dict(n="y", kind="opt", dv="dy"))
        return ps

    # ---- defs
    def gen_def(self, key, ctx, depth, blk=False, flags=None, params=None, dec=None, nd=False, toplevel=False):
        r = self.rng
        if flags is None:
            flags = list(r.choice(self.p["flags"]))
        if blk:
            flags = [f for f in flags if f == "filter"]
            params = []
            dec = False
        if params is None:
            params = self.gen_params()
        if dec is None:
            dec = r.random() < self.p["p_dec"]
        d = dict(flags=set(flags), fm=(self.nid() if "filter" in flags and r.random() < self.p["p_fm"] else 0),
                 dec=dec, dm=(self.nid() if dec and r.random() < self.p["p_dm"] else 0), blk=blk, params=params,
                 body=[], bsig=self.gen_bsig() if not blk else ctx.bsig, nested=[], home=ctx.tmpl)
        self.defs[key] = d
        if blk:
            # (a block inside a call body sees the body's `caller` by closure, a block inside a def its own frame:
            #  what `caller` names in a block of a call body is left open -> not observed, not used there)
            # (a block inside a % for of a call body that reads `loop` gets a LoopStack of its own -- RuntimeException
            #  "No loop context is established": same family as F62/F63, C03's domain -> no `loop` reads in such blocks)
            fctx = ctx.function(ret_ok=(not flags) or self.p["ret_in_flagged"], in_def=True, hcx=ctx.hcx or ctx.in_body,
                                no_loop=ctx.no_loop or ctx.in_body,
                                freeze_loop=ctx.freeze_loop or (ctx.loop_refs > 0 and not ctx.no_loop))
            if fctx.hcx:
                fctx.bsig = None
        else:
            # (an inline def shares or does not share the enclosing function's LoopStack depending on whether that
            #  function reads `loop`: what loop.parent is in its outermost loop is left open -> no `loop` reads there)
            fctx = ctx.function(bsig=d["bsig"], loop_refs=0, no_loop=not toplevel, under_for=False, freeze_loop=False,
                                ret_ok=(not flags) or self.p["ret_in_flagged"], in_def=True, in_else=False, hcx=nd or ctx.hcx,
                                in_body=False)
            if fctx.hcx:
                fctx.bsig = None
            fctx.vars = [p["n"] for p in params]
            fctx.pk = {p["n"]: p["kind"] for p in params}
            if depth > 0 and r.random() < self.p["p_nested_def"]:
                nk = "e%d" % self.nid()
                d["nested"].append(nk)
                self.gen_def(nk, fctx.function(callable=fctx.callable), depth - 1)
                fctx.callable = fctx.callable + [nk]
        d["body"] = self.gen_suite(fctx, depth)
        return d

    PY_W = dict(text=3, mark=4, expr=4, py=1, ret=1, brk=1, cont=1, **{"try": 2, "if": 2, "for": 2})

    def gen_pydef(self, key):
        """a Python function decorated with runtime.supports_caller (defined in <%! %> or in a module= namespace):
        an activation like a plain def (wrap_stackframe: _push_frame, try: func() finally: _pop_frame) whose body is
        Python: context.write, markers, caller.body()/caller.<def>(), try/except, if, for, return."""
        r = self.rng
        params = r.choice([[], [dict(n="p", kind="opt", dv="dp")], [dict(n="p", kind="pos", dv="-")],
                           [dict(n="p", kind="pos", dv="-"), dict(n="kw", kind="dstar", dv="-")]])
        d = dict(flags=set(), fm=0, dec=False, dm=0, blk=False, params=params, body=[], bsig=self.gen_bsig(), nested=[], home=0, py=True)
        self.defs[key] = d
        c = Ctx([], bsig=d["bsig"])
        c.vars = [p["n"] for p in params]
        c.pk = {p["n"]: p["kind"] for p in params}
        c.no_loop = True
        c.in_def = True
        saved = self.p["w"]
        self.p["w"] = self.PY_W
        try:
            d["body"] = self.gen_suite(c, 2)
        finally:
            self.p["w"] = saved
        return d

    # ---- suites
    def gen_suite(self, ctx, depth, n=None):
        r = self.rng
        out = []
        if n is None:
            if r.random() < self.p["p_empty"]:
                return out
            n = r.randint(*self.p["suite"])
        for _ in range(n):
            kinds = ["text", "mark", "expr", "py", "textf", "mkit"]
            if ctx.its:
                kinds += ["drain", "itobs"]
            if depth > 0:
                kinds += ["callc", "block", "inc", "if", "for", "while", "try", "with"]
            if ctx.ret_ok:
                kinds.append("ret")
            if ctx.in_loop:
                kinds += ["brk", "cont"]
            k = self.choice_w(kinds)
            s = getattr(self, "g_" + k)(ctx, depth)
            if s is None:
                s = self.g_mark(ctx, depth)
            out.append(s)
            if k in ("ret", "brk", "cont"):
                break
        return out

    def loop_ok(self, ctx):
        return ctx.loop_refs > 0 and not ctx.no_loop and not ctx.in_else

    def g_text(self, ctx, depth):
        return dict(k="text", t="t%d" % self.nid())

    def g_mark(self, ctx, depth):
        return dict(k="mark", m=self.nid(), rl=bool(self.loop_ok(ctx) and self.rng.random() < self.p["p_rl"]),
                    w="x" if ctx.hcx else "s")

    def g_py(self, ctx, depth):
        old = [x for x in ctx.vars if x[0] == "x" and x[1:].isdigit()]
        v = self.rng.choice(old) if old and self.rng.random() < .5 else "x%d" % self.nid()
        if v not in ctx.vars:
            ctx.vars.append(v)
        return dict(k="py", v=v, t="t%d" % self.nid())

    def g_mkit(self, ctx, depth):
        """a shared iterator: generator function result / generator expression / iterator object with close()."""
        i = self.nid()
        v = "g%d" % i
        kind = self.rng.choice(["genfn", "genfn", "genexp", "itobj"])
        ctx.its.append((v, kind))
        return dict(k="mkit", v=v, kind=kind, toks=["%s%s" % (v, c) for c in "abcd"[:self.rng.choice([1, 2, 3, 3, 4])]])

    def g_drain(self, ctx, depth):
        return dict(k="drain", v=self.rng.choice(ctx.its)[0])

    def g_itobs(self, ctx, depth):
        cand = [x for x in ctx.its if x[1] != "genexp"]
        if not cand:
            return None
        v, kind = self.rng.choice(cand)
        return dict(k="itobs", v=v, kind=kind)

    def g_textf(self, ctx, depth):
        return dict(k="textf", t="t%d" % self.nid(), fm=(self.nid() if self.rng.random() < self.p["p_fm"] else 0))

    def g_ret(self, ctx, depth):
        return dict(k="ret")

    def g_brk(self, ctx, depth):
        return dict(k="brk")

    def g_cont(self, ctx, depth):
        return dict(k="cont")

    def call_part(self, ctx, d, cap=False):
        de = self.defs[d]
        # (whether a binding error surfaces before or inside a decorator depends on the call route: not generated)
        args = self.gen_args(de["params"], allow_bad=not de["dec"])
        parts = []
        if (args["pos"] or args["kw"]) and self.rng.random() < self.p["p_amark"]:
            parts.append(dict(k="mark", m=self.nid(), rl=False, w="x" if ctx.hcx else "s", arg=True))
        if cap:
            parts.append(dict(k="cap", d=d, args=args))
        else:
            parts.append(dict(k="call", d=d, via="name", args=args))
        return parts

    def g_expr(self, ctx, depth):
        r = self.rng
        parts = []
        for _ in range(r.choice([1, 1, 2, 3])):
            ks = ["lit"]
            if ctx.vars:
                ks += ["val", "val"]
            if ctx.callable and depth > 0:
                ks += ["call", "call", "call", "cap"]
            if ctx.bsig is not None:
                ks += ["cbody", "cbody", "ccall"]
            k = r.choice(ks)
            if k == "lit":
                parts.append(dict(k="lit", t="t%d" % self.nid()))
            elif k == "val":
                v = r.choice(ctx.vars)
                parts.append(dict(k="val", v=v, vk=ctx.pk.get(v, "plain")))
            elif k == "call":
                parts += self.call_part(ctx, r.choice(ctx.callable))
            elif k == "cap":
                parts += self.call_part(ctx, r.choice(ctx.callable), cap=True)
            elif k == "cbody":
                parts.append(dict(k="cbody", args=self.gen_args(ctx.bsig)))
            elif k == "ccall":
                a = dict(pos=["v%d" % self.nid()] if r.random() < .6 else [], kw=[])
                parts.append(dict(k="call", d=r.choice(["n0", "n1"]), via="caller", args=a))
        return dict(k="expr", parts=parts)

    def g_callc(self, ctx, depth):
        r = self.rng
        if not ctx.callable:
            return None
        d = r.choice(ctx.callable)
        de = self.defs[d]
        parts = self.call_part(ctx, d)
        bctx = ctx.function(loop_refs=0, ret_ok=True, freeze_loop=False, no_loop=ctx.no_loop or (ctx.under_for and not self.p["loop_in_body_under_for"]),
                            in_else=False, hcx=False, in_callc=True, in_body=True)
        bctx.vars = [p["n"] for p in de["bsig"]]
        bctx.pk = {}
        defs = []
        # (a call tag inside another call tag defines no defs: the outer `caller` would see them too)
        if not ctx.in_callc and r.random() < self.p["p_calldefs"]:
            for nm in r.sample(["n0", "n1"], r.choice([1, 2])):
                key = "%s_%d" % (nm, self.nid())
                dctx = ctx.function(callable=ctx.callable, in_callc=True)
                self.gen_def(key, dctx, max(depth - 2, 0), params=[dict(n="y", kind="opt", dv="dy")], dec=False, nd=True)
                defs.append(dict(n=nm, key=key))
        body = self.gen_suite(bctx, depth - 1)
        return dict(k="callc", parts=parts, body=body, bparams=de["bsig"], defs=defs)

    def g_block(self, ctx, depth):
        key = "b%d" % self.nid()
        self.gen_def(key, ctx, depth - 1, blk=True)
        return dict(k="block", d=key)

    def g_inc(self, ctx, depth):
        if not getattr(self, "nincs", 0) or ctx.tmpl != 0:
            return None
        return dict(k="inc", t=self.rng.randint(1, self.nincs))

    def cmark(self, ctx, rl_ok=False):
        """a mark inside the expression of a control line (iterable, condition, context expression), or None."""
        if self.rng.random() >= self.p["p_cmark"]:
            return dict(NONE)
        return dict(k="mark", m=self.nid(), rl=bool(rl_ok and self.loop_ok(ctx) and self.rng.random() < .5),
                    w="x" if ctx.hcx else "s", ctl=True)

    def cond(self, ctx):
        r = self.rng
        if self.loop_ok(ctx) and r.random() < self.p["p_loopcond"]:
            return dict(ck=r.choice(["even", "first"]), v=False, cm=self.cmark(ctx))
        return dict(ck="const", v=r.random() < .55, cm=self.cmark(ctx))

    def g_if(self, ctx, depth):
        r = self.rng
        arms = [dict(c=self.cond(ctx), a=self.gen_suite(ctx.child(), depth - 1)) for _ in range(r.choice([1, 1, 2, 3]))]
        els = self.gen_suite(ctx.child(), depth - 1) if r.random() < .6 else []
        return dict(k="if", arms=arms, els=els, has_else=bool(els) or r.random() < .3)

    def g_for(self, ctx, depth):
        r = self.rng
        if ctx.freeze_loop:
            a = self.gen_suite(ctx.child(loop_refs=0, no_loop=True, in_loop=True, under_for=True), depth - 1)
        else:
            a = self.gen_suite(ctx.child(loop_refs=ctx.loop_refs + 1, in_loop=True, under_for=True), depth - 1)
        els = self.gen_suite(ctx.child(in_else=True, under_for=True), depth - 1) if r.random() < .35 else []
        st = dict(k="for", n=r.choice([0, 1, 2, 2, 3]), sized=r.random() < .7, a=a, els=els, has_else=bool(els) or r.random() < .2,
                  im=self.cmark(ctx, rl_ok=not ctx.freeze_loop), src="")
        if ctx.its and r.random() < self.p["p_src"]:
            st.update(src=r.choice(ctx.its)[0], n=0, sized=False)       # draws from a shared iterator
        return st

    def g_while(self, ctx, depth):
        return dict(k="while", n=self.rng.choice([0, 1, 2, 3]), id=self.nid(), cm=self.cmark(ctx),
                    a=self.gen_suite(ctx.child(in_loop=True, loop_refs=0 if not ctx.loop_refs else ctx.loop_refs), depth - 1))

    def g_try(self, ctx, depth):
        return dict(k="try", a=self.gen_suite(ctx.child(), depth - 1), h=self.gen_suite(ctx.child(), depth - 1))

    def g_with(self, ctx, depth):
        i = self.nid()
        return dict(k="with", t1="w%d(" % i, t2=")w%d" % i, cm=self.cmark(ctx), a=self.gen_suite(ctx.child(), depth - 1))

    # ---- whole program
    def gen_prog(self):
        r = self.rng
        self.defs = {}
        self.ids = itertools.count(1)
        self.nincs = r.randint(*self.p["nincs"])
        names = []
        pys = []
        for i in range(r.randint(*self.p["npy"])):
            self.gen_pydef("y%d" % i)
            pys.append("y%d" % i)
        names += pys
        for i in range(r.randint(*self.p["ndefs"])):
            key = "d%d" % i
            c = Ctx(names)
            self.gen_def(key, c, self.p["def_depth"], toplevel=True)
            names.append(key)
        incs = []
        for i in range(self.nincs):
            c = Ctx([], tmpl=i + 1)
            c.pk = {}
            incs.append(dict(body=self.gen_suite(c, max(self.p["depth"] - 1, 1)),
                             ieh=r.choice(self.p["ieh_modes"]) if r.random() < self.p["p_ieh"] else "none"))
        c = Ctx(names)
        c.pk = {}
        body = self.gen_suite(c, self.p["depth"])
        prog = dict(defs=self.defs, incs=incs, body=body)
        if cost_of(prog) > self.p.get("max_cost", 350):
            return self.gen_prog()
        eh = r.choice(self.p["eh_modes"]) if r.random() < self.p["eh"] else "none"
        xc = r.choice(self.p["xcs"])
        out = dict(defs=self.defs, incs=incs, body=body, eh=eh, top=[k for k in names if k not in pys], py=pys,
                   pymod=bool(pys) and r.random() < self.p["p_pymod"], el="on", xc=xc, route=r.choice(self.p["routes"]),
                   oe=r.choice(self.p["oes"]), ee=r.choice(self.p["ees"]), msgk=r.choice(self.p["msgs"]),
                   nasrc=r.random() < self.p["p_nasrc"],
                   fe=(eh == "none" and XB[xc] and r.random() < self.p.get("fe", 0.0)),
                   lk=(r.random() < self.p["p_lk"] and len({t["ieh"] for t in incs}) <= 1), inh=False, base=[])
        if r.random() < self.p["p_inh"]:
            # an inherited template: the base body runs first and renders this body through ${next.body()}
            c = Ctx([], tmpl=-1)
            base = self.gen_suite(c, 2, n=r.randint(1, 3))
            nb = dict(k="nextbody")
            pos = r.randrange(len(base) + 1)
            if r.random() < .4:
                nb = dict(k="try", a=[nb], h=[dict(k="text", t="t%d" % self.nid()), dict(k="mark", m=self.nid(), rl=False, w="s")])
            base.insert(pos, nb)
            out.update(inh=True, base=base)
        return out


def cost_of(p):
    """static upper estimate of the number of machine steps of a program (keeps TLC runs bounded)."""
    memo = {}

    def cdef(key):
        if key not in memo:
            memo[key] = 0
            memo[key] = 4 + csuite(p["defs"][key]["body"], 1)
        return memo[key]

    def csuite(stmts, bodycost):
        t = 0
        for s in stmts:
            k = s["k"]
            if k == "expr":
                for q in s["parts"]:
                    if q["k"] in ("call", "cap"):
                        t += 3 + (cdef(q["d"]) if q.get("via") != "caller" else 12)
                    elif q["k"] == "cbody":
                        t += bodycost
                    else:
                        t += 1
                t += 2
            elif k == "callc":
                inner = csuite(s["body"], bodycost) + 2
                call = [q for q in s["parts"] if q["k"] == "call"][0]
                t += 6 + cdef(call["d"]) + 3 * inner
            elif k == "block":
                t += cdef(s["d"])
            elif k == "inc":
                t += 4 + csuite(p["incs"][s["t"] - 1]["body"], 1)
            elif k == "if":
                t += 2 + max([csuite(a["a"], bodycost) for a in s["arms"]] + [csuite(s["els"], bodycost)])
            elif k == "for":
                t += 3 + s["n"] * (1 + csuite(s["a"], bodycost)) + csuite(s["els"], bodycost)
            elif k == "while":
                t += 2 + s["n"] * (1 + csuite(s["a"], bodycost))
            elif k == "try":
                t += 2 + csuite(s["a"], bodycost) + csuite(s["h"], bodycost)
            elif k == "with":
                t += 3 + csuite(s["a"], bodycost)
            else:
                t += 1
        return t
    return csuite(p["body"], 1)


# --------------------------------------------------------------------------- walking programs
SUB = ("a", "h", "els", "body")


def walk(stmts, fn, path=()):
    """fn(stmt, path) for every statement / part, depth first, in document order."""
    for s in stmts:
        fn(s, path)
        p2 = path + (s["k"],)
        for key in ("im", "cm"):
            if isinstance(s.get(key), dict) and s[key].get("k") == "mark":
                fn(s[key], p2 + ("expr",))
        if s["k"] == "if":
            for arm in s["arms"]:
                if arm["c"].get("cm", NONE).get("k") == "mark":
                    fn(arm["c"]["cm"], p2 + ("expr",))
                walk(arm["a"], fn, p2)
        for key in SUB:
            if key in s and isinstance(s[key], list):
                walk(s[key], fn, p2)
        if "parts" in s:
            walk(s["parts"], fn, p2)


def walk_prog(p, fn):
    for key, d in p["defs"].items():
        walk(d["body"], fn, ("def:" + key,))
    for i, t in enumerate(p["incs"]):
        walk(t["body"], fn, ("inc%d" % (i + 1),))
    walk(p.get("base") or [], fn, ("base",))
    walk(p["body"], fn, ("top",))


def mark_sites(p):
    """mark id -> lexical description (used only for signatures / reports)."""
    out = {}

    def fn(s, path):
        if s["k"] == "mark":
            out[s["m"]] = "/".join(x.split(":")[0] for x in path)
    walk_prog(p, fn)
    for key, d in p["defs"].items():
        if d["fm"]:
            out[d["fm"]] = "filter-function"
        if d["dm"]:
            out[d["dm"]] = "decorator"
    return out


def size_of(p):
    n = [0]
    walk_prog(p, lambda s, path: n.__setitem__(0, n[0] + 1))
    return n[0]


def has_feature(p, pred):
    hit = [False]

    def fn(s, path):
        if pred(s, path):
            hit[0] = True
    walk_prog(p, fn)
    return hit[0]


# --------------------------------------------------------------------------- TLA+ literals
TLA_KEYS = {  # fields of each record kind that the spec reads
    "text": ("k", "t"), "mark": ("k", "m", "rl", "w"), "expr": ("k", "parts"), "lit": ("k", "t"), "val": ("k", "v"),
    "call": ("k", "d", "via", "args"), "cap": ("k", "d", "args"), "cbody": ("k", "args"),
    "callc": ("k", "parts", "body", "bparams", "defs"), "block": ("k", "d"), "inc": ("k", "t"),
    "if": ("k", "arms", "els"), "for": ("k", "n", "sized", "a", "els", "im", "src"), "while": ("k", "n", "a", "cm"), "try": ("k", "a", "h"),
    "with": ("k", "t1", "t2", "a", "cm"), "py": ("k", "v", "t"), "ret": ("k",), "brk": ("k",), "cont": ("k",), "textf": ("k", "t", "fm"), "nextbody": ("k",),
    "mkit": ("k", "v", "toks"), "drain": ("k", "v"), "itobs": ("k", "v", "kind"),
}


NONE = {"k": "none"}
_DEFAULTS = {"for": {"im": NONE, "src": ""}, "while": {"cm": NONE}, "with": {"cm": NONE}}


def tla(v):
    if isinstance(v, dict) and v.get("k") in _DEFAULTS:
        v = dict(_DEFAULTS[v["k"]], **v)
    if isinstance(v, dict) and "ck" in v and "cm" not in v:
        v = dict(v, cm=NONE)
    if isinstance(v, dict) and "nt" in v:           # keyword argument: its value as pieces of atoms
        pcs = [list(pc["atoms"]) for pc in v["pieces"]] if "pieces" in v else [[v["v"]]]
        v = dict(n=v["n"], nt=v["nt"], pcs=pcs)
    if isinstance(v, dict) and "k" in v and v["k"] in TLA_KEYS:
        return "[" + ", ".join("%s |-> %s" % (f, tla(v[f])) for f in TLA_KEYS[v["k"]]) + "]"
    if isinstance(v, dict):
        if not v:
            return "[zz \\in {} |-> 0]"
        return "[" + ", ".join("%s |-> %s" % (f, tla(x)) for f, x in v.items()) + "]"
    if isinstance(v, (list, tuple)):
        return "<<" + ", ".join(tla(x) for x in v) + ">>"
    if isinstance(v, (set, frozenset)):
        return "{" + ", ".join(sorted(tla(x) for x in v)) + "}"
    return core.to_tla(v)


def tla_def(d):
    return tla(dict(flags=set(d["flags"]), fm=d["fm"], dec=d["dec"], dm=d["dm"], blk=d["blk"],
                    params=[dict(n=p["n"], kind=p["kind"], dv=p["dv"]) for p in d["params"]], body=d["body"]))


def tla_prog(p):
    defs = "[" + ", ".join("%s |-> %s" % (k, tla_def(d)) for k, d in p["defs"].items()) + "]" if p["defs"] else "[zz \\in {} |-> 0]"
    incs = tla([dict(body=t["body"], ieh=hmode(t["ieh"])) for t in p["incs"]])
    return "[defs |-> %s, incs |-> %s, body |-> %s, eh |-> %s, fe |-> %s, el |-> %s, xb |-> %s, inh |-> %s, base |-> %s]" % (
        defs, incs, tla(p["body"]), tla(hmode(p["eh"])), tla(bool(p.get("fe"))), tla(p.get("el", "on")),
        tla(XB[p.get("xc", "boom")]), tla(bool(p.get("inh"))), tla(p.get("base") or []))


INVARIANTS = ["StackDiscipline", "LoopStackMatchesNesting", "Balanced", "NextCallerOnlyAroundCalls", "BufferRestored",
              "CallerRestored", "LoopRevert", "RestoredAtHandler", "PartialDiscarded", "CaptureLeavesOutput", "FilterOnce",
              "Propagates"]


def _run_tlc_chunk(run, progs, maxraise, name, dev, coverage, workers, invariants):
    mod = "MCR_" + re.sub(r"\W", "_", name)
    text = ("---- MODULE %s ----\nEXTENDS Render\nProgsDef == <<\n%s\n>>\nDevDef == {%s}\n====\n"
            % (mod, ",\n".join(tla_prog(p) for p in progs), ", ".join('"%s"' % d for d in dev)))
    cfg = "CONSTANTS\n Progs <- ProgsDef\n MaxRaise = %d\n Dev <- DevDef\nSPECIFICATION Spec\nCHECK_DEADLOCK FALSE\n" % maxraise
    if invariants:
        cfg += "".join("INVARIANT %s\n" % i for i in INVARIANTS)
    cfg += "INVARIANT Emit\n"
    return run.tlc(mod, cfg, name=name, extra_files={mod + ".tla": text}, coverage=coverage, workers=workers, timeout=600,
                   heap="3g", env={"JAVA_TOOL_OPTIONS": "-Xss64m"})


CHUNK = 30


def tlc_parallelism():
    """(concurrent TLC processes, workers each): 4 cores while developing, all cores in registered runs."""
    if os.environ.get("VERIF_DEV"):
        return 2, 2
    return max(1, core.NCPU // 2), 2


class _Merged:
    def __init__(self):
        self.violated = []
        self.coverage = {}
        self.results = []
        self.first_bad = None


def run_tlc(run, progs, maxraise, name, dev=(), coverage=False, workers=None, invariants=True):
    """TLC executes every (program, raise point) -- in chunks, several TLC processes side by side.
    Returns ({(pid, ra): record}, merged result)."""
    from concurrent.futures import ThreadPoolExecutor
    par, w = tlc_parallelism()
    chunks = [(i, progs[i:i + CHUNK]) for i in range(0, len(progs), CHUNK)]
    merged = _Merged()
    recs = {}

    def one(ch):
        base, ps = ch
        return base, _run_tlc_chunk(run, ps, maxraise, "%s-%d" % (name, base // CHUNK), dev, coverage, w, invariants)
    with ThreadPoolExecutor(max_workers=par) as pool:
        for base, res in pool.map(one, chunks):
            merged.results.append(res)
            if res.violated and merged.first_bad is None:
                merged.first_bad = res
                merged.violated = res.violated
            for a, (d, g) in res.coverage.items():
                c = merged.coverage.setdefault(a, [0, 0])
                c[0] += d
                c[1] += g
            for r in res.json_lines():
                if isinstance(r, dict) and "pid" in r and "ra" in r:
                    r["pid"] += base
                    recs[(r["pid"], r["ra"])] = r
    return recs, merged


# =========================================================================== concretisation
MODULE_BLOCK = '''<%!
def Fm(context, m):
    def f(s):
        if m:
            context['mk'](context, m, None, None, 'x')
        return '[F(]' + s + '[)]'
    return f
def Dm(m):
    def deco(fn):
        def go(context, *a, **kw):
            context.write('[D(]')
            if m:
                context['mk'](context, m, None, None, 'x')
            r = fn(*a, **kw)
            context.write('[)D]')
            return r
        return go
    return deco
def dsj(kw):
    return "".join("[%s:]%s" % (n, v) for n, v in sorted(kw.items()))
def pycap(context, name, *a, **kw):
    from mako import runtime
    return runtime.capture(context, getattr(context['self'], name), *a, **kw)
def genf(items, log, name):
    """a generator whose finally is observable per instance: log[name] = (generator, state)."""
    state = {'fin': False}
    def g():
        try:
            for x in items:
                yield x
        finally:
            state['fin'] = True
    it = g()
    log[name] = (it, state)
    return it
class ItObj:
    """an iterator object with a close() method that records calls."""
    def __init__(self, items, log, name):
        self.items, self.closed = list(items), False
    def __iter__(self):
        return self
    def __next__(self):
        if not self.items:
            raise StopIteration
        return self.items.pop(0)
    def close(self):
        self.closed = True
class GetItemOnly:
    def __init__(self, n):
        self.n = n
    def __getitem__(self, i):
        if i >= self.n:
            raise IndexError(i)
        return i
class NoLen:
    def __init__(self, n):
        self.n = n
    def __iter__(self):
        return iter(range(self.n))
def vis(v):
    import re
    if v is None:
        return '[none]'
    if not isinstance(v, str):
        return '[i%s]' % (v,)
    return ''.join('[%s]' % {' ': 'SP', '-': 'DASH', ':': 'COLON'}.get(t, t) for t in re.findall(r'[a-z][0-9]+|.', v, re.S))
%>
'''


class Conc:
    """abstract program -> {uri: template text}.  Free layout choices are drawn from `rng`."""

    def __init__(self, prog, rng, plain=False):
        self.p = prog
        self.r = rng
        self.plain = plain          # no cosmetic variation (used for standalone repro scripts)

    def tok(self, t):
        return "[%s]" % t

    def pystr(self, t):
        return "'[%s]'" % t

    def ind(self):
        if self.plain:
            return ""
        return self.r.choice(["", "", " ", "  ", "    ", "\t", " \t", "        "])

    def ctl(self, text):
        sp = "" if self.plain else self.r.choice(["", " ", " ", "  "])
        line = self.ind() + "%" + sp + text
        if not self.plain and self.r.random() < .08:
            line += "  # c"
        return line + "\n"

    def end(self, kw):
        return self.ctl("end" + kw)

    def comment(self):
        if self.p.get("nasrc"):
            # source lines quoted on an error page: non-ASCII, non-latin-1 and non-BMP characters
            if self.plain or self.r.random() < .35:
                return "## caf\xe9 \u20ac\u2603 \U0001d11e\n"
            return ""
        if not self.plain and self.r.random() < .12:
            return self.ind() + "## a comment\n"
        return ""

    def mk(self, s, kind="s"):
        loop = "loop" if s.get("rl") else "None"
        if s.get("w") == "x":
            return "mk(context, %d, None, %s, 'x')" % (s["m"], loop)
        return "mk(context, %d, caller, %s)" % (s["m"], loop)

    ATOM_TEXT = {"SP": " ", "DASH": "-", "COLON": ":"}

    def piece_py(self, pc):
        """Python expression for one piece of a keyword value."""
        if pc["kind"] == "expr":
            a = pc["atoms"][0]
            return "None" if a == "none" else a[1:] if a[0] == "i" else repr(a)
        return repr("".join(self.ATOM_TEXT.get(a, a) for a in pc["atoms"]))

    def pieces_attr(self, pieces):
        """text of a tag attribute value made of these pieces."""
        return "".join("${%s}" % self.piece_py(pc) if pc["kind"] == "expr" else "".join(self.ATOM_TEXT.get(a, a) for a in pc["atoms"])
                       for pc in pieces)

    def pieces_py(self, pieces):
        if len(pieces) == 1 and pieces[0]["kind"] == "expr":
            return self.piece_py(pieces[0])
        return " + ".join(self.piece_py(pc) for pc in pieces) or "''"

    def args_text(self, args, amark, attr_style=False):
        items = [("", v) for v in args["pos"]]
        kws = [(a["n"], a) for a in args["kw"]]
        if not self.plain:
            self.r.shuffle(kws)
        items += kws
        out = []
        for i, (n, v) in enumerate(items):
            e = self.pieces_py(v["pieces"]) if isinstance(v, dict) and "pieces" in v else self.pystr(v["v"] if isinstance(v, dict) else v)
            if i == 0 and amark is not None:
                e = "(%s, %s)[1]" % (self.mk(amark), e)
            out.append(("%s=%s" % (n, e)) if n else e)
        return ", ".join(out)

    def target(self, d, via):
        if via == "caller":
            return "caller.%s" % d
        if d in self.p["top"] and self.cur_tmpl == 0 and not self.plain:
            return self.r.choice([d, d, "self." + d, "local." + d])
        return d

    def callexpr(self, d, a):
        """a call of def `d` with argument text `a`; Python callables take the context explicitly unless they are
        reached through a module= namespace."""
        if d in self.p.get("py", ()):
            if self.p.get("pymod"):
                return "pm.%s(%s)" % (d, a)
            return "%s(context%s)" % (d, (", " + a) if a else "")
        return "%s(%s)" % (self.target(d, "name"), a)

    def part(self, s, amark, in_body):
        k = s["k"]
        if k == "lit":
            return self.pystr(s["t"])
        if k == "val":
            vk = s.get("vk", "plain")
            return {"plain": s["v"], "pos": s["v"], "opt": s["v"], "kwo": s["v"], "kwopt": s["v"],
                    "star": "''.join(%s)" % s["v"], "dstar": "dsj(%s)" % s["v"], "vis": "vis(%s)" % s["v"]}[vk]
        if k == "call":
            if s["via"] == "caller":
                return "(caller.%s(%s) if caller and hasattr(caller, '%s') else '')" % (s["d"], self.args_text(s["args"], amark), s["d"])
            return self.callexpr(s["d"], self.args_text(s["args"], amark))
        if k == "cap":
            a = self.args_text(s["args"], amark)
            d = s["d"]
            if d in self.p.get("py", ()):
                if self.p.get("pymod"):
                    return "capture(pm.%s%s)" % (d, (", " + a) if a else "")
                return "capture(%s, context%s)" % (d, (", " + a) if a else "")
            if d in self.p["top"] and self.cur_tmpl == 0 and not self.plain and amark is None and self.r.random() < .3:
                # a plain Python function calling runtime.capture(context, f, ...)
                return "pycap(context, '%s'%s)" % (d, (", " + a) if a else "")
            return "capture(%s%s)" % (self.target(d, "name"), (", " + a) if a else "")
        if k == "cbody":
            return "(caller.body(%s) if caller else '')" % self.args_text(s["args"], amark)
        raise MachineryError("unknown part %r" % (s,))

    def parts_text(self, parts):
        out = []
        amark = None
        for s in parts:
            if s["k"] == "mark":
                if s.get("arg"):
                    amark = s
                else:
                    out.append(self.mk(s))
                continue
            out.append(self.part(s, amark, False))
            amark = None
        return out

    def params_text(self, ps):
        out = []
        for p in ps:
            k = p["kind"]
            if k == "pos" or k == "kwo":
                if k == "kwo" and not any(q["kind"] == "star" for q in ps):
                    out.append("*")
                out.append(p["n"])
            elif k in ("opt", "kwopt"):
                out.append("%s=%s" % (p["n"], self.pystr(p["dv"])))
            elif k == "star":
                out.append("*" + p["n"])
            elif k == "dstar":
                out.append("**" + p["n"])
        return ", ".join(out)

    def def_text(self, key, name=None):
        d = self.p["defs"][key]
        attrs = ""
        if "buffered" in d["flags"]:
            attrs += ' buffered="True"'
        if "filter" in d["flags"]:
            attrs += ' filter="Fm(context, %d)"' % d["fm"]
        if d["dec"]:
            attrs += ' decorator="Dm(%d)"' % d["dm"]
        inner = "".join(self.def_text(nk) for nk in d["nested"])
        return '<%%def name="%s(%s)"%s>\n%s%s</%%def>\n' % (name or key, self.params_text(d["params"]), attrs, inner, self.suite(d["body"]))

    def attr_value(self, v, amark):
        if amark is not None:
            return "${(%s, %s)[1]}" % (self.mk(amark), self.pystr(v))
        c = 0 if self.plain else self.r.randrange(4)
        if c == 0:
            return "[%s]" % v
        if c == 1:
            return "${%s}" % self.pystr(v)
        if c == 2:
            return "[${'%s'}]" % v
        return "${'['}%s${']'}" % v

    def callc(self, s):
        amark = None
        call = None
        for q in s["parts"]:
            if q["k"] == "mark":
                amark = q
            else:
                call = q
        bargs = self.params_text(s["bparams"])
        inner = "".join(self.def_text(e["key"], e["n"]) for e in s["defs"]) + self.suite(s["body"])
        d = call["d"]
        ns_ok = (not call["args"]["pos"]) and d in self.p["top"] and self.cur_tmpl == 0 and (not self.plain or s.get("ns"))
        if ns_ok and (s.get("ns") or self.r.random() < .5):
            ns = "self" if self.plain else self.r.choice(["self", "local"])
            kws = list(call["args"]["kw"])
            if not self.plain:
                self.r.shuffle(kws)
            attrs = ""
            for i, a in enumerate(kws):
                if "pieces" in a:
                    attrs += ' %s="%s"' % (a["n"], self.pieces_attr(a["pieces"]))
                    continue
                attrs += ' %s="%s"' % (a["n"], self.attr_value(a["v"], amark if i == 0 else None))
            if bargs:
                attrs += ' args="%s"' % bargs
            return "<%%%s:%s%s>\n%s</%%%s:%s>\n" % (ns, d, attrs, inner, ns, d)
        if d in self.p.get("py", ()) and self.p.get("pymod") and not call["args"]["pos"] and not self.plain and self.r.random() < .5:
            attrs = ""
            for i, a in enumerate(call["args"]["kw"]):
                attrs += ' %s="%s"' % (a["n"], self.attr_value(a["v"], amark if i == 0 else None))
            if bargs:
                attrs += ' args="%s"' % bargs
            return "<%%pm:%s%s>\n%s</%%pm:%s>\n" % (d, attrs, inner, d)
        expr = self.callexpr(d, self.args_text(call["args"], amark))
        return '<%%call expr="%s"%s>\n%s</%%call>\n' % (expr, (' args="%s"' % bargs) if bargs else "", inner)

    def truth(self, v):
        if self.plain:
            return str(bool(v))
        return self.r.choice(["True", "1 == 1", "not []", "'a'"] if v else ["False", "1 == 2", "[]", "None", "''"])

    def wrap(self, mark, expr):
        """the expression of a control line, with the mark (if any) evaluated first."""
        if not mark or mark.get("k") != "mark":
            return expr
        return "(%s, %s)[1]" % (self.mk(mark), expr)

    def cond(self, c):
        if c["ck"] == "const":
            return self.wrap(c.get("cm"), self.truth(c["v"]))
        return self.wrap(c.get("cm"), "loop." + c["ck"])

    def iterable(self, n, sized):
        """"whatever the iterable": list, tuple, str, range, dict and its views, set (<= 1 element) when sized;
        generator expression, iterator, generator function result, __getitem__-only object, __iter__-only object
        (no len()) when not."""
        r = self.r
        if sized:
            forms = ["range(%d)" % n, "[%s]" % ", ".join(str(i) for i in range(n)), "'abcdef'[:%d]" % n,
                     "(%s)" % "".join("%d, " % i for i in range(n)) if n else "()", "list(range(%d))" % n,
                     "dict.fromkeys(range(%d))" % n, "dict.fromkeys(range(%d)).keys()" % n, "dict.fromkeys(range(%d)).items()" % n,
                     "dict.fromkeys(range(%d)).values()" % n]
            if n <= 1:
                forms.append("set(range(%d))" % n)
        else:
            forms = ["(q for q in range(%d))" % n, "iter(range(%d))" % n, "iter([%s])" % ", ".join(str(i) for i in range(n)),
                     "genf(range(%d), {}, 'z')" % n, "GetItemOnly(%d)" % n, "NoLen(%d)" % n, "ItObj(range(%d), {}, 'z')" % n]
        return forms[0] if self.plain else r.choice(forms)

    def pyblock(self, lines):
        """a <% %> block holding `lines` at a random uniform margin."""
        if self.plain or self.r.random() < .4:
            return "<% " + "; ".join(lines) + " %>\n"
        margin = self.r.choice(["", "  ", "    ", "\t", "          "])
        body = []
        for ln in lines:
            c = self.r.randrange(4)
            if c == 0:
                body += [margin + "if 1:", margin + "    " + ln]
            elif c == 1:
                body += [self.r.choice(["", margin, margin + "  ", " "]) + "# note", margin + ln]
            elif " = " in ln and self.r.random() < .4:
                # the assignment split by a backslash continuation whose second line carries a comment, and one more
                # statement after it (the continuation state of the re-margining scanner must end with the logical line)
                lhs, rhs = ln.split(" = ", 1)
                body += [margin + lhs + " = \\", margin + "      " + rhs + "  # continued", margin + "pass"]
            else:
                body.append(margin + ln)
        return self.ind() + "<%\n" + "\n".join(body) + "\n" + self.r.choice(["", " ", margin]) + "%>\n"

    def stmt(self, s):
        k = s["k"]
        r = self.r
        if k == "text":
            return (self.tok(s["t"]) if self.plain else r.choice(["", "", " ", "x "]) + self.tok(s["t"]) + r.choice(["", "", " y"])) + "\n"
        if k == "mark":
            if not self.plain and r.random() < .3:
                return self.pyblock([self.mk(s)])
            return "${%s}\n" % self.mk(s)
        if k == "expr":
            ps = self.parts_text(s["parts"])
            return "${%s}\n" % (" + ".join(ps) if ps else "''")
        if k == "callc":
            return self.callc(s)
        if k == "block":
            d = self.p["defs"][s["d"]]
            attr = (' filter="Fm(context, %d)"' % d["fm"]) if "filter" in d["flags"] else ""
            if "buffered" in d["flags"]:
                attr += ' buffered="True"' 
            return "<%%block%s>\n%s</%%block>\n" % (attr, self.suite(d["body"]))
        if k == "inc":
            return '<%%include file="inc%d"/>\n' % s["t"]
        if k == "nextbody":
            return "${next.body()}\n"
        if k == "textf":
            return '<%%text filter="Fm(context, %d)">[%s]</%%text>\n' % (s["fm"], s["t"])
        if k == "if":
            o = ""
            for i, arm in enumerate(s["arms"]):
                o += self.ctl("%s %s:" % ("if" if i == 0 else "elif", self.cond(arm["c"]))) + self.suite(arm["a"])
            if s["els"] or s.get("has_else"):
                o += self.ctl("else:") + self.suite(s["els"])
            return o + self.end("if")
        if k == "for":
            it = s["src"] if s.get("src") else self.iterable(s["n"], s["sized"])
            o = self.ctl("for v%d in %s:" % (r.randrange(1000) if not self.plain else 0, self.wrap(s.get("im"), it))) + self.suite(s["a"])
            if s["els"] or s.get("has_else"):
                o += self.ctl("else:") + self.suite(s["els"])
            return o + self.end("for")
        if k == "while":
            w = "w%d" % s["id"]
            return (self.pyblock(["%s = 0" % w]) + self.ctl("while %s:" % self.wrap(s.get("cm"), "%s < %d" % (w, s["n"]))) + self.pyblock(["%s += 1" % w])
                    + self.suite(s["a"]) + self.end("while"))
        if k == "try":
            exc = "except Boom:" if self.plain else r.choice(["except Boom:", "except Boom as e:", "except (Boom,):"])
            return self.ctl("try:") + self.suite(s["a"]) + self.ctl(exc) + self.suite(s["h"]) + self.end("try")
        if k == "with":
            return (self.ctl("with cm(%s, '[%s]', '[%s]'):" % (self.wrap(s.get("cm"), "context"), s["t1"], s["t2"]))
                    + self.suite(s["a"]) + self.end("with"))
        if k == "py":
            return self.pyblock(["%s = %s" % (s["v"], self.pystr(s["t"]))])
        if k == "mkit":
            items = "[%s]" % ", ".join(self.pystr(t) for t in s["toks"])
            make = {"genfn": "genf(%s, itlog, '%s')" % (items, s["v"]), "genexp": "(q for q in %s)" % items,
                    "itobj": "ItObj(%s, itlog, '%s')" % (items, s["v"])}[s["kind"]]
            return self.pyblock(["%s = %s" % (s["v"], make)])
        if k == "drain":
            return "${''.join(%s)}\n" % s["v"]
        if k == "itobs":
            if s["kind"] == "genfn":
                return "${'[fin]' if (%s, itlog['%s'])[1][1]['fin'] else '[untouched]'}\n" % (s["v"], s["v"])
            return "${'[closed]' if %s.closed else '[untouched]'}\n" % s["v"]
        if k == "ret":
            return self.pyblock(["return STOP_RENDERING"])
        if k == "brk":
            return self.pyblock(["break"])
        if k == "cont":
            return self.pyblock(["continue"])
        raise MachineryError("unknown statement %r" % (s,))

    def suite(self, stmts):
        o = ""
        for s in stmts:
            o += self.comment() + self.stmt(s)
        if not stmts:
            o += self.comment()
        return o

    def pysuite(self, stmts, ind):
        """the body of a Python callable (subset of the statement grammar) as Python source."""
        pad = "    " * ind
        o = []
        for s in stmts:
            k = s["k"]
            if k == "text":
                o.append(pad + "context.write('[%s]')" % s["t"])
            elif k == "mark":
                o.append(pad + self.mk(s))
            elif k == "expr":
                ps = self.parts_text(s["parts"])
                o.append(pad + "context.write(str(%s))" % (" + ".join(ps) if ps else "''"))
            elif k == "py":
                o.append(pad + "%s = %s" % (s["v"], self.pystr(s["t"])))
            elif k == "try":
                o += [pad + "try:", self.pysuite(s["a"], ind + 1), pad + "except Boom:", self.pysuite(s["h"], ind + 1)]
            elif k == "if":
                for i, arm in enumerate(s["arms"]):
                    o += [pad + "%s %s:" % ("if" if i == 0 else "elif", self.cond(arm["c"])), self.pysuite(arm["a"], ind + 1)]
                if s["els"] or s.get("has_else"):
                    o += [pad + "else:", self.pysuite(s["els"], ind + 1)]
            elif k == "for":
                it = "range(%d)" % s["n"] if s["sized"] else "iter(range(%d))" % s["n"]
                o += [pad + "for v%d in %s:" % (ind, self.wrap(s.get("im"), it)), self.pysuite(s["a"], ind + 1)]
                if s["els"] or s.get("has_else"):
                    o += [pad + "else:", self.pysuite(s["els"], ind + 1)]
            elif k == "ret":
                o.append(pad + "return ''")
            elif k == "brk":
                o.append(pad + "break")
            elif k == "cont":
                o.append(pad + "continue")
            else:
                raise MachineryError("statement %r in a Python callable" % (s,))
        if not stmts:
            o.append(pad + "pass")
        return "\n".join(o)

    def pydefs_source(self):
        p = self.p
        src = ["from mako import runtime"]
        for key in p.get("py", ()):
            d = p["defs"][key]
            ps = self.params_text(d["params"])
            src += ["@runtime.supports_caller", "def %s(context%s):" % (key, (", " + ps) if ps else ""),
                    "    caller, mk, Boom = context['caller'], context['mk'], context['Boom']",
                    "    dsj = lambda kw: ''.join('[%s:]%s' % (n, v) for n, v in sorted(kw.items()))",
                    self.pysuite(d["body"], 1), "    return ''"]
        return "\n".join(src) + "\n"

    def templates(self):
        p = self.p
        out = {}
        pyblock = ""
        if p.get("py"):
            if p.get("pymod"):
                _PYMOD[0] += 1
                name = "mvpy_%d_%d" % (os.getpid(), _PYMOD[0])
                out["__pymod__"] = (name, self.pydefs_source())
                pyblock = '<%%namespace name="pm" module="%s"/>\n' % name
            else:
                pyblock = "<%!\n" + self.pydefs_source() + "%>\n"
        self.cur_tmpl = 0
        page = ""
        if p.get("el") == "page":
            page = '<%page enable_loop="True"/>\n'
        inh = '<%inherit file="base"/>\n' if p.get("inh") else ""
        out["main"] = page + inh + MODULE_BLOCK + pyblock + "".join(self.def_text(k) for k in p["top"]) + self.suite(p["body"])
        if p.get("inh"):
            self.cur_tmpl = -1
            out["base"] = MODULE_BLOCK + self.suite(p["base"])
            self.cur_tmpl = 0
        for i, t in enumerate(p["incs"]):
            self.cur_tmpl = i + 1
            out["inc%d" % (i + 1)] = MODULE_BLOCK + self.suite(t["body"])
        return out


_PYMOD = [0]
_PYDIR = [None]


def _install_pymod(name, source):
    """write a module for <%namespace module=...> where `import` finds it (removed at exit)."""
    import atexit
    import importlib
    import shutil
    import sys
    import tempfile
    if _PYDIR[0] is None:
        _PYDIR[0] = tempfile.mkdtemp(prefix="mvpy-", dir="/dev/shm" if os.path.isdir("/dev/shm") else None)
        sys.path.insert(0, _PYDIR[0])
        atexit.register(shutil.rmtree, _PYDIR[0], True)
    with open(os.path.join(_PYDIR[0], name + ".py"), "w") as f:
        f.write(source)
    importlib.invalidate_caches()


# =========================================================================== execution on real Mako
class Boom(Exception):
    pass


class Abort(BaseException):
    """an application's own abort class: BaseException only, required constructor argument, payload."""

    def __init__(self, code):
        super().__init__(code)
        self.payload = code


class Other(Exception):
    pass


MSG = {"ascii": "planted", "latin1": "planted caf\xe9", "nonlatin": "planted \u20ac\u2603", "nonbmp": "planted \U0001d11e"}


class Runaway(BaseException):
    pass


class _Timeout(BaseException):
    pass


def _alarm(signum, frame):
    raise _Timeout()


class Executor:
    """Real templates of one program; run(raise_at) renders once and returns the observation."""

    def __init__(self, prog, texts):
        self.prog = prog
        self.texts = texts
        self.err = None
        self.main = None
        self.cnt = 0
        self.raise_at = 0
        self.obs = []
        self.ctx = None
        try:
            self._build()
        except _Timeout:
            raise
        except Exception as e:  # noqa -- compile errors are observations, not crashes
            self.err = "exc:" + type(e).__name__

    def _handler(self, tok, mode):
        ex = self

        def h(context, error):
            context.write("[%s]" % tok)
            if mode == "raise":
                ex.other = Other("raised by the handler")
                raise ex.other
            return True if mode == "true" else ex.falsy
        return h

    def _build(self):
        from mako.lookup import TemplateLookup
        from mako.template import Template
        p = self.prog
        if "__pymod__" in self.texts:
            _install_pymod(*self.texts["__pymod__"])
        self.falsy = [False, None, 0][len(p["body"]) % 3]
        self.xcls = {"boom": Boom, "abort": Abort, "sysexit": SystemExit, "kbint": KeyboardInterrupt, "stopiter": StopIteration}[p.get("xc", "boom")]
        eh = hmode(p["eh"])
        main_kw = {}
        if p.get("el", "on") != "on":
            main_kw["enable_loop"] = False
        if p.get("fe"):
            main_kw["format_exceptions"] = True
        if p.get("oe"):
            main_kw["output_encoding"] = p["oe"]
        if p.get("ee", "strict") != "strict":
            main_kw["encoding_errors"] = p["ee"]
        if p.get("lk"):
            # handlers and options given to the TemplateLookup, templates created by the lookup
            lkw = dict(main_kw)
            if eh != "none":
                lkw["error_handler"] = self._handler("eh", eh)
            modes = {hmode(t["ieh"]) for t in p["incs"]}
            if modes and modes != {"none"}:
                lkw["include_error_handler"] = self._handler("ieh", modes.pop())
            lk = TemplateLookup(**lkw)
            for uri in sorted(self.texts):
                if not uri.startswith("__"):
                    lk.put_string(uri, self.texts[uri])
            self.main = lk.get_template("main")
        else:
            lk = TemplateLookup()
            for i, t in enumerate(p["incs"]):
                uri = "inc%d" % (i + 1)
                kw = {"include_error_handler": self._handler("ieh", hmode(t["ieh"]))} if hmode(t["ieh"]) != "none" else {}
                lk.put_template(uri, Template(self.texts[uri], lookup=lk, uri=uri, **kw))
            if p.get("inh"):
                lk.put_template("base", Template(self.texts["base"], lookup=lk, uri="base"))
            if eh != "none":
                main_kw["error_handler"] = self._handler("eh", eh)
            self.main = Template(self.texts["main"], lookup=lk, uri="main", **main_kw)
            lk.put_template("main", self.main)
        compile(self.main.code, "main", "exec")

    def _plant(self):
        c = self.prog.get("xc", "boom")
        if c == "abort":
            return Abort(41)
        if c == "sysexit":
            return SystemExit(3)
        if c == "kbint":
            return KeyboardInterrupt()
        if c == "stopiter":
            return StopIteration(MSG[self.prog.get("msgk", "ascii")])
        return Boom(MSG[self.prog.get("msgk", "ascii")])

    def _decode(self, b):
        """text of rendered bytes: the page / output is decoded as utf-8 or as the configured output_encoding."""
        if not isinstance(b, bytes):
            return b
        for enc in ("utf-8", self.prog.get("oe") or "utf-8"):
            try:
                return b.decode(enc)
            except UnicodeDecodeError:
                pass
        return "undecodable-output \xff"

    def _page(self, text):
        """an error page must name the exception class and carry its message (entity-escaped where needed)."""
        import html
        if "Mako Runtime Error" not in text:
            return ["not-an-error-page"]
        t = html.unescape(text)
        if self.boom is not None and type(self.boom).__name__ in t and str(self.boom.args[0]) in t:
            return ["ERRPAGE"]
        if any(n in t for n in ("TypeError", "UnboundLocalError", "Other")):
            return ["ERRPAGE"]
        return ["error-page-without-the-exception"]

    def _mk(self, context, m, caller, loop, w="s"):
        self.cnt += 1
        if self.cnt > 3000:
            raise Runaway()
        o = {"m": m}
        try:
            o["b"] = len(context._buffer_stack)
            o["c"] = len(context.caller_stack)
            o["nc"] = context.caller_stack.nextcaller is not None
            if w == "x":
                o["hc"] = "-"
            else:
                o["hc"] = "y" if (caller is not None and bool(caller)) else "n"
            if loop is None:
                o["lp"] = []
            elif loop == "ctxloop":
                o["lp"] = [-7]
            else:
                i = loop.index
                try:
                    n = len(loop)
                except TypeError:
                    n = -1

                def tri(f):
                    try:
                        v = f()
                        return int(v)
                    except TypeError:
                        return -1
                par = loop.parent.index if loop.parent is not None else -1
                o["lp"] = [i, n, int(loop.first), tri(lambda: loop.last), int(loop.even), int(loop.odd),
                           tri(lambda: loop.reverse_index), {"a": 0, "b": 1, "c": 2}[loop.cycle("a", "b", "c")], par]
        except (_Timeout, Runaway):
            raise
        except Exception as e:  # noqa
            o["err"] = "exc:" + type(e).__name__
        self.obs.append(o)
        self.lastctx = context
        if self.cnt == self.raise_at:
            self.boom = self._plant()
            self.boom_args = self.boom.args
            raise self.boom
        return ""

    def run(self, raise_at):
        if self.err:
            return {"res": self.err, "out": [], "obs": [], "fb": 1, "fc": 0, "fnc": False, "after": True, "same": True}
        import contextlib
        from mako import util
        from mako.runtime import Context
        self.cnt = 0
        self.raise_at = raise_at
        self.obs = []
        self.boom = None
        buf = util.FastEncodingBuffer()

        @contextlib.contextmanager
        def cm(context, t1, t2):
            context.write(t1)
            try:
                yield None
            finally:
                context.write(t2)
        data = dict(mk=self._mk, Boom=self.xcls, cm=cm, itlog={})
        if self.prog.get("el", "on") == "off":
            data["loop"] = "ctxloop"
        route = self.prog.get("route", "context")
        self.other = None
        self.lastctx = None
        ctx = None
        text = None
        if route == "context":
            if self.prog.get("oe"):      # as runtime._render does for render(): an encoding buffer, bytes out
                buf = util.FastEncodingBuffer(encoding=self.prog["oe"], errors=self.prog.get("ee", "strict"))
            ctx = Context(buf, **data)
            ctx._outputting_as_unicode = not self.prog.get("oe")
        same = True
        old = signal.signal(signal.SIGALRM, _alarm)
        signal.setitimer(signal.ITIMER_REAL, core.tscale(10))
        try:
            try:
                if route == "context":
                    self.main.render_context(ctx)
                elif route == "unicode":
                    text = self.main.render_unicode(**data)
                else:
                    text = self.main.render(**data)
                res = "ok"
            except (Runaway, _Timeout):
                res = "exc:Runaway"
            except BaseException as e:  # noqa -- every class is an observation
                if e is self.boom:
                    res = "exc:boom"
                    same = e.args == self.boom_args and (not isinstance(e, SystemExit) or e.code == 3) \
                        and (not isinstance(e, Abort) or e.payload == 41)
                elif self.other is not None and e is self.other:
                    res = "exc:other"
                elif self.boom is not None and type(e) is type(self.boom):
                    res = "exc:boom"        # same class, but not the object that was raised
                    same = False
                elif isinstance(e, UnboundLocalError):
                    res = "exc:unbound"
                elif isinstance(e, TypeError):
                    res = "exc:type"
                else:
                    res = "exc:" + type(e).__name__
        finally:
            signal.setitimer(signal.ITIMER_REAL, 0)
            signal.signal(signal.SIGALRM, old)
        o = {"res": res, "obs": self.obs, "same": same, "after": True, "fb": None, "fc": None, "fnc": None, "out": None}
        try:
            if route != "context":
                c2 = self.lastctx
                if c2 is not None and res != "ok":
                    o["fb"], o["fc"], o["fnc"] = len(c2._buffer_stack), len(c2.caller_stack), c2.caller_stack.nextcaller is not None
                if text is not None:
                    text = self._decode(text)
                    if self.prog.get("fe") and "Mako Runtime Error" in text:
                        o["res"] = "page"
                        o["out"] = self._page(text)
                    else:
                        o["out"] = TOK.findall(text)
                        stray = set(TOK.sub("", text)) - set("xy \n\t")
                        if stray:
                            o["out"] = o["out"] + ["stray-output:" + "".join(sorted(stray))[:20]]
                return o
            o["fb"] = len(ctx._buffer_stack)
            o["fc"] = len(ctx.caller_stack)
            o["fnc"] = ctx.caller_stack.nextcaller is not None
            if self.prog.get("fe") and res == "ok" and ctx._buffer_stack and ctx._buffer_stack[0] is not buf:
                # format_exceptions: _render_error replaced the buffer stack and rendered the error page
                page = self._decode(ctx._buffer_stack[0].getvalue())
                o["res"] = "page"
                o["out"] = self._page(page)
            else:
                before = self._decode(buf.getvalue())
                ctx.write("[after]")
                o["after"] = self._decode(buf.getvalue()) == before + "[after]"
                o["out"] = TOK.findall(before)
                stray = set(TOK.sub("", before)) - set("xy \n\t")
                if stray:        # anything besides tokens and the cosmetic filler is output nobody asked for
                    o["out"] = o["out"] + ["stray-output:" + "".join(sorted(stray))[:20]]
        except Exception as e:  # noqa
            o["out"] = ["exc:" + type(e).__name__]
            o["after"] = False
        return o


def compare(exp, got, eh=False):
    """exp: record printed by TLC; got: Executor.run result.  Returns None or (clause, mark id or None, detail)."""
    eres = exp["res"]
    if eres == "handled":
        eres = "ok"
    if got["res"] != eres:
        return ("res", None, "expected %s, observed %s" % (eres, got["res"]))
    eo, go = exp["obs"], got["obs"]
    for i in range(min(len(eo), len(go))):
        e, g = eo[i], go[i]
        if g.get("err"):
            return ("obs.err", e["m"], "marker failed with %s at mark %s" % (g["err"], g["m"]))
        for f in ("m", "b", "c", "nc", "hc", "lp"):
            if e[f] != g[f]:
                return ("obs." + f, e["m"], "mark #%d (id %s): expected %s=%s, observed %s" % (i + 1, e["m"], f, e[f], g[f]))
    if len(eo) != len(go):
        return ("obs.count", None, "expected %d marks executed, observed %d" % (len(eo), len(go)))
    if got["out"] is not None and exp["out"] != got["out"]:
        return ("out", None, "expected output tokens %s, observed %s" % (exp["out"], got["out"]))
    if got["fb"] is not None and (exp["fb"], exp["fc"], exp["fnc"]) != (got["fb"], got["fc"], got["fnc"]):
        return ("final", None, "after render_context: expected (buffers, callers, nextcaller)=%s, observed %s"
                % ((exp["fb"], exp["fc"], exp["fnc"]), (got["fb"], got["fc"], got["fnc"])))
    if not got["after"]:
        return ("final.write", None, "Context.write() after render_context does not reach the base buffer")
    if not got["same"]:
        return ("res.identity", None, "a different exception object reached the caller of render_context")
    return None


# =========================================================================== the R loop
DEVIATIONS = {"ReturnDropsBuffer": "return-in-buffered-or-filtered-def-drops-output"}


def standalone(prog, raise_at):
    """text of a small standalone script reproducing one execution (for replay files)."""
    texts = Conc(prog, None, plain=True).templates()
    return {"templates": texts, "raise_at_kth_marker": raise_at, "error_handler": hmode(prog["eh"]), "format_exceptions": bool(prog.get("fe")),
            "include_error_handlers": [hmode(t["ieh"]) for t in prog["incs"]], "exception_class": prog.get("xc", "boom"),
            "route": prog.get("route", "context"), "handlers_on_lookup": bool(prog.get("lk")),
            "output_encoding": prog.get("oe"), "encoding_errors": prog.get("ee", "strict"), "exception_message": MSG[prog.get("msgk", "ascii")]}


def check_batch(run, progs, maxraise, name, signature_of=None, coverage=False, workers=None, need_actions=()):
    """One batch: TLC -> expectations; concretise; render every (program, raise point); compare.

    Returns the list of mismatches after known-deviation classification has reported them."""
    recs, res = run_tlc(run, progs, maxraise, name, coverage=coverage, workers=workers)
    if res.violated:
        run.spec_violation(res.first_bad, "TLC: invariant %s of Render.tla violated on a generated program" % res.violated)
        return []
    if coverage:
        for a in need_actions:
            if not res.coverage.get(a, [0, 0])[1]:
                raise MachineryError("vacuous: action %s of Render.tla never taken in %s (%s)" % (a, name, sorted(res.coverage)))
        acts = run.extra.setdefault("action_coverage", {})
        for a, (d, g) in res.coverage.items():
            acts[a] = acts.get(a, 0) + g
    mism = []
    nexec = 0
    for pi, p in enumerate(progs):
        pid = pi + 1
        if (pid, 0) not in recs:
            raise MachineryError("TLC printed no terminal state for program %d of %s" % (pid, name))
        texts = Conc(p, run.rng).templates()
        ex = Executor(p, texts)
        total = recs[(pid, 0)]["cnt"]
        for ra in list(range(0, min(total, maxraise) + 1)) + [0]:
            exp = recs.get((pid, ra))
            if exp is None:
                raise MachineryError("TLC printed no terminal state for program %d raise %d of %s" % (pid, ra, name))
            got = ex.run(ra)
            nexec += 1
            d = compare(exp, got)
            if d:
                mism.append(dict(pi=pi, ra=ra, clause=d[0], mark=d[1], detail=d[2], exp=exp, got=got, texts=texts))
        if pi < 2:
            run.sample({"batch": name, "templates": texts, "expected_raise0": {k: recs[(pid, 0)][k] for k in ("out", "res", "cnt")}})
    run.traces += nexec
    run.transitions += nexec
    # ---- negative controls: the comparer must reject a corrupted expectation / a dropped observation
    done = 0
    for pi, p in enumerate(progs[:50]):
        exp = recs[(pi + 1, 0)]
        if exp["obs"] and exp["out"]:
            ex = Executor(p, Conc(p, run.rng).templates())
            got = ex.run(0)
            if compare(exp, got) or got["out"] is None or got["fb"] is None:
                continue
            bad = copy.deepcopy(exp)
            bad["out"][-1] = bad["out"][-1] + "x"
            run.negative_control(compare(bad, got) is not None, "comparer accepted a corrupted output token")
            bad = copy.deepcopy(exp)
            bad["obs"][0]["b"] += 1
            run.negative_control(compare(bad, got) is not None, "comparer accepted a corrupted buffer depth")
            g2 = copy.deepcopy(got)
            del g2["obs"][-1]
            run.negative_control(compare(exp, g2) is not None, "comparer accepted a dropped marker observation")
            done += 1
            if done >= 2:
                break
    if not mism:
        return []
    # ---- classification by named deviations: TLC re-executes the failing programs with the deviation enabled
    left = mism
    for dev, sig in DEVIATIONS.items():
        pis = sorted({x["pi"] for x in left})
        sub = [progs[i] for i in pis]
        drecs, dres = run_tlc(run, sub, maxraise, name + "-dev-" + dev, dev=(dev,), invariants=False, workers=workers)
        still = []
        reported = 0
        for x in sorted(left, key=lambda x: (size_of(progs[x["pi"]]), x["ra"])):
            e2 = drecs.get((pis.index(x["pi"]) + 1, x["ra"]))
            if e2 is not None and compare(e2, x["got"]) is None:
                p = progs[x["pi"]]
                reported += 1
                if reported > 2:        # two examples per batch are enough; the rest are counted
                    run.extra["explained_by_" + dev] = run.extra.get("explained_by_" + dev, 0) + 1
                    continue
                run.violation(sig, "observed behaviour is the one of deviation %s, not of the property: %s" % (dev, x["detail"]),
                              {"program": standalone(p, x["ra"]), "expected": {k: x["exp"][k] for k in ("out", "res")},
                               "observed": {k: x["got"][k] for k in ("out", "res")}, "as_rendered": x["texts"]})
            else:
                still.append(x)
        left = still
    # ---- anything else is a violation; smallest programs first, one report per signature
    left.sort(key=lambda x: (size_of(progs[x["pi"]]), x["ra"]))
    seen = set()
    for x in left:
        p = progs[x["pi"]]
        sig = signature_of(p, x) if signature_of else generic_signature(p, x)
        if sig in seen:
            continue
        seen.add(sig)
        run.violation(sig, x["detail"], {"program": standalone(p, x["ra"]), "clause": x["clause"], "as_rendered": x["texts"],
                                         "expected": x["exp"], "observed": x["got"]})
    return left


def generic_signature(p, x):
    site = "-"
    if x["mark"] is not None:
        site = mark_sites(p).get(x["mark"], "?").split("/")[-1]
    elif x["clause"] == "res":
        site = x["got"]["res"]
    return "render:%s@%s" % (x["clause"], site)
