"""Shared helpers of the line/position checks (C11, C12, C20).

A generated template is a sequence of *catalog entries*.  An entry is a piece of real template
text written with zero-width markers; this module only MEASURES the text (how many physical
lines, how wide, on which physical line a marker sits) and hands those numbers to TLC as the
catalog (spec/Lines.tla, spec/LineMap.tla, spec/Extract.tla).  It never computes an expected report: where the
report must point is decided by the TLA+ side from the measured geometry.

Markers (removed before the text is used):
  MN  the (sub-)construct the report is about begins here (default: start of the entry)
  MC  the Python string handed to the Python parser begins here (default: at MN)
  MF  the offending Python line / the planted raise / the gettext call is on this physical line
Placeholder `@` is replaced by the position of the entry in the template (one digit), so that
def/block names are unique; newlines are written "\n" and replaced by the case's line terminator.
"""
import re

MN, MC, MF = "«N»", "«C»", "«F»"
_MARK = re.compile("«[NCF]»")


def strip_markers(s):
    return _MARK.sub("", s)


def _pos(s, marker):
    """index of `marker` in the marker-free text, or None"""
    i = s.find(marker)
    if i < 0:
        return None
    return len(strip_markers(s[:i]))


def measure(text):
    """Geometry of one entry text (with markers).  All numbers are plain measurements."""
    clean = strip_markers(text)
    lines = clean.split("\n")
    n = _pos(text, MN) or 0
    c = _pos(text, MC)
    f = _pos(text, MF)
    noff = clean.count("\n", 0, n)
    nc = n - (clean.rfind("\n", 0, n) + 1)
    m = re.match(r"([ \t]*)%(?![%>])", clean[n:])
    ind = len(m.group(1)) if (m and nc == 0) else 0     # indentation of a control line
    g = {"w": [len(x) for x in lines], "noff": noff, "nc": nc, "ind": ind,
         "coff": 0, "lead": 0, "pyl": 0, "foff": noff}
    if f is not None:
        foff = clean.count("\n", 0, f)
        if c is None:
            c = n
        coff = clean.count("\n", 0, c) - noff
        ws = re.match(r"\s*", clean[c:]).group(0)
        # leading newlines of the Python string (only those before the offending line)
        lead = min(ws.count("\n"), foff - noff - coff)
        g.update(coff=coff, lead=lead, pyl=foff - noff - coff - lead, foff=foff)
    return g


def compose(entries, seq, nl):
    """Real template text of the case: the entries `seq` (catalog indices, 1-based) in order."""
    parts = []
    for i, e in enumerate(seq):
        t = strip_markers(entries[e - 1]["text"]).replace("@", str(i + 1))
        parts.append(t)
    return "".join(parts).replace("\n", nl)


def eof_position(text):
    """(line, col) the lexer is at after consuming everything (1-based)."""
    return text.count("\n") + 1, len(text) - (text.rfind("\n") + 1) + 1


def physical_line(text, lineno):
    ls = text.split("\n")
    if 1 <= lineno <= len(ls):
        return ls[lineno - 1].rstrip("\r")
    return None


# A line break inside a construct that may come in every blank-line style.  Written BRK in an entry text
# and expanded by break_variants(): the plain break, trailing blanks / tabs before the break (after an
# opening delimiter: "trailing blanks after the delimiter"), whitespace-only lines of blanks / tabs after
# it, and a mix over several lines.  (CR LF is the case's terminator and applies to every "\n".)
BRK = "\u23ce"
BREAK_STYLES = [("plain", "\n"), ("trailing-blanks", "   \n"), ("trailing-tab", "\t\n"), ("blank-line-of-blanks", "\n    \n"),
                ("blank-line-of-tabs", "\n\t\t\n"), ("empty-lines", "\n\n\n"), ("mixed", " \n\n\t \n  \n")]


def break_variants(text):
    """[(style name, text)] for every style; the BRK placeholders of one text all take the same style."""
    return [(name, text.replace(BRK, b)) for name, b in BREAK_STYLES]


def cosmetics(rng):
    """Seed-dependent free choices that must not change any verdict."""
    return {
        "I": rng.choice(["", "  ", "\t", "    "]),
        "W": rng.choice(["abc", "some text", "x", "lorem ipsum dolor"]),
        "B": rng.choice([0, 1, 3]),       # blank lines after <%
        "P": rng.choice([0, 1, 2]),       # statements before the marked one in a block
        "S": rng.choice(["", " ", "   "]),  # blanks inside delimiters
    }
