"""C20 -- message extraction: every gettext-style call once, at its template line, nothing from
decoys, translator comments attach exactly.

Specification: spec/Extract.tla (the extractor's comment-window machine + the property stated from
the planted truth), spec/Layout.tla (line numbers), spec/MC_Extract.tla, spec/ExtractCat.tla.

 1. The harness writes a catalog of item texts (## comments with and without the tag, blank lines,
    text, <%doc>, decoys, constructs of every Python-bearing kind with calls planted on known
    physical lines) and measures them.
 2. TLC enumerates item sequences x line terminator, runs the machine, checks EachCallOnceAtItsLine,
    NothingFromDecoys, CommentsAttachExactly and prints the expected report of every case.
 3. R: every case is concretised (LF/CRLF; ASCII, UTF-8, latin-1, cp1251 with non-ASCII messages) and
    given to mako.ext.babelplugin.extract and to the lingua plugin; the tuples / Message objects are
    compared with the expected report.
"""
import hashlib
import io
import os

from . import core
from . import lines_common as lc
from .core import MachineryError

TAG = "TRANSLATORS:"
ENCODINGS = [("ascii", ""), ("utf-8", "\u00e9"), ("utf-8", "\u0416"), ("cp1251", "\u0416"), ("latin-1", "\u00e9")]


TAGS = {"A": "TRANSLATORS:", "B": "NOTE:"}


def _item(eid, kind, text, msgs=(), ls=False, group="pre", tag=None):
    """msgs: one (fn, key, own[, plural]) per F marker in `text`, in order."""
    clean = lc.strip_markers(text)
    offs = []
    rest = text
    while lc.MF in rest:
        k = rest.index(lc.MF)
        offs.append(lc.strip_markers(text[:len(text) - len(rest) + k]).count("\n"))
        rest = rest[k + len(lc.MF):]
    if len(offs) != len(msgs):
        raise MachineryError("catalog entry %s: %d markers, %d messages" % (eid, len(offs), len(msgs)))
    return {"id": eid, "kind": kind, "text": text, "w": [len(x) for x in clean.split("\n")], "ls": bool(ls), "group": group,
            "tag": tag or ("A" if kind == "tc" else "none"),
            "msgs": [{"off": o, "fn": m[0], "m": m[1], "own": bool(m[2])} for o, m in zip(offs, msgs)],
            "plural": {m[1] for m in msgs if len(m) > 3 and m[3]}}


def build_catalog(rng):
    c = lc.cosmetics(rng)
    I, W, B = c["I"], c["W"], c["B"]
    F = lc.MF
    E = []

    def pre(*a, **k):
        E.append(_item(*a, group="pre", **k))

    def last(*a, **k):
        E.append(_item(*a, group="last", **k))

    def both(*a, **k):
        E.append(_item(*a, group="both", **k))

    def M(key, fn="_"):       # a call with message key `key` ('@' = position of the entry)
        return "%s%s('m@%s\u00a4')" % (F, fn, key)

    # ---- the magic encoding comment: a ## line that is line 1 when the encoding is declared that way
    E.append(_item("magic", "uc", "## -*- coding: CODEC -*-\n", ls=True, group="magic"))
    # ---- comments, fillers, decoys
    pre("tc", "tc", "## %s c@\n" % TAG, ls=True)
    pre("tc-ind", "tc", "%s##   %s c@ \n" % (I or " ", TAG), ls=True)
    pre("uc", "uc", "## plain c@\n", ls=True)
    E.append(_item("tc-b", "tc", "## %s c@\n" % TAGS["B"], ls=True, group="life", tag="B"))    # tagged only when tag B is configured
    pre("uc-call", "uc", "## " + M("q") + "\n", msgs=[("_", "q", False)], ls=True)
    pre("blank", "blank", "\n")
    pre("text", "text", W + "\n")
    pre("text-inline", "text", W + " ")
    pre("doc", "doc", "<%doc>" + M("d") + "</%doc>\n", msgs=[("_", "d", False)])
    pre("docml", "doc", "<%doc>\n " + M("d") + "\n</%doc>\n", msgs=[("_", "d", False)])
    pre("decoy-text", "decoy", M("t") + " " + W + "\n", msgs=[("_", "t", False)])
    pre("decoy-texttag", "decoy", "<%text>${" + M("x") + "}\n</%text>\n", msgs=[("_", "x", False)])
    pre("ifblock", "ctlend", "% if v:\nx\n" + I + "% endif\n", ls=True)
    pre("ifblock-tc", "ctlend", "% if v:\n## " + TAG + " in@\n" + I + "% endif\n", ls=True)
    pre("nomsg", "cons", "${v}\n")
    pre("nomsg-inline", "cons", "${v} ")
    # ---- constructs with calls
    both("expr", "cons", "${" + M("a") + "}\n", msgs=[("_", "a", True)])
    both("expr2-sameline", "cons", "${" + M("a") + " + " + M("b") + "} ", msgs=[("_", "a", True), ("_", "b", True)])
    both("block2", "cons", "<%\n" + "\n" * B + "   y = " + M("a") + "\n   z = 1\n   z = " + M("b") + "\n%>\n",
         msgs=[("_", "a", True), ("_", "b", True)])
    last("expr-gettext", "cons", "${" + M("a", "gettext") + "}\n", msgs=[("gettext", "a", True)])
    last("expr-ngettext", "cons", "${" + F + "ngettext('m@s\u00a4', 'm@p\u00a4', n)}\n", msgs=[("ngettext", "s", True, True)])
    last("exprml", "cons", "${ (" + M("a") + " +\n 1 +\n " + M("b") + ") }\n", msgs=[("_", "a", True), ("_", "b", True)])
    last("expr-inline-text", "cons", "${" + M("a") + "} " + W + "\n", msgs=[("_", "a", True)])
    last("exprfilter", "cons", "${ v | " + M("a") + " }\n", msgs=[("_", "a", True)])
    last("ctl.if", "cons", I + "% if " + M("a") + ":\nx\n% endif\n", msgs=[("_", "a", True)], ls=True)
    last("ctl.for", "cons", "% for x in " + M("a") + ":\nx\n% endfor\n", msgs=[("_", "a", True)], ls=True)
    last("ctl.while", "cons", "% while " + M("a") + ":\nx\n% endwhile\n", msgs=[("_", "a", True)], ls=True)
    last("ctl.with", "cons", "% with " + M("a") + " as z:\nx\n% endwith\n", msgs=[("_", "a", True)], ls=True)
    last("ctlcont", "cons", "% if v and \\\n    " + M("a") + ":\nx\n% endif\n", msgs=[("_", "a", True)], ls=True)
    last("ctl.elif", "cons", "% if " + M("a") + ":\nx\n" + I + "% elif " + M("b") + ":\ny\n% endif\n",
         msgs=[("_", "a", True), ("_", "b", False)], ls=True)
    last("ctl.except", "cons", "% try:\nx\n% except " + M("a") + ":\ny\n% endtry\n", msgs=[("_", "a", False)], ls=True)
    last("ctl.body", "cons", "% if v:\n${" + M("a") + "}\n% else:\n${" + M("b") + "}\n% endif\n",
         msgs=[("_", "a", False), ("_", "b", False)], ls=True)
    last("block1", "cons", "<% y = " + M("a") + " %>\n", msgs=[("_", "a", True)])
    last("modblock", "cons", "<%!\n" + "\n" * B + "   y = " + M("a") + "\n%>\n", msgs=[("_", "a", True)])
    last("defsig", "cons", '<%def name="f@(a=' + M("a") + ')">\n${' + M("b") + "}\n</%def>\n",
         msgs=[("_", "a", True), ("_", "b", False)])
    last("defsigml", "cons", '<%def name="f@(a=1,\n   b=' + M("a") + ')">\nd ${' + M("b") + "}\n</%def>\n",
         msgs=[("_", "a", True), ("_", "b", False)])
    last("blockargs", "cons", '<%block name="b@" args="a=' + M("a") + '">\n${' + M("b") + "}\n</%block>\n",
         msgs=[("_", "a", True), ("_", "b", False)])
    last("pageargs", "cons", '<%page args="a=' + M("a") + ",\n  b=" + M("b") + '"/>\n', msgs=[("_", "a", True), ("_", "b", True)])
    last("callexpr", "cons", '<%call expr="f(' + M("a") + ')">\n${' + M("b") + "}\n</%call>\n",
         msgs=[("_", "a", True), ("_", "b", False)])
    last("callexprml", "cons", '<%call expr="f(1,\n  ' + M("a") + ')">c</%call>\n', msgs=[("_", "a", True)])
    last("nscall", "cons", '<%ns:f a="${' + M("a") + '}">\n${' + M("b") + "}\n</%ns:f>\n",
         msgs=[("_", "a", True), ("_", "b", False)])
    last("nested", "cons", '<%def name="f@()">\n<%call expr="g(' + M("a") + ')">\n<%\n  y = ' + M("b") + "\n%>\n</%call>\n</%def>\n",
         msgs=[("_", "a", False), ("_", "b", False)])
    # ---- deeper nesting, ngettext outside ${}, a custom keyword
    last("nested3", "cons", '<%def name="f@()">\n<%call expr="g(' + M("a") + ')">\n<%def name="h@(x=' + M("b") + ')">\n<%block>\n% if '
         + M("c") + ":\n${" + M("d") + "}\n% endif\n</%block>\n</%def>\n</%call>\n</%def>\n",
         msgs=[("_", "a", False), ("_", "b", False), ("_", "c", False), ("_", "d", False)])
    last("block-ngettext", "cons", "<%\n   n = 2\n   y = " + F + "ngettext('m@s\u00a4', 'm@p\u00a4', n)\n%>\n", msgs=[("ngettext", "s", True, True)])
    last("ctl-gettext", "cons", "% if " + M("a", "gettext") + ":\nx\n% endif\n", msgs=[("gettext", "a", True)], ls=True)
    last("expr-custom-keyword", "cons", "${" + M("a", "tr") + "}\n", msgs=[("tr", "a", True)])
    # ---- every Python-bearing kind with every style of line break: after the opening delimiter (K1), between the
    # arguments / statements (K2), before the closer (K3); calls on the first, a middle and the last line
    three = [("_", "a", True), ("_", "b", True), ("_", "c", True)]
    kinds = [
        ("expr", lambda k1, k2, k3: "${" + k1 + "(" + M("a") + " +" + k2 + " " + M("b") + " +" + k2 + " " + M("c") + ")" + k3 + "}\n"),
        ("block", lambda k1, k2, k3: "<%" + (k1 or " ") + "x = " + M("a") + (k2 or "\n") + "y = " + M("b") + (k2 or "\n") + "z = " + M("c") + (k3 or " ") + "%>\n"),
        ("modblock", lambda k1, k2, k3: "<%!" + (k1 or " ") + "x = " + M("a") + (k2 or "\n") + "y = " + M("b") + (k2 or "\n") + "z = " + M("c") + (k3 or " ") + "%>\n"),
        ("defsig", lambda k1, k2, k3: '<%def name="f@(' + k1 + "a=" + M("a") + "," + k2 + " b=" + M("b") + "," + k2 + " c=" + M("c") + k3 + ')">d</%def>\n'),
        ("pageargs", lambda k1, k2, k3: '<%page args="' + k1 + "a=" + M("a") + "," + k2 + " b=" + M("b") + "," + k2 + " c=" + M("c") + k3 + '"/>\n'),
        ("blockargs", lambda k1, k2, k3: '<%block name="b@" args="' + k1 + "a=" + M("a") + "," + k2 + " b=" + M("b") + "," + k2 + " c=" + M("c") + k3 + '">x</%block>\n'),
        ("callexpr", lambda k1, k2, k3: '<%call expr="' + k1 + "f(" + M("a") + "," + k2 + " " + M("b") + "," + k2 + " " + M("c") + k3 + ')">c</%call>\n'),
        ("nscall", lambda k1, k2, k3: '<%ns:f a="${' + k1 + "(" + M("a") + " +" + k2 + " " + M("b") + " +" + k2 + " " + M("c") + ")" + k3 + '}"/>\n'),
    ]
    styles = [("none", "", "", "")] + [(n, b, b, "\n" if j % 2 else "") for j, (n, b) in enumerate(lc.BREAK_STYLES)] + \
             [("two-leading", "\n\n", "\n", "\n"), ("leading-only", "\n", "", "")]
    for kn, mk in kinds:
        for sn, k1, k2, k3 in styles:
            if kn != "expr" and sn == "leading-only" and kn in ("block", "modblock"):
                continue
            E.append(_item("%s.brk-%s" % (kn, sn), "cons", mk(k1, k2 or (" " if kn not in ("block", "modblock") else ""), k3), msgs=three, group="brk"))
    E.append(_item("ctl.brk-continuation", "cons", "% if (" + M("a") + " or \\\n   " + M("b") + " or \\\n  " + M("c") + "):\nx\n% endif\n",
                   msgs=three, ls=True, group="brk"))
    return E, c


def catalog_module(E):
    items = [core.to_tla({"id": e["id"], "kind": e["kind"], "tag": e["tag"], "w": e["w"], "ls": e["ls"], "msgs": e["msgs"]}) for e in E]
    return ("---- MODULE ExtractCat ----\n(* generated by the harness: measured geometry of this run's item texts *)\n"
            "XCatDef == <<\n  " + ",\n  ".join(items) + " >>\n====\n")


CODECS = {"ascii": "", "utf-8": "\u0416\u00e9", "cp1251": "\u0416", "koi8-r": "\u0416", "latin-1": "\u00e9", "iso-8859-15": "\u20ac\u00e9"}
DECLS = ["magic", "option", "both", "neither"]


def cfg(pre, last, maxpre, nlkinds, magic=1, decls=("option",), encs=("any",), mcs=("any",), cfgs=(("A",),), stages=1):
    q = lambda xs: ", ".join('"%s"' % x for x in xs)     # noqa
    return ("CONSTANTS\n  Pre = {%s}\n  Last = {%s}\n  MaxPre = %d\n  NLKinds = {%s}\n  Decls = {%s}\n  Encs = {%s}\n  MsgClasses = {%s}\n  Magic = %d\n  Cfgs = {%s}\n  MaxStages = %d\n"
            "SPECIFICATION Spec\nCHECK_DEADLOCK FALSE\n"
            "INVARIANT EachCallOnceAtItsLine\nINVARIANT NothingFromDecoys\nINVARIANT CommentsAttachExactly\n"
            % (", ".join(map(str, pre)), ", ".join(map(str, last)), maxpre, q(nlkinds), q(decls), q(encs), q(mcs), magic,
               ", ".join("{" + q(c) + "}" for c in cfgs), stages))


# --------------------------------------------------------------------------- concretise / expected
def compose(E, seq, nl, suffix, codec="utf-8"):
    parts = []
    for i, e in enumerate(seq):
        parts.append(lc.strip_markers(E[e - 1]["text"]).replace("@", str(i + 1)).replace("\u00a4", suffix))
    return "".join(parts).replace("CODEC", codec).replace("\n", nl)


def comment_text(E, seq, pos, suffix):
    e = E[seq[pos - 1] - 1]
    t = lc.strip_markers(e["text"]).replace("@", str(pos)).replace("\u00a4", suffix).strip()
    return t[2:].strip()


def expected(E, case, suffix):
    exp = []
    for o in case["out"]:
        e = E[case["seq"][o["pos"] - 1] - 1]
        key = o["m"]
        if key in e["plural"]:
            msgs = ["m%ds%s" % (o["pos"], suffix), "m%dp%s" % (o["pos"], suffix)]
        else:
            msgs = ["m%d%s%s" % (o["pos"], key, suffix)]
        exp.append({"line": o["line"], "fn": o["fn"], "msgs": msgs,
                    "cm": [comment_text(E, case["seq"], p, suffix) for p in o["cm"]], "entry": e["id"], "pos": o["pos"], "suffix": suffix})
    return exp


class _Opts:
    keywords = ["tr"]
    domain = None
    comment_tag = True


def run_babel(text, enc, declare_option=True, tags=None):
    from mako.ext.babelplugin import extract
    try:
        got = []
        opts = {"encoding": enc} if declare_option else {}
        for (line, fn, msgs, cm) in extract(io.BytesIO(text.encode(enc)), ["_", "gettext", "ngettext", "tr"], [TAG] if tags is None else list(tags), opts):
            if isinstance(msgs, str):
                msgs = [msgs]
            got.append({"line": line, "fn": fn, "msgs": [m for m in msgs if isinstance(m, str)], "cm": list(cm)})
        return got
    except Exception as e:  # noqa -- an observation
        return "exc:" + type(e).__name__


_lingua_ready = []


def lingua_plugin(tags):
    """A LinguaMakoExtractor object constructed with the given tags (None: constructed without configuration)."""
    from mako.ext.linguaplugin import LinguaMakoExtractor
    if not _lingua_ready:
        from lingua.extractors import register_extractors
        register_extractors()
        _lingua_ready.append(1)
    return LinguaMakoExtractor({"comment-tags": " ".join(tags)}) if tags is not None else LinguaMakoExtractor()


def run_lingua(text, plugin=None):
    try:
        got = []
        plugin = plugin or lingua_plugin([TAG])
        for m in plugin("x.mako", _Opts(), io.StringIO(text)):
            got.append({"line": m.location[1], "fn": None, "msgs": [m.msgid] + ([m.msgid_plural] if m.msgid_plural else []),
                        "cm": (m.comment or "").strip()})
        return got
    except Exception as e:  # noqa
        return "exc:" + type(e).__name__


def between(E, seq, pos, whole=False):
    """kinds of the entries from the nearest tagged comment above `pos` (whole: from the first entry)
    down to `pos`, repetitions folded (for signatures)"""
    ks = []
    for p in range(pos - 1, 0, -1):
        e = E[seq[p - 1] - 1]
        k = e["kind"]
        if k == "cons":
            k = "cons" if any(m["own"] for m in e["msgs"]) else "cons-without-message"
        ks.append(k)
        if k == "tc" and not whole:
            break
    ks.reverse()
    out = []
    for k in ks:
        if not out or out[-1] != k:
            out.append(k)
    return ">".join(out) or "none"


def comment_clause(E, case, x, got_cm, want_cm):
    """Class of a comment disagreement: which kinds of items stand inside the stretch whose comments
    were attached although the block should have ended there."""
    seq, pos, suffix = case["seq"], x["pos"], x["suffix"]
    if not got_cm:
        return "lost"
    first, inner = None, False
    for p in range(1, pos):
        e = E[seq[p - 1] - 1]
        if e["kind"] == "tc" and comment_text(E, seq, p, suffix) in got_cm:
            first = p
            break
        if e["kind"] == "ctlend" and ("%s in%d" % (TAG, p)) in (got_cm if isinstance(got_cm, str) else " ".join(got_cm)):
            first, inner = p, True        # a tagged comment inside an if-block, followed by its % endif
            break
    stale = first is not None and (not want_cm or (got_cm[-len(want_cm):] == want_cm))
    if not stale:
        return "wrong" if want_cm else "unwanted"
    kinds, resets, tc_after_reset = set(), ({"ctlend"} if inner else set()), False
    for p in range(first + 1, pos):
        e = E[seq[p - 1] - 1]
        k = e["kind"]
        if k == "cons":
            k = "construct" if any(m["own"] for m in e["msgs"]) else "construct-without-message"
        if k in ("construct", "construct-without-message", "ctlend"):     # in_translator_comments is reset here
            resets.add(k)
            tc_after_reset = False
        elif k == "tc":
            tc_after_reset = True
        kinds.add("text" if k == "decoy" else k)
    kinds -= {"tc", "uc", "blank"}
    if resets and tc_after_reset:
        # a new tagged block started after the window was closed, yet the old comments are still there
        return "stale-block-prepended-after:" + "+".join(sorted(resets))
    if resets:
        return "window-survives:" + "+".join(sorted(kinds))
    return "window-not-closed-by:" + ("+".join(sorted(kinds)) or "nothing")


def compare(E, case, exp, got, lingua=False):
    """First disagreement as (entry id, clause) or None.  Messages are identified by their text."""
    if isinstance(got, str):
        return ("extractor", got)
    want = {tuple(x["msgs"]): x for x in exp}
    have = {}
    for g in got:
        k = tuple(g["msgs"])
        if k in have:
            return (want[k]["entry"] if k in want else "?", "reported-twice")
        have[k] = g
    for k, x in want.items():
        if k not in have:
            return (x["entry"], "missing")
    for k, g in have.items():
        if k not in want:
            src = [e["id"] for e in (E[i - 1] for i in case["seq"]) if e["kind"] != "cons"]
            return ("decoy", "extra")
    for k, x in want.items():
        g = have[k]
        if not lingua and g["fn"] != x["fn"]:
            return (x["entry"], "funcname")
    for k, x in want.items():
        g = have[k]
        cm = " ".join(x["cm"]) if lingua else x["cm"]
        if g["cm"] != cm:
            return ("comments", comment_clause(E, case, x, g["cm"], cm))
    for k, x in want.items():
        g = have[k]
        if g["line"] != x["line"]:
            return (x["entry"], "line-early" if g["line"] < x["line"] else "line-late")
    return None


def check(run):
    thorough = run.thorough
    E, cos = build_catalog(run.rng)
    files = {"ExtractCat.tla": catalog_module(E)}
    workers = int(os.environ.get("VERIF_TLC_WORKERS", "0")) or (None if thorough else 8)
    pre = [i + 1 for i, e in enumerate(E) if e["group"] in ("pre", "both")]
    last = [i + 1 for i, e in enumerate(E) if e["group"] in ("last", "both")]
    byid = {e["id"]: i + 1 for i, e in enumerate(E)}
    magic = byid["magic"]
    window = [byid[x] for x in ("tc", "uc", "blank", "text", "doc", "nomsg", "ifblock-tc")]
    wlast = [byid[x] for x in ("expr", "ctl.if", "block2", "defsig", "pageargs")]
    cases = []

    seen = set()

    def take(res):
        n0 = len(seen)
        for c in res.json_lines():
            if isinstance(c, dict) and "out" in c:
                key = (tuple(c["seq"]), c["nl"], tuple(sorted(c.get("src", {}).items())), tuple(tuple(sorted(h)) for h in c.get("hist", [])))
                if key not in seen:
                    seen.add(key)
                    cases.append(c)
        return len(seen) - n0

    # ------------------------------------------------------------------ 1. TLC
    res = run.tlc("MC_Extract", cfg(pre, last, 2, ["lf", "crlf"], magic), name="mc-all", workers=workers,
                  coverage=True, extra_files=files, timeout=1500)
    if res.violated:
        run.spec_violation(res)
        return {"rule": "model violated", "exhaustive": False}
    for a in ("Add", "AddLast", "Step", "Finish", "Emit"):
        if not res.coverage.get(a, [0, 0])[1]:
            raise MachineryError("vacuous model checking: action %s never taken" % a)
    n1 = take(res)
    if thorough:    # three items before every kind of construct, over the kinds that move lines / the window
        deep = [byid[x] for x in ("tc", "uc", "blank", "text", "docml", "nomsg", "ifblock-tc", "expr", "block2")]
        res = run.tlc("MC_Extract", cfg(deep, last, 3, ["lf"], magic), name="mc-all-deep", workers=workers, extra_files=files, timeout=2400)
        if res.violated:
            run.spec_violation(res)
            return {"rule": "model violated", "exhaustive": False}
        n1 += take(res)
    res = run.tlc("MC_Extract", cfg(window, wlast, 5 if thorough else 4, ["lf", "crlf"] if thorough else ["lf"], magic), name="mc-window", workers=workers,
                  extra_files=files, timeout=1500)
    if res.violated:
        run.spec_violation(res)
        return {"rule": "model violated", "exhaustive": False}
    n2 = take(res)
    # how the source encoding is declared x codec x message class (every kind of construct, <=1 item before it)
    dpre = [byid[x] for x in ("tc", "blank", "text")]
    res = run.tlc("MC_Extract", cfg(dpre, last, 2 if thorough else 1, ["lf", "crlf"] if thorough else ["lf"], magic, DECLS, sorted(CODECS), ["ascii", "nonascii"]),
                  name="mc-declared", workers=workers, extra_files=files, timeout=1500)
    if res.violated:
        run.spec_violation(res)
        return {"rule": "model violated", "exhaustive": False}
    n3 = take(res)
    # every style of line break inside every Python-bearing kind, calls on the first / a middle / the last line
    brk = [i + 1 for i, e in enumerate(E) if e["group"] == "brk"]
    res = run.tlc("MC_Extract", cfg(dpre, brk, 1, ["lf", "crlf"], magic), name="mc-break-styles", workers=workers, extra_files=files, timeout=1500)
    if res.violated:
        run.spec_violation(res)
        return {"rule": "model violated", "exhaustive": False}
    n3 += take(res)
    # one extractor object over time: constructed with a configuration (possibly none), update_config, extract, ...
    lpre = [byid[x] for x in ("tc", "tc-b", "uc", "text")]
    llast = [byid[x] for x in ("expr", "block2", "defsig")]
    allcfg = ((), ("A",), ("B",), ("A", "B"))
    res = run.tlc("MC_Extract", cfg(lpre, llast, 2, ["lf"], magic, cfgs=allcfg, stages=3), name="mc-lifetime", workers=workers,
                  coverage=True, extra_files=files, timeout=1500)
    if res.violated:
        run.spec_violation(res)
        return {"rule": "model violated", "exhaustive": False}
    if not res.coverage.get("Configure", [0, 0])[1]:
        raise MachineryError("vacuous: Configure never taken")
    life = {}
    for c in res.json_lines():
        if isinstance(c, dict) and "hist" in c and "out" in c:
            life.setdefault((tuple(c["seq"]), tuple(tuple(sorted(h)) for h in c["hist"])), c)
    if len(life) < 1000:
        raise MachineryError("lifetime instance exported only %d stages" % len(life))
    got_src = {(c["src"]["decl"], c["src"]["enc"], c["src"]["mc"]) for c in cases if c["src"]["enc"] != "any"}
    if len(got_src) != 36:
        raise MachineryError("declaration instance covers %d of 36 (declaration, codec, message class) triples" % len(got_src))
    run.extra["cases"] = {"all-kinds": n1, "comment-window": n2, "declared": n3}
    run.extra["catalog"] = {"pre": len(pre), "last": len(last), "cosmetics": cos}
    if n1 < 500 or n2 < 500:
        raise MachineryError("TLC exported too few cases (%d, %d)" % (n1, n2))
    with_cm = sum(1 for c in cases if any(o["cm"] for o in c["out"]))
    if not with_cm:
        raise MachineryError("vacuous: no case attaches a comment")
    run.extra["cases_with_attached_comments"] = with_cm

    # ------------------------------------------------------------------ 2. R
    seen = {}
    mism = {}
    n = 0
    cases.sort(key=lambda c: (c["seq"], c["nl"], sorted(c["src"].items())))
    for ci, case in enumerate(cases):
        nl = "\n" if case["nl"] == "lf" else "\r\n"
        h = int(hashlib.sha1(("%d:%d" % (run.seed, ci)).encode()).hexdigest()[:8], 16)
        src = case["src"]
        if src["enc"] == "any":        # the harness draws the codec; declared by the option
            encs = [ENCODINGS[h % len(ENCODINGS)]]
            if h % (11 if thorough else 41) == 0:
                encs = ENCODINGS
            by_option = True
        else:                          # TLC fixed declaration, codec and message class
            rep = CODECS[src["enc"]]
            encs = [(src["enc"], "" if src["mc"] == "ascii" else rep[h % len(rep)])]
            by_option = src["decl"] in ("option", "both")
        for enc, suffix in encs:
            text = compose(E, case["seq"], nl, suffix, enc)
            exp = expected(E, case, suffix)
            runs = [("babel:" + enc if suffix else "babel", run_babel(text, enc, by_option), False)]
            if (enc, suffix) == encs[0]:
                runs.append(("lingua", run_lingua(text), True))
            for who, got, is_l in runs:
                n += 1
                d = compare(E, case, exp, got, lingua=is_l)
                if d:
                    sig = "%s:%s:%s" % (who.split(":")[0], d[0], d[1])
                    if d[0] == "extractor" and src["enc"] != "any":
                        sig += ":encoding-declared-by-" + src["decl"]
                    mism.setdefault(sig, []).append({"template": text, "encoding": enc, "extractor": who, "expected": exp, "observed": got,
                                                     "items": [E[i - 1]["id"] for i in case["seq"]], "nl": case["nl"]})
        if ci < 3:
            run.sample({"items": [E[i - 1]["id"] for i in case["seq"]], "template": compose(E, case["seq"], nl, ""), "expected": expected(E, case, "")})
    # ---- histories over ONE extractor object: what an extraction reports depends only on the configuration in force
    n_hist = 0
    for (seq, hist) in sorted(life):
        if len(hist) != 3 or int(hashlib.sha1(("%d:h:%s:%s" % (run.seed, seq, hist)).encode()).hexdigest()[:8], 16) % 4:
            continue
        n_hist += 1
        text = compose(E, list(seq), "\n", "")
        plugin = None
        for st in range(3):
            stage = life[(seq, hist[:st + 1])]
            tags = [TAGS[t] for t in hist[st]]
            exp = expected(E, stage, "")
            try:
                if st == 0:
                    plugin = lingua_plugin(tags if tags or len(str(seq)) % 2 else None)     # no tags: with an empty config or with none at all
                else:
                    plugin.update_config(**{"comment-tags": " ".join(tags)})
                got_l = run_lingua(text, plugin)
            except Exception as e:  # noqa
                got_l = "exc:" + type(e).__name__
            for who, got, is_l in (("lingua", got_l, True), ("babel", run_babel(text, "ascii", True, tags=tags), False)):
                n += 1
                d = compare(E, stage, exp, got, lingua=is_l)
                if d:
                    sig = "%s:%s:%s" % (who, d[0], d[1])
                    if sig not in mism:
                        sig += ":after-update_config" if st else ":constructed-with-%s" % ("tags" if tags else "no-tags")
                    mism.setdefault(sig, []).append({"template": text, "extractor": who, "history_of_configured_tags": [list(h) for h in hist[:st + 1]],
                                                     "expected": exp, "observed": got, "items": [E[i - 1]["id"] for i in seq], "nl": "lf", "encoding": "ascii"})
    run.extra["extractor_histories"] = n_hist
    run.traces += n
    run.extra["extractions_compared"] = n
    for sig in sorted(mism):
        lst = sorted(mism[sig], key=lambda m: len(m["template"]))
        m0 = lst[0]
        m0["occurrences"] = len(lst)
        run.violation(sig, "%s on items %s: expected %s, observed %s" % (sig, m0["items"], [(x["line"], x["msgs"], x["cm"]) for x in m0["expected"]],
                                                                        m0["observed"] if isinstance(m0["observed"], str) else [(x["line"], x["msgs"], x["cm"]) for x in m0["observed"]]), m0)

    # ------------------------------------------------------------------ 3. negative controls
    done = 0
    for case in cases:
        if done >= 25:
            break
        if not any(o["cm"] for o in case["out"]):
            continue
        nl = "\n" if case["nl"] == "lf" else "\r\n"
        text = compose(E, case["seq"], nl, "")
        exp = expected(E, case, "")
        got = run_babel(text, "ascii")
        if compare(E, case, exp, got) is not None:
            continue
        import copy
        b1 = copy.deepcopy(exp)
        b1[0]["line"] += 1
        b2 = copy.deepcopy(exp)
        for x in b2:
            x["cm"] = []
        b3 = copy.deepcopy(exp)[1:]
        if not mism:
            g4 = run_babel(nl + text, "ascii")      # an unaccounted line
        else:       # on a tree with violations: the same comparer on a synthetic shifted observation
            g4 = [dict(x, line=x["line"] + 1) for x in got]
        ok = all(compare(E, case, b, got) is not None for b in (b1, b2, b3)) and compare(E, case, exp, g4) is not None
        run.negative_control(ok, "comparer accepted a corrupted expectation / shifted template")
        done += 1
    if not done and not mism:      # on a tree that fails everywhere the violations are the verdict
        raise MachineryError("no negative control could be run")
    run.assumptions += [
        "keywords _, gettext, ngettext; comment tag 'TRANSLATORS:'; lingua default keywords",
        "source encoding declared by magic comment only / Babel encoding option only / both / neither (UTF-8, ASCII) x 6 codecs x "
        "{ASCII, non-ASCII in repertoire} messages: all 36 correct declarations every run; the other instances declare by option",
        "not generated (property silent): blank lines between two ## lines; a message construct not at the start of its line right after a ## line; "
        "Python '# TRANSLATORS:' comments inside <% %> blocks; a Python string beginning on a later line of its tag",
        "extractor lifetime: histories construct(c0) / update_config(c1) / update_config(c2) over one LinguaMakoExtractor object, the template extracted after "
        "each step, c in {no tag, A, B, A+B}; the Babel entry point is called with the same tag lists; a hashed quarter of the 64 histories per template each run",
        "messages are matched by their (unique) text; order of the reported tuples is not compared",
    ]
    return {"rule": "TLC enumerates item sequences (<=%d items of every kind [quick 2; thorough also 3 over a 9-kind subset], <=%d of the comment-window kinds, before the last construct) x {LF,CRLF}, "
                    "checks EachCallOnceAtItsLine/NothingFromDecoys/CommentsAttachExactly on the machine of Extract.tla and exports the expected "
                    "report; every case goes through the Babel plugin (one of 5 encodings, all 5 on a sample) and the lingua plugin and the "
                    "(line, function, messages, comments) tuples are compared. A case = (item sequence, terminator)."
                    % (3 if thorough else 2, 5 if thorough else 4),
            "exhaustive": True}
