"""Child process for C15: one Template(filename=SRC, module_directory=MODDIR) construction whose
file-system calls are interposed.  Before every interposed call ("point") the child reports where it
is and waits for a command from the controlling parent on stdin:

    go       execute the call, report the resulting event
    die      die right here (os._exit: no cleanup handler of any kind runs)
    mid      (os.write only) write half of the data, then die
    go-die   execute the call, report the event, then die
    fail     the call fails with OSError instead of being executed (the process lives on)
    mid-fail (os.write only) half of the data is written, then the call fails with OSError

After its final message the child waits: "again <now>" makes the same process construct the Template once
more (the earlier Template objects stay alive), anything else ends it.

argv: ROOT NOW USE_WRITER [ENTRY]   (ENTRY: moddir | modfile | lookup | lookup-callable)    protocol: one JSON object per line on stdout / one command per line on stdin
"""
import builtins
import errno
import json
import os
import shutil
import sys
import tempfile

ROOT, NOW, USE_WRITER = sys.argv[1], int(sys.argv[2]), sys.argv[3] == "1"
ENTRY = sys.argv[4] if len(sys.argv) > 4 else "moddir"
SRC = os.path.join(ROOT, "src", "t.html")
MODDIR = os.path.join(ROOT, "mods")
MODPATH = os.path.join(MODDIR, "t.html.py")
BASE = 1_000_000_000

_out = os.fdopen(os.dup(1), "w")
_in = os.fdopen(os.dup(0), "r")
_real = dict(makedirs=os.makedirs, osopen=os.open, stat=os.stat, exists=os.path.exists, write=os.write, close=os.close, rename=os.rename,
             replace=os.replace, move=shutil.move, mkstemp=tempfile.mkstemp, open=builtins.open, unlink=os.unlink)
_depth = [0]
_tmpfds = {}
_fulldata = [None]
_now = [NOW]


def _say(obj):
    _out.write(json.dumps(obj) + "\n")
    _out.flush()


def _under(p, d):
    try:
        p = os.path.abspath(os.fspath(p))
    except TypeError:
        return False
    return p == d or p.startswith(d + os.sep)


def point(name, call, event, mid=None):
    """One interposed call = one scheduling / crash point."""
    if _depth[0]:
        return call()
    _depth[0] += 1
    try:
        _say({"at": name})
        cmd = _in.readline().strip()
        if cmd == "die" or cmd == "":
            os._exit(77)
        if cmd == "mid":
            if mid is not None:
                mid()
            os._exit(77)
        if cmd in ("fail", "mid-fail"):
            # the call FAILS (the process lives on and sees the error): nothing is done, or half of the write is
            half = cmd == "mid-fail" and mid is not None
            if half:
                mid()
            _say({"ev": "fail", "at": name, "mid": half})
            raise OSError(errno.ENOSPC if half else errno.EIO, "injected failure of " + name)
        try:
            r = call()
        except BaseException as ex:  # the call itself failed: report, re-raise into mako
            _say({"ev": name, "error": type(ex).__name__})
            if cmd == "go-die":
                os._exit(77)
            raise
        ev = event(r) if callable(event) else dict(event)
        ev.setdefault("ev", name)
        _say(ev)
        if cmd == "go-die":
            os._exit(77)
        return r
    finally:
        _depth[0] -= 1


def _stat(path, *a, **kw):
    if _depth[0] or not isinstance(path, (str, bytes, os.PathLike)):
        return _real["stat"](path, *a, **kw)
    ap = os.path.abspath(os.fspath(path)) if isinstance(path, (str, os.PathLike)) else None
    if ap == SRC:
        return point("statsrc", lambda: _real["stat"](path, *a, **kw), lambda r: {"mt": int(r.st_mtime) - BASE})
    if ap == MODPATH:
        return point("statmod", lambda: _real["stat"](path, *a, **kw), lambda r: {"mt": int(r.st_mtime) - BASE})
    return _real["stat"](path, *a, **kw)


def _exists(path):
    if not _depth[0] and isinstance(path, (str, os.PathLike)) and os.path.abspath(os.fspath(path)) == MODPATH:
        return point("exists", lambda: _real["exists"](path), lambda r: {"r": bool(r)})
    if not _depth[0] and isinstance(path, (str, os.PathLike)) and os.path.abspath(os.fspath(path)) == MODDIR:
        return point("direxists", lambda: _real["exists"](path), lambda r: {"r": bool(r)})
    return _real["exists"](path)


def _makedirs(path, *a, **kw):
    if _depth[0] or not isinstance(path, (str, os.PathLike)) or os.path.abspath(os.fspath(path)) != MODDIR:
        return _real["makedirs"](path, *a, **kw)
    err = []

    def call():
        try:
            return _real["makedirs"](path, *a, **kw)
        except OSError as ex:       # somebody else made it meanwhile: report, then let mako see the error
            err.append(ex)
            return None
    r = point("mkdir", call, lambda r: {"created": not err})
    if err:
        raise err[0]
    return r


def _tmpev(name, via, excl):
    name = os.path.abspath(os.fspath(name))
    return {"same_dir": os.path.dirname(name) == MODDIR, "is_modpath": name == MODPATH, "name": os.path.basename(name),
            "via": via, "excl": bool(excl)}


def _mkstemp(*a, **kw):
    def ev(r):
        fd, name = r
        _tmpfds[fd] = name
        return _tmpev(name, "mkstemp", True)
    return point("mkstemp", lambda: _real["mkstemp"](*a, **kw), ev)


def _osopen(path, flags, *a, **kw):
    if not _depth[0] and isinstance(path, (str, os.PathLike)) and _under(path, MODDIR) and \
            flags & (os.O_WRONLY | os.O_RDWR | os.O_CREAT | os.O_TRUNC):
        def ev(fd):
            _tmpfds[fd] = os.fspath(path)
            return _tmpev(path, "os.open", flags & os.O_EXCL)
        return point("mkstemp", lambda: _real["osopen"](path, flags, *a, **kw), ev)
    return _real["osopen"](path, flags, *a, **kw)


def _complete(path):
    try:
        with _real["open"](path, "rb") as g:
            txt = g.read().decode("utf-8", "replace")
        if not (txt.rstrip().endswith('"""') and "__M_END_METADATA" in txt):
            return False
        compile(txt, "m", "exec")
        return True
    except BaseException:
        return False


def _write(fd, data):
    if fd not in _tmpfds:
        return _real["write"](fd, data)
    _fulldata[0] = bytes(data)
    return point("write", lambda: _real["write"](fd, data), lambda r: {"n": r, "full": r == len(data)},
                 mid=lambda: _real["write"](fd, bytes(data)[: len(data) // 2]))


def _close(fd):
    if fd not in _tmpfds:
        return _real["close"](fd)
    return point("close", lambda: _real["close"](fd), {})


def _mover(kind):
    def f(a, b, *x, **kw):
        if _under(b, MODDIR) or _under(a, MODDIR):
            info = {"via": kind, "to_modpath": os.path.abspath(os.fspath(b)) == MODPATH,
                    "from_moddir": os.path.dirname(os.path.abspath(os.fspath(a))) == MODDIR}

            def call():
                info["src_complete"] = _complete(a)
                return _real[kind](a, b, *x, **kw)
            return point("move", call, lambda r: info)
        return _real[kind](a, b, *x, **kw)
    return f


def _open(file, mode="r", *a, **kw):
    if not _depth[0] and isinstance(file, (str, os.PathLike)):
        ap = os.path.abspath(os.fspath(file))
        if ap == SRC:
            def ev(r):
                with _real["open"](SRC, "rb") as g:
                    txt = g.read().decode("utf-8", "replace")
                try:
                    v = int(txt.split("v")[1].split()[0])
                except Exception:
                    v = -1
                return {"ver": v}
            return point("readsrc", lambda: _real["open"](file, mode, *a, **kw), ev)
        if _under(ap, MODDIR) and ap != MODPATH and any(c in mode for c in "wax"):
            return point("mkstemp", lambda: _real["open"](file, mode, *a, **kw), lambda r: _tmpev(ap, "open:" + mode, "x" in mode))
        if _under(ap, MODDIR) and any(c in mode for c in "wax+"):
            return point("fsop", lambda: _real["open"](file, mode, *a, **kw), {"what": "open:" + mode, "modpath": ap == MODPATH})
    return _real["open"](file, mode, *a, **kw)


def _unlink(path, *a, **kw):
    if not _depth[0] and _under(path, MODDIR):
        return point("fsop", lambda: _real["unlink"](path, *a, **kw), {"what": "unlink", "modpath": os.path.abspath(os.fspath(path)) == MODPATH})
    return _real["unlink"](path, *a, **kw)


def main():
    import mako.codegen as cg
    import mako.compat as mc
    import mako.lookup as ml
    import mako.template as mt

    class FT:
        time = staticmethod(lambda: BASE + _now[0])
    cg.time = FT

    os.stat = _stat
    os.makedirs = _makedirs
    os.open = _osopen
    os.path.exists = _exists
    os.write = _write
    os.close = _close
    os.rename = _mover("rename")
    os.replace = _mover("replace")
    shutil.move = _mover("move")
    tempfile.mkstemp = _mkstemp
    builtins.open = _open
    os.unlink = _unlink
    os.remove = _unlink

    _lm = mc.load_module

    def load_module(mid, path):
        def ev(m):
            with _real["open"](path, "rb") as g:
                txt = g.read().decode("utf-8", "replace")
            frm = -1
            if "__M_writer('v" in txt:
                try:
                    frm = int(txt.split("__M_writer('v")[1].split()[0].rstrip("')"))
                except Exception:
                    frm = -1
            return {"from": frm, "magic": getattr(m, "_magic_number", -1)}
        return point("load", lambda: _lm(mid, path), ev)
    mc.load_module = load_module

    kw = {}
    if USE_WRITER:
        def writer(source, outputpath):
            def call():
                d, n = _real["mkstemp"](dir=os.path.dirname(outputpath))
                _real["write"](d, source)
                _real["close"](d)
                _real["rename"](n, outputpath)
            ok = isinstance(source, bytes)
            if ok:
                try:
                    compile(source, "m", "exec")
                except Exception:
                    ok = False
            return point("writer", call, {"bytes_ok": ok, "path_ok": os.path.abspath(outputpath) == MODPATH})
        kw["module_writer"] = writer
    alive = []          # the Templates of earlier constructions of this process stay referenced
    while True:
        try:
            # the entry points that lead to the same module path
            if ENTRY == "moddir":
                t = mt.Template(filename=SRC, uri="/t.html", module_directory=MODDIR, **kw)
            elif ENTRY == "modfile":
                t = mt.Template(filename=SRC, uri="/t.html", module_filename=MODPATH, **kw)
            elif ENTRY == "lookup":
                lk = ml.TemplateLookup(directories=[os.path.dirname(SRC)], module_directory=MODDIR, **kw)
                alive.append(lk)
                t = lk.get_template("/t.html")
            elif ENTRY == "lookup-callable":
                lk = ml.TemplateLookup(directories=[os.path.dirname(SRC)], modulename_callable=lambda fn, uri: MODPATH, **kw)
                alive.append(lk)
                t = lk.get_template("t.html")
            else:
                raise SystemExit("unknown entry " + ENTRY)
            alive.append(t)
            out = t.render()
            try:
                v = int(out.split("v")[1].split()[0])
            except Exception:
                v = -1
            _say({"final": "done", "rendered": v})
        except BaseException as e:
            _say({"final": "exc", "type": type(e).__name__, "msg": str(e)[:200]})
        # the same process constructs the Template again at a later time: "again <now>"
        cmd = _in.readline().split()
        if len(cmd) != 2 or cmd[0] != "again":
            os._exit(0)
        _now[0] = int(cmd[1])


main()
