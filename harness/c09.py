"""C09 -- template lookup never escapes its configured directories.

Specification: spec/Containment.tla (design model: adjust_uri, the get_template probe loop and
Template.__init__ as separate normalisation pipelines over its own path operators; invariants
Contained, ModulePathInside, OutsideRaises, OutsideHitRefused, PipelinesAgree, SummaryMatches),
spec/MC_Containment.tla (the world: file tree with sentinels outside the roots, root configurations,
calling templates; export), spec/Enum_Containment.tla (one state per URI, summary of every context),
spec/Trace_Containment.tla (validation of recorded requests).

 1. TLC checks the step machine exhaustively on every URI of a small bound, in four root
    configurations (coverage of every action required).
 2. R: TLC enumerates every URI up to the tier's bound, checks the property on each and exports the
    allowed outcome(s) of every request (direct, Template(uri=), file= from callers at depth 0..3 and
    from callers with unusual URIs).  The harness builds the exported world on disk (sentinel files
    outside the roots) and replays every request on a real TemplateLookup: get_template, has_template,
    Template(uri=, filename=, module_directory=), put_string, <%include>, <%inherit>, <%namespace>,
    and the Namespace API.  Outcome class, Template.filename, the rendered content (every file has a
    unique content), the module file path and the audited file operations are compared with the
    export.  sys.addaudithook records every open/mkdir/rename while mako runs: no file outside the
    roots may be read, nothing may be created outside module_directory (such writes are blocked).
 3. V: seeded random longer URIs (up to 12 segments) are requested from the real TemplateLookup and
    the recorded outcomes are judged by Trace_Containment.tla (which re-runs the step machine).

The Python side holds no oracle: expected outcomes come from TLC (2) or TLC judges (3).  Where the
property is silent the model allows both outcomes ("..name" as first segment; a URI that leaves the
root and comes back into a configured directory); file="" (IndexError, finding #11 of C07) is not
generated.
"""
import array
import hashlib
import json
import multiprocessing
import os
import shutil
import sys
import zlib

from . import core
from .core import MachineryError

SEGS = ["a", "sub", "..", ".", "..a", "a.."]
SEGS_REDUCED = ["a", "sub", "..", "..a"]
SEPS = ["/", "\\"]
ODD_NAMES = ["%2e%2e", "a.", "...", "a ", "..%2f", ".a"]     # ordinary names for mako (no decoding, no trimming); random URIs only
MAIN_CTX = ["direct", "template", "c0", "c1", "c2", "c3"]
ALL_CTX = MAIN_CTX + ["r0", "r1", "d1", "b1", "x1", "t2"]
INVARIANTS = ["TypeOK", "Contained", "ModulePathInside", "OutsideRaises", "OutsideHitRefused",
              "PipelinesAgree", "SummaryMatches", "RefusalIsNeeded"]


# --------------------------------------------------------------------------- TLC configurations
def _mode(modon):
    """Module option vector: "dir" module_directory; "none"; "cbdir" modulename_callable + module_directory; "cb"
    modulename_callable alone (booleans of older call sites: True = "dir", False = "none")."""
    return {True: "dir", False: "none"}.get(modon, modon)


def _constants(maxsegs, cfg, genctx, modon, segs):
    return ("CONSTANTS\n SegNames = {%s}\n DotDotNames = {%s}\n MaxSegs = %d\n Roots <- WorldRoots\n ModOn = %s\n"
            " ModDir <- WorldModDir\n Files <- WorldFiles\n Callers <- WorldCallers\n TemplFile <- WorldTemplFile\n"
            " GenCtx = {%s}\n Cfg = \"%s\"\n"
            % (", ".join('"%s"' % s for s in segs), ", ".join('"%s"' % s for s in segs if s.startswith("..") and s != ".."),
               maxsegs, "TRUE" if _mode(modon) != "none" else "FALSE", ", ".join('"%s"' % c for c in genctx), cfg)
            + " ModCallable = %s\n" % ("TRUE" if _mode(modon).startswith("cb") else "FALSE"))


def mc_cfg(maxsegs, cfg, genctx, modon=True, segs=SEGS):
    return (_constants(maxsegs, cfg, genctx, modon, segs) + "SPECIFICATION MCSpec\n"
            + "".join("INVARIANT %s\n" % i for i in INVARIANTS) + "CHECK_DEADLOCK FALSE\n")


def enum_cfg(maxsegs, cfg, genctx, modon=True, segs=SEGS, start="StartEmpty"):
    return (_constants(maxsegs, cfg, genctx, modon, segs) + " StartUris <- %s\n" % start
            + "SPECIFICATION ESpec\nINVARIANT SumOK\nCHECK_DEADLOCK FALSE\n")


def trace_cfg(cfg, modon=True, segs=SEGS):
    return (_constants(0, cfg, ALL_CTX, modon, segs + ODD_NAMES) + "SPECIFICATION TSpec\nCHECK_DEADLOCK FALSE\n")


def read_rows(res):
    """JSON lines printed by the MC/Enum modules: (world, {uri: {ctx: set(outcome strings)}})."""
    world = None
    rows = {}
    for line in res.out.splitlines():
        if not line.startswith('"{'):
            continue
        try:
            v = json.loads(json.loads(line))
        except ValueError:
            raise MachineryError("unreadable export line from TLC: %r" % line[:200])
        if "world" in v:
            world = v["world"]
        elif "o" in v and isinstance(v["o"], dict):
            d = rows.setdefault(v["u"], {})
            for c, outs in v["o"].items():
                d.setdefault(c, set()).update(outs)
        elif "c" in v:                                  # step machine: one row per terminal state
            rows.setdefault(v["u"], {}).setdefault(v["c"], set()).add(v["o"])
    if world is None:
        raise MachineryError("TLC did not export the world")
    return world, rows


def h64(u):
    """Stable 64-bit hash of a URI string (independent of PYTHONHASHSEED and of the process)."""
    return int.from_bytes(hashlib.blake2b(u.encode("utf-8"), digest_size=8).digest(), "big")


def gen_uris(maxsegs, segs=SEGS):
    """The harness' own enumeration of the URI strings (inputs only), as a generator -- nothing is stored.
    Token sequences without adjacent names spell distinct strings, so no de-duplication is needed."""
    toks_all = list(segs) + SEPS

    def rec(prefix, last_sep, n):
        yield prefix
        for t in toks_all:
            if t in SEPS:
                n2 = n + (1 if last_sep else 0)
                if n2 <= maxsegs:
                    yield from rec(prefix + t, True, n2)
            elif (last_sep or prefix == "") and n + 1 <= maxsegs:
                yield from rec(prefix + t, False, n + 1)
    # a leading separator does not count; rec treats "last_sep" of the empty prefix as False
    return rec("", False, 0)


def uri_fingerprint(maxsegs, segs=SEGS):
    """(count, sum of h64 mod 2^64) of the URI set, to check that TLC exported exactly this set."""
    n = 0
    acc = 0
    for u in gen_uris(maxsegs, segs):
        n += 1
        acc = (acc + h64(u)) & 0xFFFFFFFFFFFFFFFF
    return n, acc


# --------------------------------------------------------------------------- audit
class AuditBlock(Exception):
    """Raised by the audit hook to stop a write outside the scratch world."""


_AUD = {"armed": False, "log": [], "base": None, "installed": False}
_WFLAGS = os.O_WRONLY | os.O_RDWR | os.O_CREAT | os.O_TRUNC | os.O_APPEND


def _hook(ev, args):
    if not _AUD["armed"]:
        return
    try:
        if ev == "open":
            path, mode, flags = args[0], args[1], args[2]
            if not isinstance(path, (str, bytes)):
                return
            if isinstance(path, bytes):
                path = os.fsdecode(path)
            w = bool(flags & _WFLAGS) if isinstance(flags, int) else False
            if isinstance(mode, str) and any(c in mode for c in "wax+"):
                w = True
            kind = "w" if w else "r"
        elif ev in ("os.mkdir", "os.remove", "os.rmdir", "os.truncate", "os.symlink", "os.link", "os.chmod"):
            path = args[0] if ev not in ("os.symlink", "os.link") else args[1]
            kind = "w"
        elif ev in ("os.rename",):
            path = args[1]
            kind = "w"
        else:
            return
        if isinstance(path, bytes):
            path = os.fsdecode(path)
        if not isinstance(path, str):
            return
        path = os.path.abspath(path)
    except Exception:   # never let the hook itself break the run
        return
    _AUD["log"].append((kind, path))
    if kind == "w" and not path.startswith(_AUD["base"] + "/"):
        raise AuditBlock("blocked write outside the scratch world: %s" % path)


def _install_audit(base):
    _AUD["base"] = base
    if not _AUD["installed"]:
        sys.addaudithook(_hook)
        _AUD["installed"] = True


# --------------------------------------------------------------------------- the world on disk
CALLER_MODES = ["inc", "gt", "ns", "if", "inh", "nst", "nn", "nsc"]
STATIC_MODES = ["sinc", "sinh", "snst"]      # file="literal": one compilation per URI, short URIs only
T_INC = ("% if m == 'inc':\n<%include file=\"${u}\"/>\\\n% elif m == 'gt':\n${local.get_template(u).render()}\\\n"
         "% elif m == 'ns':\n${local.get_namespace(u).body()}\\\n% elif m == 'if':\n<% local.include_file(u) %>\\\n"
         "% elif m == 'nn':\n${local.get_namespace(local.uri).get_template(u).render()}\\\n% endif\n")
T_INH = "<%inherit file=\"${context['u']}\"/>not rendered"
T_NST = "<%namespace name=\"ns\" file=\"${context['u']}\"/>${ns.body()}"
T_NSC = "<%namespace name=\"ns\" file=\"${context['u']}\"/><%ns:body/>"            # reached through a <%ns:def> call tag
# Two callers in ONE render (one Context: context.namespaces and the lookup are shared): the same relative URI asked from
# caller A and then from caller B.  The model has no history: each answer is the one TLC exported for that caller alone.
T_CHAIN = ("<%\n    from mako import exceptions as _x\n    _parts = []\n    for _c in cs:\n        try:\n"
           "            _parts.append('F' + capture(local.include_file, _c))\n        except _x.TemplateLookupException:\n"
           "            _parts.append('E')\n        except Exception as _e:\n            _parts.append('X:' + type(_e).__name__)\n"
           "    context.write('\\x1e'.join(_parts))\n%>")
CHAIN_URI = "/verif_chain_driver"
CHAIN_MODES = ["ns", "inc", "ns", "gt", "ns", "if"]
T_STATIC = {"sinc": "<%%include file=\"%s\"/>", "sinh": "<%%inherit file=\"%s\"/>not rendered",
            "snst": "<%%namespace name=\"ns\" file=\"%s\"/>${ns.body()}"}


def _identity(text):
    return text


EXTRAS = [  # lookup option vectors that must not change any outcome (sampled: one per replay job)
    {}, {"filesystem_checks": False}, {"collection_size": 80}, {"cache_enabled": False}, {"strict_undefined": True},
    {"input_encoding": "utf-8"}, {"preprocessor": "identity"}, {"lexer_cls": "subclass"},
    {"filesystem_checks": False, "collection_size": 60, "cache_enabled": False, "strict_undefined": True,
     "input_encoding": "utf-8", "preprocessor": "identity", "lexer_cls": "subclass"},
]


def option_kwargs(extras):
    kw = dict(extras)
    if kw.get("preprocessor") == "identity":
        kw["preprocessor"] = _identity
    if kw.get("lexer_cls") == "subclass":
        from mako.lexer import Lexer
        kw["lexer_cls"] = type("VerifLexer", (Lexer,), {})
    return kw


class World:
    """The exported world under `base` (which stands for the model's file-system root) and a real
    TemplateLookup over it."""

    def __init__(self, base, world, modon, with_callers=True, cwd=True, extras=None):
        self.base = base
        self.desc = world
        self.mode = _mode(modon)
        self.modon = modon = self.mode != "none"
        self.extras = dict(extras or {})
        files = sorted(world["files"])
        self.content = {}
        for k, p in enumerate(files):
            rp = base + p
            os.makedirs(os.path.dirname(rp), exist_ok=True)
            with open(rp, "w") as f:
                f.write("X%d;" % k)
            os.utime(rp, (1_000_000_000, 1_000_000_000))
            self.content["X%d;" % k] = p
        self.roots = [base + r if r.startswith("/") else r for r in world["roots"]]
        if cwd and any(not r.startswith("/") for r in world["roots"]):
            os.chdir(base)                  # relative roots: the working directory is the model's file-system root
        self.rootdirs = [base + d for d in world["dirs"]]
        self.moddir = (base + world["moddir"]) if self.mode in ("dir", "cbdir") else None
        self.modroot = base + world["modroot"]
        self.templfile = base + world["templfile"]
        self.with_callers = with_callers
        self.fresh()

    def fresh(self):
        """A new TemplateLookup (bounded memory) with the calling templates put under their URIs."""
        from mako.lookup import TemplateLookup
        self.lk = TemplateLookup(self.roots, module_directory=self.moddir,
                                 modulename_callable=self.module_name if self.mode.startswith("cb") else None,
                                 **option_kwargs(self.extras))
        self.put_callers()

    def module_name(self, filename, uri):
        """The modulename_callable / module_filename of the "cb" vectors: ModRoot/cb/<source path>.py (CallablePath)."""
        return self.modroot + "/cb" + os.path.abspath(filename)[len(self.base):] + ".py"

    def put_callers(self):
        if self.with_callers:
            for c, uri in self.desc["callers"].items():
                # the templates of one caller share the caller's directory: the relative URI is
                # resolved against dirname(caller URI) in all of them
                for suffix, text in (("", T_INC), ("h", T_INH), ("n", T_NST), ("k", T_NSC)):
                    self.lk.put_string(uri + suffix, text)

    def wipe_modules(self):
        if self.modon and os.path.isdir(self.modroot):
            shutil.rmtree(self.modroot, ignore_errors=True)

    def rel(self, p):
        if p is None:
            return ""
        p = os.path.abspath(p)
        return p[len(self.base):] if p.startswith(self.base + "/") else "!" + p

    # ---- one observed request: dict(kind=E|F|X:<type>, path, mod, out, log)
    def _run(self, fn):
        from mako import exceptions
        ob = {"kind": "?", "path": "", "mod": "", "out": None}
        _AUD["log"] = []
        _AUD["armed"] = True
        try:
            fn(ob)
        except exceptions.TemplateLookupException:
            ob["kind"] = "E"
        except BaseException as ex:   # noqa -- any other exception is an observation
            if isinstance(ex, (KeyboardInterrupt, SystemExit)):
                raise
            ob["kind"] = "X:" + type(ex).__name__
            ob["msg"] = str(ex)[:200]
        finally:
            _AUD["armed"] = False
        ob["log"] = _AUD["log"]
        return ob

    def get(self, u):
        def fn(ob):
            t = self.lk.get_template(u)
            ob["kind"] = "F"
            ob["path"] = self.rel(t.filename)
            ob["mod"] = self.rel(getattr(t.module, "__file__", None)) if self.modon else ""
            ob["out"] = t.render()
        return self._run(fn)

    def has(self, u):
        def fn(ob):
            r = self.lk.has_template(u)
            ob["kind"] = "T" if r is True else "N" if r is False else "X:notbool"
        return self._run(fn)

    def call(self, ctx, mode, u):
        cu = self.desc["callers"][ctx]
        name = cu + {"inh": "h", "nst": "n", "nsc": "k"}.get(mode, "")
        if mode in T_STATIC:
            name = cu + "s"
        elif name not in self.lk._collection:
            # a bounded collection (collection_size) evicts put_string entries (finding F05 of C14): put it back
            self.lk.put_string(name, {"inh": T_INH, "nst": T_NST, "nsc": T_NSC}.get(mode, T_INC))

        def fn(ob):
            if mode in T_STATIC:
                self.lk.put_string(name, T_STATIC[mode] % u)
            t = self.lk.get_template(name)
            out = t.render(u=u, m=mode)
            ob["kind"] = "F"
            ob["out"] = out
        return self._run(fn)

    def chain(self, ctxs, mode, u):
        """[observation per caller]: the callers' T_INC templates rendered one after the other inside one render."""
        cus = [self.desc["callers"][c] for c in ctxs]
        for cu in cus:
            if cu not in self.lk._collection:
                self.lk.put_string(cu, T_INC)
        if CHAIN_URI not in self.lk._collection:
            self.lk.put_string(CHAIN_URI, T_CHAIN)

        def fn(ob):
            ob["out"] = self.lk.get_template(CHAIN_URI).render(u=u, m=mode, cs=cus)
            ob["kind"] = "F"
        whole = self._run(fn)
        if whole["kind"] != "F":
            return [whole] * len(ctxs)
        parts = whole["out"].split("\x1e")
        if len(parts) != len(ctxs):
            return [dict(whole, kind="X:chain-output", msg=whole["out"][:200])] * len(ctxs)
        # file operations are audited per single request elsewhere; a chain's log mixes two requests
        return [{"kind": p if p[0] != "F" else "F", "path": "", "mod": "", "out": p[1:] if p[0] == "F" else None, "log": []}
                for p in parts]

    def template(self, u):
        from mako.template import Template

        def fn(ob):
            if self.mode.startswith("cb"):          # Template(..., module_filename=...): the module path is given
                t = Template(uri=u, filename=self.templfile, module_filename=self.module_name(self.templfile, u), lookup=self.lk)
            else:
                t = Template(uri=u, filename=self.templfile, module_directory=self.moddir, lookup=self.lk)
            ob["kind"] = "F"
            ob["path"] = self.rel(t.filename)
            ob["mod"] = self.rel(getattr(t.module, "__file__", None)) if self.modon else ""
            ob["out"] = t.render()
        return self._run(fn)

    def put(self, u):
        def fn(ob):
            self.lk.put_string(u, "P;")
            ob["kind"] = "F"
            ob["out"] = self.lk._collection[u].render() if u in self.lk._collection else None
        return self._run(fn)


# --------------------------------------------------------------------------- comparison (no oracle here)
def judge(w, site, allowed, ob):
    """Compare one observation with the outcomes exported by TLC.  Returns None or (mode, detail).
    `allowed`: set of "E", "F<path>|<mod>", "S<path>"."""
    paths = {}
    for a in allowed:
        if a[0] == "F":
            p, _, m = a[1:].partition("|")
            paths[p] = m
        elif a[0] == "S":
            paths.setdefault(a[1:], None)
    bad = _audit(w, paths, ob)
    if bad:
        return bad
    k = ob["kind"]
    if site in ("has_template",):
        if k == "T":
            return None if paths else ("reports-template-where-refusal-required", ob)
        if k == "N":
            return None if "E" in allowed else ("refuses-inside-file", ob)
        return ("unexpected-exception:" + k[2:], ob)
    if site == "put_string":
        if k == "F":
            return None if paths else ("accepts-uri-outside-root", ob)
        if k == "E":
            return None if "E" in allowed else ("refuses-inside-uri", ob)
        return ("unexpected-exception:" + k[2:], ob)
    if k == "E":
        return None if "E" in allowed else ("refuses-inside-file", ob)
    if k != "F":
        return ("unexpected-exception:" + k[2:], ob)
    # a template was returned / rendered
    out = (ob["out"] or "").strip()
    src = w.content.get(out)
    if src is None:
        return ("unexpected-output", ob)
    inside = any(src.startswith(d[len(w.base):] + "/") for d in w.rootdirs)
    if site != "Template()" and not inside:
        return ("serves-outside-file", ob)
    if not paths:
        return ("accepts-uri-outside-root" if site == "Template()" else "serves-where-refusal-required", ob)
    if src not in paths:
        return ("serves-wrong-file", ob)
    if ob["path"] and ob["path"] != src:
        return ("filename-differs-from-content", ob)
    if w.modon:
        exp_mod = paths[src]
        if exp_mod is not None:
            if ob["mod"] and ob["mod"] != exp_mod:
                return ("wrong-module-path", ob)
            if not os.path.isfile(w.base + exp_mod):
                return ("module-file-missing", ob)
    return None


def _audit(w, paths, ob):
    """The audited file operations of one request against what the model allows to be touched."""
    modroot = w.modroot + "/"
    for kind, p in ob["log"]:
        if kind == "w":
            if not (w.modon and (p + "/").startswith(modroot)):
                return ("creates-outside-module-directory", dict(ob, offending=p))
        else:
            if not p.startswith(w.base + "/"):
                continue                                   # interpreter / library files
            if (p + "/").startswith(modroot):
                continue
            ap = p[len(w.base):]
            if ap in paths:
                continue
            if any(p.startswith(d + "/") for d in w.rootdirs):
                return ("reads-unexpected-inside-file", dict(ob, offending=p))
            return ("reads-outside-file", dict(ob, offending=p))
    return None


def shape(u):
    """Abstract feature of a URI for signatures: ordinary names collapse to n."""
    out = []
    i = 0
    toks = tokens(u)
    for t in toks:
        if t in ("/", "\\", "..", "."):
            out.append(t)
        elif t.startswith(".."):
            out.append("..n")
        elif t.endswith(".."):
            out.append("n..")
        else:
            out.append("n")
    return "".join(out)


def tokens(u):
    toks = []
    cur = ""
    for ch in u:
        if ch in "/\\":
            if cur:
                toks.append(cur)
                cur = ""
            toks.append(ch)
        else:
            cur += ch
    if cur:
        toks.append(cur)
    return toks


SITE_OF_MODE = {"inc": "include", "gt": "Namespace.get_template", "ns": "Namespace.get_namespace",
                "if": "Namespace.include_file", "inh": "inherit", "nst": "namespace-tag",
                "nn": "Namespace.get_namespace().get_template", "nsc": "namespace-call-tag",
                "sinc": "include(static)", "sinh": "inherit(static)", "snst": "namespace-tag(static)"}


# --------------------------------------------------------------------------- replay worker
def parse_row(line):
    """One exported line -> (kind, value): ("world", dict) | ("row", (uri, {ctx: set(outcomes)})) | (None, None)."""
    if not line.startswith('"{'):
        return None, None
    try:
        v = json.loads(json.loads(line))
    except ValueError:
        raise MachineryError("unreadable export line from TLC: %r" % line[:200])
    if "world" in v:
        return "world", v["world"]
    if "o" in v and isinstance(v["o"], dict):
        return "row", (v["u"], {c: set(o) for c, o in v["o"].items()})
    return None, None


def slice_lines(path, start, end):
    """The complete lines of the file that BEGIN in [start, end) -- each worker reads its own slice, the parent
    never holds the export."""
    with open(path, "rb") as f:
        if start > 0:
            f.seek(start - 1)
            f.readline()                  # the rest of the line that began before `start` (or just its newline)
        while True:
            pos = f.tell()
            if pos >= end:
                break
            line = f.readline()
            if not line:
                break
            yield line.decode("utf-8").rstrip("\n")


def _replay_slice(job):
    (name, base, path, start, end, world, modon, modes_all_upto, thin, extras) = job
    import gc
    _install_audit(base)
    wl = World(os.path.join(base, "L"), world, modon, extras=extras)
    wt = World(os.path.join(base, "Tm"), world, modon, with_callers=False, cwd=False, extras=extras)
    optname = ",".join(sorted(extras)) or "defaults"
    mism = []
    abs_callers = sorted(c for c, cu in world["callers"].items() if cu.startswith("/") and not cu.startswith("//")) or [None]
    hashes = array.array("Q")
    n = 0
    nrows = 0
    for line in slice_lines(path, start, end):
        kind, val = parse_row(line)
        if kind != "row":
            continue
        u, exp = val
        nrows += 1
        hashes.append(h64(u))
        if nrows % 1500 == 0:
            wl.fresh()
            wt.fresh()
            wl.wipe_modules()
            wt.wipe_modules()
            gc.collect()
        idx = zlib.crc32(u.encode("utf-8"))          # stable per URI: which sampled forms apply does not depend on slicing
        nseg = sum(1 for t in tokens(u) if t not in SEPS)
        for ci, (ctx, allowed) in enumerate(sorted(exp.items())):
            if not allowed:
                continue
            if thin and nseg >= 4 and ctx in world["callers"] and (ci + idx) % 2:
                continue        # quick tier: each 4-segment URI is replayed from half of the callers (TLC checks all)
            trials = []
            if ctx == "direct":
                trials.append(("get_template", wl, lambda: wl.get(u)))
                if nseg <= 3 or idx % 4 == 0:
                    trials.append(("has_template", wl, lambda: wl.has(u)))
            elif ctx == "template":
                trials.append(("Template()", wt, lambda: wt.template(u)))
                trials.append(("put_string", wt, lambda: wt.put(u)))
            else:
                modes = (CALLER_MODES + STATIC_MODES) if nseg <= modes_all_upto else [CALLER_MODES[(idx + len(ctx)) % len(CALLER_MODES)]]
                cu = world["callers"][ctx]
                for m in modes:
                    if m == "nn" and not cu.startswith("/") and "/" in cu:
                        continue        # get_namespace(local.uri) re-resolves a relative caller URI against itself
                    trials.append((SITE_OF_MODE[m], wl, (lambda m=m: wl.call(ctx, m, u))))
            if ctx in world["callers"] and ctx == abs_callers[idx % len(abs_callers)] and len(abs_callers) > 1:
                # one chain per URI: this caller and another one, in both orders over the URIs, same render
                other = abs_callers[(idx % len(abs_callers) + 1 + (idx // 7) % (len(abs_callers) - 1)) % len(abs_callers)]
                if exp.get(other):
                    cm = CHAIN_MODES[(idx // 3) % len(CHAIN_MODES)]
                    pair = [ctx, other] if (idx // 5) % 2 else [other, ctx]
                    obs = wl.chain(pair, cm, u)
                    for c2, ob in zip(pair, obs):
                        n += 1
                        site = SITE_OF_MODE[cm] + "(second caller in one render)" if c2 == pair[1] else SITE_OF_MODE[cm]
                        bad = judge(wl, site, exp[c2], ob)
                        if bad and len(mism) < 40:
                            d = dict(bad[1])
                            d.pop("log", None)
                            mism.append({"site": site, "mode": bad[0], "uri": u, "ctx": "+".join(pair), "allowed": sorted(exp[c2]),
                                         "observed": d, "module_options": wl.mode, "other_options": optname})
            for site, w, fn in trials:
                ob = fn()
                n += 1
                bad = judge(w, site, allowed, ob)
                if bad and len(mism) < 40:
                    d = dict(bad[1])
                    d.pop("log", None)
                    mism.append({"site": site, "mode": bad[0], "uri": u, "ctx": ctx, "allowed": sorted(allowed), "observed": d,
                                 "module_options": wl.mode, "other_options": optname})
    shutil.rmtree(base, ignore_errors=True)
    return name, n, mism, nrows, hashes.tobytes()


def report(run, mism, cfgname, source):
    """One violation per (site, failure mode), with the shortest failing URI as example."""
    groups = {}
    for m in mism:
        groups.setdefault((m["site"], m["mode"]), []).append(m)
    for (site, mode), ms in sorted(groups.items()):
        ms.sort(key=lambda m: (len(tokens(m["uri"])), m["uri"], m["ctx"]))
        ex = ms[0]
        cb = str(ex.get("module_options", "")).startswith("cb")
        run.violation("%s:%s:%s%s" % (site, mode, shape(ex["uri"]), ":modulename_callable" if cb else ""),
                      "%s with URI %r (context %s, root configuration %s, module options %s, other options %s): %s; the model allows %s"
                      % (site, ex["uri"], ex["ctx"], cfgname, ex.get("module_options"), ex.get("other_options"), mode, ex["allowed"]),
                      {"source": source, "config": cfgname, "example": ex, "others": [m["uri"] for m in ms[1:12]], "count": len(ms)})


# --------------------------------------------------------------------------- V: record requests
def random_uri(rng, nmax, segs):
    n = rng.randint(5, nmax)
    toks = []
    if rng.random() < 0.5:
        toks.append(rng.choice(SEPS))
    for i in range(n):
        r = rng.random()
        if r < 0.12 and toks and toks[-1] in SEPS:
            toks.append(rng.choice(SEPS))       # an empty segment
            continue
        if toks and toks[-1] not in SEPS:
            toks.append(rng.choice(SEPS))
        toks.append(rng.choice(segs + ["..", "sub", "sub"]) if rng.random() < 0.93 else rng.choice(ODD_NAMES))
    if rng.random() < 0.3:
        if toks and toks[-1] not in SEPS:
            toks.append(rng.choice(SEPS))
    return toks


def record_requests(run, world, modon, uris, ctxs):
    """Requests made on the real code, recorded as trace events (the observation in the model's terms)."""
    base = os.path.join(run.subdir("world-v"), "p0")
    _install_audit(base)
    extras = EXTRAS[len(uris[0]) % len(EXTRAS)] if uris else {}
    wl = World(os.path.join(base, "L"), world, modon, extras=extras)
    wt = World(os.path.join(base, "Tm"), world, modon, with_callers=False, extras=extras)
    traces = []
    for i, toks in enumerate(uris):
        u = "".join(toks)
        ctx = ctxs[i % len(ctxs)]
        if ctx == "direct":
            ob = wl.get(u)
            site = "get_template"
        elif ctx == "template":
            ob = wt.template(u)
            site = "Template()"
        else:
            mode = CALLER_MODES[(i // len(ctxs)) % len(CALLER_MODES)]
            cu = world["callers"][ctx]
            if mode == "nn" and not cu.startswith("/") and "/" in cu:
                mode = "inc"
            ob = wl.call(ctx, mode, u)
            site = SITE_OF_MODE[mode]
        w = wt if ctx == "template" else wl
        kind = ob["kind"]
        path = ""
        if kind == "F":
            path = w.content.get((ob["out"] or "").strip(), "?")
            if ob["path"] and ob["path"] != path:
                path = "?"
        # module files touched during the request (created or loaded), in the model's terms
        mods = sorted({p[len(w.base):] for k, p in ob["log"] if (p + "/").startswith(w.modroot + "/") and p.endswith(".py")})
        mods = [segs_of(m) for m in mods]
        outside = sorted({p for k, p in ob["log"] if (k == "w" and not (p + "/").startswith(w.modroot + "/")) or
                          (k == "r" and p.startswith(w.base + "/") and not (p + "/").startswith(w.modroot + "/")
                           and not any(p.startswith(d + "/") for d in w.rootdirs))})
        traces.append({"id": i + 1, "uri": toks, "ctx": ctx, "site": site,
                       "obs": {"kind": "exc" if kind == "E" else "found" if kind == "F" else kind,
                               "path": segs_of(path), "mods": mods, "outside": [w.rel(p) for p in outside]}})
    shutil.rmtree(base, ignore_errors=True)
    return traces


def segs_of(p):
    """'/T/sub/a' -> ['T', 'sub', 'a'] (the model's absolute segment sequence)."""
    return [x for x in p.split("/")[1:]] if p.startswith("/") else ([p] if p else [])


def validate(run, traces, cfg, modon, name, workers=4):
    res = run.tlc("Trace_Containment", trace_cfg(cfg, modon), name=name, workers=workers, timeout=600, count=False, heap="2g",
                  env={"C09_TRACES": "traces.json"}, extra_files={"traces.json": json.dumps(traces)}, expect_ok=False)
    if res.violated or not res.completed:
        raise MachineryError("trace validation %s failed: %s\n%s" % (name, res.violated, res.out[-2000:]))
    verdicts = {}
    for line in res.out.splitlines():
        if line.startswith('"{'):
            v = json.loads(json.loads(line))
            if "t" in v:
                cur = verdicts.get(v["t"])
                if cur is None or (v["ok"] and not cur["ok"]):
                    verdicts[v["t"]] = v
    missing = [t["id"] for t in traces if t["id"] not in verdicts]
    if missing:
        raise MachineryError("trace validation %s: %d traces without verdict\n%s" % (name, len(missing), res.out[-1500:]))
    return verdicts


# --------------------------------------------------------------------------- the check
def check(run):
    from concurrent.futures import ThreadPoolExecutor
    thorough = run.thorough
    cap = int(os.environ.get("VERIF_DEV_WORKERS", "0") or 0)        # development: be gentle with a shared machine
    nproc = min(core.NCPU, 16, cap * 2 if cap else 16)

    def wk(n):
        return max(1, min(n, cap)) if cap else n
    assumptions_check()
    import mako
    run.extra["mako_file"] = mako.__file__
    if not os.path.abspath(mako.__file__).startswith(os.path.abspath(core.MAKO_SRC) + os.sep):
        raise MachineryError("mako was imported from %s, not from MAKO_SRC=%s" % (mako.__file__, core.MAKO_SRC))

    # ---------------------------------------------------------------- TLC jobs (run concurrently)
    mc_bound = 3 if thorough else 2
    mc_jobs = [("mc-E", "E", ALL_CTX)]
    if thorough:
        mc_jobs += [("mc-B", "B", MAIN_CTX + ["r1", "x1"]), ("mc-C", "C", ALL_CTX), ("mc-D", "D", ALL_CTX), ("mc-A", "A", ALL_CTX), ("mc-R", "R", ALL_CTX)]
    plans = [  # name, cfg, maxsegs, segs, contexts, modon, all caller modes up to n segments, TLC workers
        ("enum-A", "A", 4, SEGS, ["direct", "c0", "c1", "c2", "c3"], True, 2, 10),
        ("enum-B", "B", 3, SEGS, ["direct", "c2", "r1", "x1"], True, 1, 2),
        ("enum-C", "C", 3, SEGS, ["direct", "c0", "d1", "b1", "t2"], False, 1, 2),
        ("enum-D", "D", 3, SEGS, ["direct", "template", "c1", "r0"], True, 1, 2),
        ("enum-E", "E", 3, SEGS, ["direct", "c3"], True, 1, 2),
        ("enum-R", "R", 3, SEGS, ["direct", "c2"], True, 1, 2),
        ("enum-A-cbdir", "A", 3, SEGS, ["direct", "template", "c1", "c3"], "cbdir", 1, 2),   # modulename_callable + module_directory
        ("enum-A-cb", "A", 3, SEGS, ["direct", "template", "c0", "c2"], "cb", 1, 2),         # modulename_callable alone
        ("enum-A5", "A", 5, ["a", ".."], ["direct", "c2"], False, 0, 3),        # longer URIs on a reduced alphabet (6 in thorough)
    ]
    if thorough:
        plans = [
            ("enum-A", "A", 4, SEGS, ALL_CTX, True, 3, 6),
            ("enum-A5", "A", 5, SEGS_REDUCED, MAIN_CTX, True, 0, 6),
            ("enum-A6", "A", 6, ["sub", ".."], ["direct", "c1", "c3"], True, 0, 4),
            ("enum-A6a", "A", 6, ["a", ".."], ["direct"], False, 0, 4),
            ("enum-A-cbdir", "A", 4, SEGS, ["direct", "template", "c1", "c3"], "cbdir", 2, 4),
            ("enum-A-cb", "A", 4, SEGS, ["direct", "template", "c0", "c2"], "cb", 2, 4),
            ("enum-B", "B", 4, SEGS, ["direct", "c1", "r1", "x1"], True, 2, 4),
            ("enum-C", "C", 4, SEGS, ["direct", "c0", "d1", "b1", "t2"], False, 2, 4),
            ("enum-D", "D", 4, SEGS, ["direct", "template", "c1"], True, 2, 4),
            ("enum-E", "E", 4, SEGS, ["direct", "c1", "c3"], True, 2, 4),
            ("enum-R", "R", 4, SEGS, ["direct", "c2", "r1"], True, 2, 4),
        ]
    # Memory: at most `conc` JVMs at a time, each with an explicit heap; the rows of the enumerations go to a file
    # (TLC -userFile), never through this process.
    conc = 3 if thorough else 4
    rowsdir = run.subdir("rows")
    rowfile = {}
    plan_of = {pl[0]: pl for pl in plans}
    exported = {}
    worlds = {}
    pending = []
    pool = multiprocessing.get_context("fork").Pool(nproc)     # forked while this process is still small

    def dispatch(name, res):
        """An enumeration finished: hand byte slices of its rows file to the replay workers (they run while the
        remaining TLC jobs are still going)."""
        (_, cfg, maxsegs, segs, ctxs, modon, modes_upto, nw) = plan_of[name]
        if res.violated:
            return
        path = rowfile[name]
        world = None
        head = {}
        with open(path, encoding="utf-8") as f:
            for k, line in enumerate(f):
                kind, val = parse_row(line.rstrip("\n"))
                if kind == "world":
                    world = val
                elif kind == "row" and len(head) < 4000:
                    head[val[0]] = val[1]
                if world is not None and (len(head) >= 4000 or k > 20000):
                    break
        if world is None:
            raise MachineryError("%s: TLC did not export the world" % name)
        worlds[cfg] = world
        exported[name] = (world, head, modon, cfg, maxsegs, segs)
        size = os.path.getsize(path)
        nsl = max(1, min(nproc * 6, size // 300000 + 1))
        step = size // nsl + 1
        for k in range(nsl):
            job = (name, os.path.join(run.subdir("world-" + name), "p%d" % k), path, k * step, min(size, (k + 1) * step),
                   world, modon, modes_upto, not thorough, EXTRAS[(k + len(name)) % len(EXTRAS)])
            pending.append(pool.apply_async(_replay_slice, (job,)))
    with ThreadPoolExecutor(max_workers=conc) as ex:
        futs = {}
        for (name, cfg, maxsegs, segs, ctxs, modon, modes_upto, nw) in plans:       # the long ones first
            rowfile[name] = os.path.join(rowsdir, name + ".txt")
            futs[name] = ex.submit(run.tlc, "Enum_Containment", enum_cfg(maxsegs, cfg, ctxs, modon, segs), name=name,
                                   timeout=2400, workers=wk(min(nw, 6)), count=False, heap="1500m" if maxsegs >= 4 else "1g",
                                   extra_args=["-userFile", rowfile[name]])
        for (name, cfg, ctxs) in mc_jobs:
            futs[name] = ex.submit(run.tlc, "MC_Containment", mc_cfg(mc_bound, cfg, ctxs), name=name, coverage=True,
                                   timeout=1500, workers=wk(3), count=False, heap="1g")
        # witness: some enumerated URI does make the probe hit a file outside the roots (so the refusal in
        # Template.__init__ is what keeps it out) -- a negated invariant that must be violated
        futs["mc-witness"] = ex.submit(run.tlc, "MC_Containment",
                                       mc_cfg(2, "A", MAIN_CTX).replace("INVARIANT OutsideHitRefused\n", "INVARIANT NoOutsideHit\n"),
                                       name="mc-witness", timeout=600, workers=wk(2), count=False, heap="1g")
        # Template(filename=, module_directory=) WITHOUT uri: the URI (hence the module path) derives from the filename
        nouri = nouri_filenames()
        futs["nouri"] = ex.submit(run.tlc, "Enum_Containment", enum_cfg(0, "A", ["template"], True, start="StartFromFile"),
                                  name="nouri", timeout=600, workers=1, count=False, heap="1g",
                                  env={"C09_START": "start.json"}, extra_files={"start.json": json.dumps([tokens(f) for f in nouri])})
        from concurrent.futures import as_completed
        results = {}
        names = {f: n for n, f in futs.items()}
        try:
            for f in as_completed(list(futs.values())):
                results[names[f]] = f.result()
                if names[f] in plan_of:
                    dispatch(names[f], results[names[f]])
        except BaseException:
            pool.terminate()
            raise
    import time as _t
    run.extra["phase_s"] = {"tlc": round(_t.time() - run.t0, 1)}
    for n, res in results.items():
        if n not in ("mc-witness", "nouri"):
            run.states += res.distinct
            run.transitions += res.generated

    # ---------------------------------------------------------------- 1. the step machine, exhaustively
    acts = {}
    for (name, cfg, ctxs) in mc_jobs:
        res = results[name]
        if res.violated:
            run.spec_violation(res)
            continue
        for a, (d, g) in res.coverage.items():
            acts[a] = acts.get(a, 0) + g
        world, rows = read_rows(res)
        outs = {o[0] for d in rows.values() for s in d.values() for o in s}
        if not {"E", "F", "S"} <= outs:
            raise MachineryError("vacuous: outcome kinds %s in configuration %s" % (outs, cfg))
    for a in ("Grow", "Request", "Adjust", "ProbeHit", "ProbeNext", "XProbeFail", "XConstruct"):
        if not acts.get(a) and not run.violations:
            raise MachineryError("vacuous model checking: action %s never taken (%s)" % (a, acts))
    run.extra["action_coverage"] = acts
    if "NoOutsideHit" not in results["mc-witness"].violated:
        raise MachineryError("vacuous: no enumerated URI makes the probe hit a file outside the roots")

    # ---------------------------------------------------------------- 2. R: enumerate, export, replay
    # Each worker reads its own byte slice of the exported file; this process keeps counters, URI hashes and a few
    # mismatches only.
    for (name, cfg, maxsegs, segs, ctxs, modon, modes_upto, nw) in plans:
        if results[name].violated:
            run.spec_violation(results[name], "TLC: the design model violates containment for some URI (%s)" % name)
    seen = {name: set() for name in exported}
    allm = {name: [] for name in exported}
    try:
        for ar in pending:
            (name, n, mism, nrows, hb) = ar.get(core.tscale(3600))
            run.traces += n
            d = run.extra.setdefault("requests_replayed", {})
            d[name] = d.get(name, 0) + n
            hs = array.array("Q")
            hs.frombytes(hb)
            seen[name].update(hs)
            if len(allm[name]) < 400:
                allm[name].extend(mism)
    finally:
        pool.terminate()
        pool.join()
    run.extra["phase_s"]["replay_done"] = round(_t.time() - run.t0, 1)
    for name in exported:
        world, head, modon, cfg, maxsegs, segs = exported[name]
        cnt, acc = uri_fingerprint(maxsegs, segs)
        got = seen.pop(name)
        if len(got) != cnt or (sum(got) & 0xFFFFFFFFFFFFFFFF) != acc:
            raise MachineryError("%s: TLC exported %d distinct URIs, the harness enumerates %d (or the sets differ)" % (name, len(got), cnt))
        del got
        run.extra.setdefault("uris_enumerated", {})[name] = cnt
        report(run, allm[name], cfg, "every URI of <= %d segments enumerated by TLC (%s), replayed" % (maxsegs, name))
        try:
            os.remove(rowfile[name])
        except OSError:
            pass
    if "enum-A" in exported:
        world, head, modon, cfg, maxsegs, segs = exported["enum-A"]
        negative_controls(run, world, head, modon)
        for u in ("\\..\\a", "sub/..//../..a", "a../a", "\\a"):
            if u in head:
                run.sample({"direction": "R", "uri": u, "expected": {c: sorted(x) for c, x in head[u].items()}})

    # ---------------------------------------------------------------- 2b. Template(filename=...) without uri
    if not results["nouri"].violated:
        wld, nrows = read_rows(results["nouri"])
        check_nouri(run, wld, nrows, nouri)
    else:
        run.spec_violation(results["nouri"])

    # ---------------------------------------------------------------- 3. V: random long URIs, judged by TLC
    nrand = 6000 if thorough else 1500
    recorded = {}
    for cfg, modon in (("A", True), ("B", True), ("C", False)):
        if cfg not in worlds:
            continue
        uris = [random_uri(run.rng, 12, SEGS) for _ in range(nrand)]
        traces = record_requests(run, worlds[cfg], modon, uris, ALL_CTX)
        bad = dict(traces[0], id=10 ** 6 + 1)
        bad["obs"] = dict(bad["obs"], kind="found", path=["T", "sub", "a"])           # a sentinel outside the roots
        fx = [t for t in traces if t["obs"]["kind"] == "found"]
        ncs = [("sentinel", bad)]
        for j, t in enumerate(fx[:6]):        # several candidates: one of them may lie in a silent spot
            b2 = dict(t, id=10 ** 6 + 10 + j)
            b2["obs"] = dict(b2["obs"], kind="exc", path=[])
            ncs.append(("found->exc", b2))
            if modon:
                b3 = dict(t, id=10 ** 6 + 20 + j)
                b3["obs"] = dict(b3["obs"], mods=[["T", "sub", "sub", "a.py"]])
                ncs.append(("module-outside", b3))
        recorded[cfg] = (modon, traces, ncs)
    with ThreadPoolExecutor(max_workers=3) as ex:
        vf = {cfg: ex.submit(validate, run, traces + [n for _, n in ncs], cfg, modon, "trace-" + cfg, wk(4)) for cfg, (modon, traces, ncs) in recorded.items()}
        vres = {cfg: f.result() for cfg, f in vf.items()}
    for cfg, (modon, traces, ncs) in recorded.items():
        verdicts = vres[cfg]
        for what in sorted({w for w, _ in ncs}):
            run.negative_control(any(not verdicts[n["id"]]["ok"] for w, n in ncs if w == what),
                                 "Trace_Containment accepted corrupted observations (%s)" % what)
        run.traces += len(traces)
        badv = [(t, verdicts[t["id"]]) for t in traces if not verdicts[t["id"]]["ok"]]
        groups = {}
        for t, v in badv:
            groups.setdefault((t["site"], v["clause"]), []).append((t, v))
        for (site, clause), tv in sorted(groups.items()):
            tv.sort(key=lambda x: (len(x[0]["uri"]), x[0]["uri"]))
            t, v = tv[0]
            run.violation("trace:%s:%s" % (site, clause),
                          "recorded request not explained by Containment.tla (%s): URI %r in context %s observed %s"
                          % (clause, "".join(t["uri"]), t["ctx"], t["obs"]),
                          {"config": cfg, "trace": t, "verdict": v, "count": len(tv)})
        if cfg == "A" and traces:
            run.sample({"direction": "V", "uri": "".join(traces[0]["uri"]), "ctx": traces[0]["ctx"], "obs": traces[0]["obs"]})

    run.assumptions += [
        "the world is a real directory tree under /dev/shm; the model's file-system root is the scratch directory (nothing named a/sub/..a/a.. exists in its ancestors; checked)",
        "file operations are observed with sys.addaudithook (open, os.mkdir, os.rename, os.remove); os.stat/isfile probes are not reads",
        "POSIX only (os.path = posixpath); roots do not begin with exactly two slashes; no symbolic links",
        "file=\"\" is not generated (IndexError in adjust_uri, finding #11 of C07)",
        "silent spots accepted either way: first segment '..name'; URIs that leave the root and come back into a configured directory",
    ]
    return {"rule": "TLC exhaustive on the step machine (small bound, 4 root configurations) and on every URI up to the bound "
                    "(one state per URI, property evaluated for every context); every exported request replayed on a real "
                    "TemplateLookup over a real tree with sentinels outside the roots, file operations audited; random long "
                    "URIs recorded from the real code and judged by Trace_Containment.tla. A case is one (URI, context, call form).",
            "exhaustive": True}


def nouri_filenames():
    """File names (in the model's terms) for Template(filename=...) without uri: files inside root 1, spelled plainly
    and with dot segments / doubled slashes."""
    out = []
    for rel in ("a", "..a", "a../a", "sub/a", "sub/a../..a", "sub/sub/a", "sub/sub/sub/a"):
        out.append("/T/sub/sub/a/" + rel)
        out.append("/T/sub/sub/./a//" + rel)
        out.append("/T/sub/sub/sub/../a/" + rel)
        out.append("/T/sub/../sub/sub/a/sub/../" + rel)
    return out


def check_nouri(run, world, rows, names):
    from mako.template import Template
    base = os.path.join(run.subdir("world-nouri"), "p0")
    _install_audit(base)
    w = World(os.path.join(base, "L"), world, True)
    n = 0
    for f in names:
        allowed = rows.get(f, {}).get("template")
        if not allowed or len(allowed) != 1 or not next(iter(allowed)).startswith("F"):
            raise MachineryError("no single expected outcome for Template(filename=%r): %s" % (f, allowed))
        exp_mod = next(iter(allowed)).partition("|")[2]
        # the model's file-system root is w.base: the real URI derived from the filename carries that prefix
        real_mod = w.modroot + w.base + exp_mod[len(world["modroot"]):]
        real_f = w.base + f

        def fn(ob):
            t = Template(filename=real_f, module_directory=w.moddir, lookup=w.lk)
            ob["kind"] = "F"
            ob["mod"] = os.path.abspath(t.module.__file__)
            ob["out"] = t.render()
        ob = w._run(fn)
        n += 1
        bad = None
        src = os.path.normpath(real_f)
        for kind, p in ob["log"]:
            if kind == "w" and not (p + "/").startswith(w.modroot + "/"):
                bad = "creates-outside-module-directory"
            if kind == "r" and p.startswith(w.base + "/") and not (p + "/").startswith(w.modroot + "/") and p != src:
                bad = bad or "reads-other-file"
        if not bad:
            if ob["kind"] != "F":
                bad = "unexpected-exception:" + ob["kind"]
            elif ob["mod"] != real_mod or not os.path.isfile(real_mod):
                bad = "wrong-module-path"
            elif w.content.get((ob["out"] or "").strip()) != src[len(w.base):]:
                bad = "wrong-content"
        if bad:
            d = dict(ob)
            d.pop("log", None)
            run.violation("Template(filename):%s" % bad, "Template(filename=%r, module_directory=...) without uri: %s (expected module %s)"
                          % (f, bad, real_mod), {"filename": f, "observed": d, "expected_module": real_mod})
            break
    run.traces += n
    run.extra["nouri_templates"] = n
    shutil.rmtree(base, ignore_errors=True)


def assumptions_check():
    base = "/dev/shm" if os.path.isdir("/dev/shm") else "/tmp"
    d = base
    while True:
        for n in SEGS:
            if n not in (".", "..") and os.path.lexists(os.path.join(d, n)):
                raise MachineryError("a file named %r exists in %s: the model's 'nothing above the scratch tree' assumption fails" % (n, d))
        if d == "/":
            break
        d = os.path.dirname(d)


def negative_controls(run, world, rows, modon):
    """The comparer must reject a wrong expected value and a wrong observation."""
    base = os.path.join(run.subdir("world-nc"), "p0")
    _install_audit(base)
    w = World(os.path.join(base, "L"), world, modon)
    found = [u for u, d in sorted(rows.items()) if d.get("direct") and all(o[0] == "F" for o in d["direct"])]
    exc = [u for u, d in sorted(rows.items()) if d.get("direct") == {"E"} and ".." in u]
    if not found or not exc:
        raise MachineryError("negative control: no found / refused URI in the export")
    u = found[len(found) // 2]
    ob = w.get(u)
    if judge(w, "get_template", rows[u]["direct"], ob) is not None:
        return   # a genuine mismatch; reported by the replay
    run.negative_control(judge(w, "get_template", {"E"}, ob) is not None, "comparer accepted a served file where the model says exception")
    other = [x for x in found if rows[x]["direct"] != rows[u]["direct"]][0]
    run.negative_control(judge(w, "get_template", rows[other]["direct"], ob) is not None, "comparer accepted the wrong file")
    ob2 = dict(ob, log=ob["log"] + [("r", w.base + "/T/sub/a")])
    run.negative_control(judge(w, "get_template", rows[u]["direct"], ob2) is not None, "comparer accepted a read of a sentinel file")
    ob3 = dict(ob, log=ob["log"] + [("w", w.base + "/T/sub/sub/a/x.py")])
    run.negative_control(judge(w, "get_template", rows[u]["direct"], ob3) is not None, "comparer accepted a file created outside module_directory")
    e = exc[0]
    run.negative_control(judge(w, "get_template", rows[e]["direct"], ob) is not None, "comparer accepted a template where the model says exception")
    shutil.rmtree(base, ignore_errors=True)
