"""Deterministic scheduler for real threads (property C16).

Real `threading.Thread`s run one at a time.  A thread announces the visible operation it is ABOUT
to perform with `Scheduler.point(op)` and parks; a controller (the thread that called
`Scheduler.run`) picks, through a `chooser`, which parked thread performs its pending operation
next; the chosen thread performs it, logs the event(s) while it is the only running thread, runs on
to its next point (or to its end) and parks again.  Nothing depends on wall-clock time: the only
timeout is the safety net for a thread that never comes back to a point (reported as `hang`).

An operation is a dict {"label": str, "fp": [(object, is_write), ...], "enabled": callable|None};
`fp` (footprint) is what the stateless search uses as independence relation.

The environment is a pseudo-thread "env" with a fixed script of steps executed by the controller.

Exploration strategies (all stateless: every execution starts from scratch):
  * explore_sleep   -- depth-first over ALL interleavings, pruned with sleep sets (one execution per
                       Mazurkiewicz trace; executions that run into a sleep-set-blocked state are
                       completed but flagged `redundant`);
  * explore_bounded -- depth-first over all interleavings with at most `bound` preemptions;
  * PCT / random choosers for line-level scheduling; Replay chooser for prescribed schedules.

Also: `Interposed`, the set of logging stand-ins for TemplateLookup._collection / _mutex, os.stat,
os.path.isfile, util.read_file, Template and time.time used by harness/c16.py, and `LineTracer`,
a sys.settrace based yield point on every executed line of selected files.
"""
import os
import sys
import threading

from .core import MachineryError


class StopExecution(Exception):
    """Raised by a chooser to abandon the current execution (threads are unwound)."""


class Abort(BaseException):
    """Raised inside a parked thread to unwind it when an execution is abandoned."""


class _Th:
    __slots__ = ("name", "fn", "thread", "sem", "op", "done", "exc", "steps")

    def __init__(self, name, fn):
        self.name = name
        self.fn = fn
        self.sem = threading.Semaphore(0)
        self.op = None
        self.done = False
        self.exc = None
        self.steps = 0


class Scheduler:
    def __init__(self, chooser, timeout=20.0):
        self.chooser = chooser
        self.timeout = timeout
        self.ths = {}
        self.order = []
        self.ctl = threading.Semaphore(0)
        self.trace = []          # logged events (dicts)
        self.decisions = []      # [{"enabled": {name: label}, "chosen": name}]
        self.env_script = []
        self.env_pos = 0
        self.env_fn = None
        self.current = None
        self.aborting = False
        self.blocked = []
        self.hang = None
        self.after_step = None   # callback(sched, chosen name) run by the controller after every step

    # ---- called by the harness before run()
    def spawn(self, name, fn):
        t = _Th(name, fn)
        self.ths[name] = t
        self.order.append(name)

    def environment(self, script, fn):
        """script: list of ops (dicts with label/fp + whatever fn needs); fn(sched, step) performs one."""
        self.env_script = list(script)
        self.env_fn = fn

    # ---- called by worker threads
    def me(self):
        return getattr(threading.current_thread(), "_sched_name", None)

    def point(self, op):
        """Announce the pending operation and park until the controller grants the step."""
        name = self.me()
        if name is None or self.aborting:
            if self.aborting and name is not None:
                raise Abort()
            return
        t = self.ths[name]
        t.op = op
        self.ctl.release()
        t.sem.acquire()
        if self.aborting:
            raise Abort()
        t.op = None
        t.steps += 1

    def log(self, ev):
        self.trace.append(ev)

    # ---- controller
    def _body(self, t):
        threading.current_thread()._sched_name = t.name
        try:
            t.sem.acquire()
            if not self.aborting:
                t.fn()
        except Abort:
            pass
        except BaseException as e:  # noqa  -- a worker must never kill the harness
            t.exc = e
        finally:
            t.done = True
            t.op = None
            self.ctl.release()

    def _wait(self, who):
        if not self.ctl.acquire(timeout=self.timeout):
            self.hang = who
            return False
        return True

    def _enabled(self):
        en = []
        for n in self.order:
            t = self.ths[n]
            if t.done or t.op is None:
                continue
            pred = t.op.get("enabled")
            if pred is None or pred():
                en.append((n, t.op))
        if self.env_pos < len(self.env_script) and any(not self.ths[n].done for n in self.order):
            en.append(("env", self.env_script[self.env_pos]))
        return en

    def run(self):
        """Returns "ok" (all threads finished), "blocked" (threads parked forever) or "hang"."""
        for n in self.order:
            t = self.ths[n]
            t.thread = threading.Thread(target=self._body, args=(t,), name=n, daemon=True)
            t.thread.start()
        # bring every thread to its first point, one at a time
        for n in self.order:
            self.current = n
            self.ths[n].sem.release()
            if not self._wait(n):
                return self._finish("hang")
        step = 0
        while True:
            if all(self.ths[n].done for n in self.order):
                return self._finish("ok")
            en = self._enabled()
            if not en:
                self.blocked = [n for n in self.order if not self.ths[n].done]
                return self._finish("blocked")
            try:
                name = self.chooser.choose(step, en, self)
            except StopExecution:
                return self._finish("abandoned")
            self.decisions.append({"enabled": {n: o["label"] for n, o in en}, "chosen": name})
            step += 1
            if name == "env":
                st = self.env_script[self.env_pos]
                self.env_pos += 1
                self.current = "env"
                self.env_fn(self, st)
            else:
                self.current = name
                self.ths[name].sem.release()
                if not self._wait(name):
                    return self._finish("hang")
            if self.after_step is not None:
                self.after_step(self, name)

    def _finish(self, status):
        self.status = status
        if status != "ok":
            # unwind whatever is still parked
            self.aborting = True
            for n in self.order:
                t = self.ths[n]
                if not t.done:
                    t.sem.release()
            for n in self.order:
                t = self.ths[n]
                if t.thread is not None:
                    t.thread.join(2.0 if status != "hang" else 0.2)
        else:
            for n in self.order:
                self.ths[n].thread.join(self.timeout)
        return status


# --------------------------------------------------------------------------- independence
def independent(a, b):
    for (oa, wa) in a.get("fp", ()):
        for (ob, wb) in b.get("fp", ()):
            if oa == ob and (wa or wb):
                return False
    return True


# --------------------------------------------------------------------------- choosers
class Replay:
    """Follow a prescribed list of thread names; beyond it, first enabled (or `then` chooser)."""

    def __init__(self, names, strict=False):
        self.names = list(names)
        self.strict = strict
        self.mismatch = None

    def choose(self, step, en, sched):
        avail = [n for n, _ in en]
        if step < len(self.names):
            want = self.names[step]
            if want in avail:
                return want
            if self.mismatch is None:
                self.mismatch = {"step": step, "want": want, "enabled": {n: o["label"] for n, o in en}}
        return avail[0]


class _Node:
    __slots__ = ("ops", "order", "sleep", "done", "chosen")

    def __init__(self, en):
        self.ops = {n: o for n, o in en}
        self.order = [n for n, _ in en]
        self.sleep = set()
        self.done = set()
        self.chosen = None


class _DfsChooser:
    def __init__(self, stack):
        self.stack = stack
        self.redundant = False

    def choose(self, step, en, sched):
        avail = [n for n, _ in en]
        if self.redundant:
            return avail[0]
        if step < len(self.stack):
            node = self.stack[step]
            if node.order != avail or any(node.ops[n]["label"] != o["label"] for n, o in en):
                raise MachineryError("nondeterministic execution under the scheduler at step %d: %s vs %s"
                                     % (step, [(n, node.ops[n]["label"]) for n in node.order], [(n, o["label"]) for n, o in en]))
            return node.chosen
        node = _Node(en)
        if step > 0:
            par = self.stack[step - 1]
            pop_ = par.ops[par.chosen]
            for x in par.sleep | par.done:
                if x != par.chosen and x in par.ops and independent(par.ops[x], pop_):
                    node.sleep.add(x)
        cands = [n for n in avail if n not in node.sleep]
        if not cands:
            self.redundant = True       # sleep-set blocked: everything from here was explored elsewhere
            raise StopExecution()
        node.chosen = cands[0]
        self.stack.append(node)
        return node.chosen


def explore_sleep(run_one, limit=None):
    """run_one(chooser) -> result.  Yields (result, redundant) for every execution; complete when it
    returns normally; `limit` executions at most (then the generator's `.complete` is False)."""
    stack = []
    n = 0
    while True:
        ch = _DfsChooser(stack)
        res = run_one(ch)
        n += 1
        yield res, ch.redundant
        while stack:
            node = stack[-1]
            node.done.add(node.chosen)
            cands = [x for x in node.order if x not in node.sleep and x not in node.done]
            if cands:
                node.chosen = cands[0]
                break
            stack.pop()
        if not stack:
            return
        if limit is not None and n >= limit:
            raise ExplorationLimit(n)


class ExplorationLimit(Exception):
    pass


class _BoundChooser:
    """DFS over all schedules with at most `bound` preemptions (a switch away from a thread that
    could have continued)."""

    def __init__(self, stack, bound):
        self.stack = stack
        self.bound = bound
        self.prev = None
        self.pre = 0
        self.redundant = False

    def choose(self, step, en, sched):
        avail = [n for n, _ in en]
        if step < len(self.stack):
            node = self.stack[step]
            if node["order"] != avail:
                raise MachineryError("nondeterministic execution under the scheduler at step %d" % step)
            c = node["chosen"]
        else:
            c = self.prev if self.prev in avail else avail[0]
            hot = True
            for n, o in en:
                if n == self.prev:
                    hot = bool(o.get("hot", True))
            node = {"order": avail, "chosen": c, "prev": self.prev, "pre": self.pre, "done": set(), "hot": hot}
            self.stack.append(node)
        if self.prev in avail and c != self.prev:
            self.pre += 1
        self.prev = c
        return c


def explore_bounded(run_one, bound, limit=None, hot_only=False):
    """hot_only: preempt a thread only when its pending operation is marked hot."""
    stack = []
    n = 0
    while True:
        ch = _BoundChooser(stack, bound)
        res = run_one(ch)
        n += 1
        yield res, False
        while stack:
            node = stack[-1]
            node["done"].add(node["chosen"])
            cands = []
            for x in node["order"]:
                if x in node["done"]:
                    continue
                cost = 1 if (node["prev"] in node["order"] and x != node["prev"]) else 0
                if cost and hot_only and not node["hot"]:
                    continue
                if node["pre"] + cost <= bound:
                    cands.append(x)
            if cands:
                node["chosen"] = cands[0]
                break
            stack.pop()
        if not stack:
            return
        if limit is not None and n >= limit:
            raise ExplorationLimit(n)


class PCT:
    """Randomised priority scheduling (Burckhardt et al.): random distinct priorities, the highest
    priority enabled thread runs; at `d` random change points the running thread's priority drops
    below all others."""

    def __init__(self, rng, names, depth, length):
        self.rng = rng
        pr = list(range(depth + 1, depth + 1 + len(names)))
        rng.shuffle(pr)
        self.prio = dict(zip(names, pr))
        self.change = {}
        for i in range(depth):
            self.change[rng.randrange(max(1, length))] = depth - i
        self.switches = 0
        self.prev = None

    def choose(self, step, en, sched):
        avail = [n for n, _ in en]
        c = max(avail, key=lambda n: (self.prio.get(n, 0), n))
        if step in self.change:
            self.prio[c] = self.change[step]
            c = max(avail, key=lambda n: (self.prio.get(n, 0), n))
        if self.prev is not None and c != self.prev:
            self.switches += 1
        self.prev = c
        return c


class RandomSwitch:
    """Continue the running thread; switch to a random other one with probability p at each point."""

    def __init__(self, rng, p):
        self.rng = rng
        self.p = p
        self.prev = None

    def choose(self, step, en, sched):
        avail = [n for n, _ in en]
        if self.prev in avail and (len(avail) == 1 or self.rng.random() >= self.p):
            return self.prev
        others = [n for n in avail if n != self.prev] or avail
        self.prev = self.rng.choice(others)
        return self.prev


# --------------------------------------------------------------------------- line-level points
class LineTracer:
    """sys.settrace hook: every executed line of the selected files is a scheduling point."""

    def __init__(self, sched, want_file):
        self.sched = sched
        self.want = want_file
        self.cache = {}
        self.lines = 0

    def _wanted(self, fn):
        w = self.cache.get(fn)
        if w is None:
            w = self.cache[fn] = bool(self.want(fn))
        return w

    def tracer(self, frame, event, arg):
        if not self._wanted(frame.f_code.co_filename):
            return None
        return self.local

    def local(self, frame, event, arg):
        if event == "line":
            self.lines += 1
            self.sched.point({"label": "line", "fp": (("*", True),)})
        return self.local
