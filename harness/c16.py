"""C16 -- concurrent get_template calls and concurrent renders.

Specifications: spec/LookupConc.tla (PlusCal, intended protocol of get_template/_check/_load),
spec/Trace_LookupConc.tla (trace validation, deviation Dev_SecondChanceUnchecked),
spec/RenderShared.tla + spec/Trace_RenderShared.tla (concurrent renders through one lookup).

 1. TLC checks MutexDiscipline, FirstRequestsCompileOnce, CompleteObject, FreshSinceCallStart,
    OnlyDocumentedExceptions and the liveness property NoThreadBlocked (weak fairness, no state
    constraint) exhaustively on LookupConc for 2 threads (same/different URI, environment steps) and
    3 threads (same URI); and the RenderShared invariants.
 2. V-exhaustive: real threads under the deterministic scheduler (harness/sched.py), stateless DFS
    over all interleavings at the interposed points (sleep sets; 3 threads: preemption bound 2);
    every execution's trace is validated by Trace_LookupConc with the invariants evaluated in every
    state.  A blocked thread is an observation (event "end"), judged by the trace spec.
 3. R: TLC -simulate behaviours (and the TLC counterexample for finding #19) are replayed as
    schedules on real threads; thread position and projected state are compared after every step.
 4. Renders: line-level scheduling (sys.settrace) of 2-3 threads rendering templates that share
    namespaces / includes / inheritance / cached defs through one bounded lookup; traces validated
    by Trace_RenderShared (RenderIsolation against solo outputs, BoundUnderConcurrency).
"""
import copy
import os

from . import core, sched
from .core import MachineryError

BASE = 1_000_000_000
TPS = 2
OLD_ATIME = BASE - 100000
KNOWN_SIG_19 = "second-chance-hit-unchecked:stale-after-call-start"


# =========================================================================== the lookup world
class LookupWorld:
    """One execution: a real TemplateLookup over a temp directory, everything the spec has a label
    for interposed and turned into a scheduling point + logged event."""

    def __init__(self, S, sc, root):
        import mako.codegen as cg
        import mako.lookup as ml
        import mako.util as mu
        from mako import exceptions
        self.S, self.sc, self.root = S, sc, root
        self.ml, self.cg, self.mu, self.exc = ml, cg, mu, exceptions
        self.ticks = 0
        self.objs = {}
        self.keep = []
        self.objver = {}
        self.built = {}
        self.quiet = set()
        self.vers = {}
        self.lastread = {}
        w = self
        for u, st in enumerate(sc["files"], 1):
            p = self.path(u)
            if st == "absent":
                if os.path.exists(p):
                    os.remove(p)
                self.vers[u] = 0
            else:
                self.vers[u] = 0
                self.write(u, st == "ok")

        class _Time:
            @staticmethod
            def time():
                name = w.active()
                if name is not None:
                    S.point({"label": "stamp", "fp": (("clock", False), ("nobj", True))})
                    S.log({"th": name, "ev": "stamp", "ct": w.ticks})
                return BASE + w.ticks / TPS

            def __getattr__(self, a):
                import time as _t
                return getattr(_t, a)

        class _Path:
            @staticmethod
            def isfile(p):
                name = w.active()
                if name is not None:
                    S.point({"label": "probe", "fp": ((("file", w.u_of(p)), False),)})
                r = os.path.isfile(p)
                if name is not None:
                    S.log({"th": name, "ev": "probe", "found": bool(r)})
                return r

            def __getattr__(self, a):
                return getattr(os.path, a)

        class _Os:
            path = _Path()

            @staticmethod
            def stat(p, *a, **kw):
                name = w.active()
                if name is not None:
                    S.point({"label": "stat", "fp": ((("file", w.u_of(p)), False),)})
                st = os.stat(p, *a, **kw)
                if name is not None:
                    S.log({"th": name, "ev": "stat", "mt": int(st.st_mtime) - BASE})
                return st

            def __getattr__(self, a):
                return getattr(os, a)

        real_read = mu.read_file

        def read_file(path, mode="rb"):
            name = w.active()
            if name is not None:
                S.point({"label": "readsrc", "fp": ((("file", w.u_of(path)), False),)})
            data = real_read(path, mode)
            if name is not None:
                ver, ok = w.parse(data)
                w.lastread[name] = ver
                S.log({"th": name, "ev": "readsrc", "ver": ver, "ok": ok})
            return data

        T0 = ml.Template

        class T(T0):
            def __init__(self, *a, **kw):
                name = w.active()
                super().__init__(*a, **kw)
                u = w.u_of(kw.get("uri") or "")
                w.built[u] = w.built.get(u, 0) + 1
                n = w.num(self)
                w.objver[n] = w.lastread.get(name, 1) if name is not None else 1

        self._saved = (cg.time, ml.os, mu.read_file, ml.Template)
        cg.time, ml.os, mu.read_file, ml.Template = _Time(), _Os(), read_file, T
        self.lk = ml.TemplateLookup([root], filesystem_checks=sc["fsc"])
        self.lock = _Lock(self)          # before the warm-up: a lock that is never released must not hang the harness
        self.lk._mutex = self.lock
        if sc.get("warm"):
            for u, st in enumerate(sc["files"], 1):
                if st == "ok":
                    self.lk.get_template(self.uri(u))
        coll = _Coll(self)
        for k, v in self.lk._collection.items():
            dict.__setitem__(coll, k, v)
        self.lk._collection = coll
        self.lk._mutex = self.lock

    # ---- helpers
    def close(self):
        self.cg.time, self.ml.os, self.mu.read_file, self.ml.Template = self._saved

    def active(self):
        n = self.S.me()
        if n is None or n in self.quiet:
            return None
        return n

    def uri(self, u):
        return "u%d.html" % u

    def path(self, u):
        return os.path.join(self.root, self.uri(u))

    def u_of(self, p):
        b = os.path.basename(str(p))
        try:
            return int(b[1:].split(".")[0])
        except ValueError:
            return 0

    @staticmethod
    def parse(data):
        s = data.decode() if isinstance(data, bytes) else data
        try:
            ver = int(s.split("-v", 1)[1].split(" ")[0].split("$")[0])
        except Exception:
            ver = -1
        return ver, "${" not in s

    def write(self, u, ok):
        self.vers[u] += 1
        p = self.path(u)
        with open(p, "w") as f:
            f.write("u%d-v%d%s" % (u, self.vers[u], "" if ok else " ${"))
        mt = self.ticks // TPS
        os.utime(p, (OLD_ATIME, BASE + mt))
        return mt

    def num(self, obj):
        if id(obj) not in self.objs:
            self.keep.append(obj)
            self.objs[id(obj)] = len(self.objs) + 1
        return self.objs[id(obj)]

    @staticmethod
    def complete(t):
        return getattr(t, "module", None) is not None and getattr(t, "callable_", None) is not None

    # ---- environment steps (performed by the controller)
    def env_step(self, S, st):
        if st["label"] == "env_tick":
            self.ticks += 1
            S.log({"th": "env", "ev": "env_tick"})
        else:
            mt = self.write(st["u"], st["ok"])
            S.log({"th": "env", "ev": "env_modify", "u": st["u"], "ok": st["ok"], "ver": self.vers[st["u"]], "mt": mt})

    # ---- a worker: one get_template call
    def worker(self, name, u):
        after = list(self.sc.get("after", {}).get(name, []))

        def f():
            S = self.S
            op = {"label": "start", "fp": ((("file", u), False),)}
            if after:       # a follow-up request: it starts only when those calls have returned
                op["enabled"] = lambda: all(S.ths[a].done for a in after)
            S.point(op)
            S.log({"th": name, "ev": "start"})
            e = {"th": name, "ev": "fin", "res": "", "obj": 0, "ver": 0, "complete": False}
            try:
                t = self.lk.get_template(self.uri(u))
            except sched.Abort:
                raise
            except BaseException as ex:  # noqa
                e["res"] = self.classify(ex)
                e["detail"] = str(ex)[:120]
            else:
                self.quiet.add(name)
                try:
                    e["res"] = "tmpl"
                    e["obj"] = self.num(t)
                    e["complete"] = self.complete(t)
                    try:
                        e["ver"] = self.parse(t.render())[0]
                    except BaseException as ex:  # noqa
                        e["ver"] = -1
                        e["complete"] = False
                        e["detail"] = "render: %s" % type(ex).__name__
                finally:
                    self.quiet.discard(name)
            S.log(e)
        return f

    def classify(self, ex):
        exc = self.exc
        if isinstance(ex, exc.TopLevelLookupException):
            return "toplevel_exc"
        if isinstance(ex, exc.TemplateLookupException):
            return "lookup_exc"
        if isinstance(ex, (exc.SyntaxException, exc.CompileException)):
            return "compile_error"
        return "exc:" + type(ex).__name__

    # ---- projection of the real state (for R)
    def project(self):
        coll = {}
        for k, v in dict.items(self.lk._collection):
            n = self.num(v)
            coll[self.u_of(k)] = {"obj": n, "ver": self.objver.get(n, -1)}
        return {"coll": coll, "mutex": self.lock.owner or "free", "built": dict(self.built), "now": self.ticks}


class _Lock:
    """Stand-in for TemplateLookup._mutex with the semantics of threading.Lock."""

    def __init__(self, w):
        self.w = w
        self.owner = None

    def acquire(self, blocking=True, timeout=-1):
        w = self.w
        name = w.active()
        if name is None:
            self.owner = self.owner or "<main>"
            return True
        if blocking:
            w.S.point({"label": "acquire", "fp": (("mutex", True),), "enabled": lambda: self.owner is None})
            self.owner = name
            w.S.log({"th": name, "ev": "acquire", "got": True})
            return True
        w.S.point({"label": "acquire", "fp": (("mutex", True),)})
        got = self.owner is None
        if got:
            self.owner = name
        w.S.log({"th": name, "ev": "acquire", "got": got})
        return got

    def release(self):
        w = self.w
        name = w.active()
        if name is None:
            self.owner = None
            return
        w.S.point({"label": "release", "fp": (("mutex", True),)})
        w.S.log({"th": name, "ev": "release", "owner": self.owner or "free"})
        if self.owner is None:
            raise RuntimeError("release unlocked lock")
        self.owner = None

    def locked(self):
        return self.owner is not None

    __enter__ = acquire

    def __exit__(self, *a):
        self.release()


class _Coll(dict):
    """Stand-in for TemplateLookup._collection (collection_size = -1: a dict)."""

    def __init__(self, w):
        dict.__init__(self)
        self.w = w

    def _read(self, k):
        w = self.w
        name = w.active()
        if name is None:
            return dict.__contains__(self, k)
        label = "second" if w.lock.owner == name else "readcoll"
        w.S.point({"label": label, "fp": ((("coll", w.u_of(k)), False),)})
        hit = dict.__contains__(self, k)
        w.S.log({"th": name, "ev": label, "hit": hit})
        return hit

    def __getitem__(self, k):
        if not self._read(k):
            raise KeyError(k)
        return dict.__getitem__(self, k)

    def __contains__(self, k):
        return self._read(k)

    def get(self, k, d=None):
        return dict.__getitem__(self, k) if self._read(k) else d

    def __setitem__(self, k, v):
        w = self.w
        name = w.active()
        if name is not None:
            w.S.point({"label": "store", "fp": ((("coll", w.u_of(k)), True),)})
        dict.__setitem__(self, k, v)
        if name is not None:
            w.S.log({"th": name, "ev": "store", "obj": w.num(v), "complete": w.complete(v)})

    def pop(self, k, *d):
        w = self.w
        name = w.active()
        if name is not None:
            w.S.point({"label": "pop", "fp": ((("coll", w.u_of(k)), True),)})
        v = dict.pop(self, k, *d)
        if name is not None:
            w.S.log({"th": name, "ev": "pop", "held": w.lock.owner == name})
        return v

    def __delitem__(self, k):
        self.pop(k)


def env_script(steps):
    out = []
    for s in steps:
        if s == "tick":
            out.append({"label": "env_tick", "fp": (("clock", True),)})
        else:
            kind, u = s
            out.append({"label": "env_modify", "u": u, "ok": kind == "modify", "fp": ((("file", u), True),)})
    return out


def run_lookup_execution(sc, chooser, root, after_step=None, timeout=20.0):
    """One execution of scenario `sc` under `chooser`.  Returns dict(events, status, decisions, world-projection hooks)."""
    S = sched.Scheduler(chooser, timeout=timeout)
    w = LookupWorld(S, sc, root)
    try:
        for name in sorted(sc["threads"]):
            S.spawn(name, w.worker(name, sc["threads"][name]))
        S.environment(env_script(sc.get("env", [])), w.env_step)
        if after_step is not None:
            S.after_step = lambda s, n: after_step(w, s, n)
        status = S.run()
        S.log({"th": "sched", "ev": "end", "status": status, "blocked": list(S.blocked), "mutex": w.lock.owner or "free"})
        excs = {n: repr(S.ths[n].exc) for n in S.order if S.ths[n].exc is not None}
        return {"events": S.trace, "status": status, "decisions": S.decisions, "worker_exc": excs}
    finally:
        w.close()


NU_TRACE = 2


def lc_trace_cfg(sc):
    return ('CONSTANTS Threads = {%s} NU = %d MaxVer = 100000 MaxTick = 100000 EnvSteps = 100000 '
            'EnvKinds = {"modify", "break", "tick"} FsChecks = %s TPS = %d Warm = %s InitSt = {"ok", "broken", "absent"}\n'
            'SPECIFICATION TSpec\nCHECK_DEADLOCK FALSE\n'
            % (", ".join('"%s"' % t for t in sorted(sc["threads"])), NU_TRACE,
               "TRUE" if sc["fsc"] else "FALSE", TPS, "TRUE" if sc.get("warm") else "FALSE"))


def lc_mc_cfg(threads, nu, maxver, maxtick, envsteps, kinds, fsc, warm, initst, spec="Spec", live=True, invs=None):
    invs = invs or ["MutexDiscipline", "FirstRequestsCompileOnce", "CompleteObject", "FreshSinceCallStart", "OnlyDocumentedExceptions"]
    return ('CONSTANTS Threads = {%s} NU = %d MaxVer = %d MaxTick = %d EnvSteps = %d EnvKinds = {%s} FsChecks = %s TPS = %d Warm = %s InitSt = {%s}\n'
            % (", ".join('"%s"' % t for t in threads), nu, maxver, maxtick, envsteps, ", ".join('"%s"' % k for k in kinds),
               "TRUE" if fsc else "FALSE", TPS, "TRUE" if warm else "FALSE", ", ".join('"%s"' % s for s in initst))
            + "SPECIFICATION %s\n" % spec + "".join("INVARIANT %s\n" % i for i in invs)
            + ("PROPERTY NoThreadBlocked\n" if live else "") + "CHECK_DEADLOCK FALSE\n")


def as_trace(tid, sc, ex):
    files = list(sc["files"]) + ["absent"] * (NU_TRACE - len(sc["files"]))
    return {"id": tid, "uri": dict(sc["threads"]), "files": files, "events": ex["events"]}


# =========================================================================== V: exhaustive DFS jobs
def _dfs_job(job):
    """Runs in a forked worker process: explore one scenario, return the recorded executions."""
    sc, mode, bound, limit, root = job["sc"], job["mode"], job.get("bound"), job.get("limit"), job["root"]
    os.makedirs(root, exist_ok=True)
    out = {"name": job["name"], "execs": [], "redundant": 0, "complete": True, "bad_status": 0, "error": None}

    def one(ch):
        return run_lookup_execution(sc, ch, root, timeout=job.get("timeout", 15.0))
    try:
        gen = sched.explore_sleep(one, limit) if mode == "sleep" else sched.explore_bounded(one, bound, limit)
        for ex, red in gen:
            if red:
                out["redundant"] += 1
                continue
            out["execs"].append({"events": ex["events"], "status": ex["status"],
                                 "schedule": [d["chosen"] for d in ex["decisions"]], "worker_exc": ex["worker_exc"]})
            if ex["status"] != "ok":
                out["bad_status"] += 1
                if out["bad_status"] >= 3:      # blocked threads / hangs: a few witnesses are enough
                    out["complete"] = False
                    break
    except sched.ExplorationLimit:
        out["complete"] = False
    except MachineryError as e:
        out["error"] = str(e)
    return out


def _pool_map(fn, jobs, procs):
    import multiprocessing as mp
    if procs <= 1 or len(jobs) <= 1:
        return [fn(j) for j in jobs]
    ctx = mp.get_context("fork")
    with ctx.Pool(min(procs, len(jobs))) as pool:
        return pool.map(fn, jobs, chunksize=1)


def lookup_scenarios(thorough):
    T, M, B = "tick", ("modify", 1), ("break", 1)
    two = {"t1": 1, "t2": 1}
    S = []

    def add(name, threads, files, env, fsc=True, warm=False, mode="sleep", bound=None, limit=None, must=True, after=None):
        sc = {"threads": threads, "files": files, "fsc": fsc, "warm": warm, "env": env}
        if after:
            sc["after"] = after
        S.append({"name": name, "mode": mode, "bound": bound, "limit": limit, "must": must, "sc": sc})
    add("2t-same-first", two, ["ok"], [])
    add("2t-same-first-plain", two, ["ok"], [], mode="bounded", bound=99)       # no reduction: cross-check of the sleep sets
    add("2t-same-modify-late", two, ["ok"], [T, T, M])
    add("2t-same-modify-early", two, ["ok"], [M, T, T])
    add("2t-same-warm-stale", two, ["ok"], [T, T, M], warm=True)
    add("2t-same-warm-modify", two, ["ok"], [M], warm=True)
    add("2t-diff", {"t1": 1, "t2": 2}, ["ok", "ok"], [M])
    add("2t-diff-warm", {"t1": 1, "t2": 2}, ["ok", "ok"], [T, T, ("modify", 2)], warm=True)
    add("2t-broken", two, ["broken"], [])
    add("2t-broken-fixed", two, ["broken"], [M])
    add("2t-break", two, ["ok"], [B], warm=True)
    add("2t-break-cold", two, ["ok"], [B])          # a failing compile racing with a successful one for the same URI
    add("2t-missing", {"t1": 1, "t2": 2}, ["ok", "absent"], [])
    add("2t-nochecks", two, ["ok"], [M], fsc=False)
    add("2t-nochecks-warm", two, ["ok"], [T, T, M], fsc=False, warm=True)
    add("3t-same-first-pb2", {"t1": 1, "t2": 1, "t3": 1}, ["ok"], [], mode="bounded", bound=2)
    # a THIRD request after two racing first requests (t3 starts when t1 and t2 have returned): another URI, the same URI,
    # and a reload after a modification -- whatever the race left behind (a leaked lock) must not block it
    follow = {"t3": ["t1", "t2"]}
    add("2t-race-then-other-uri", {"t1": 1, "t2": 1, "t3": 2}, ["ok", "ok"], [], after=follow)
    add("2t-race-then-same-uri", {"t1": 1, "t2": 1, "t3": 1}, ["ok"], [], after=follow)
    add("2t-race-then-reload", {"t1": 1, "t2": 1, "t3": 1}, ["ok"], [T, T, M], after=follow)
    add("2t-stale-race-then-other-uri", {"t1": 1, "t2": 1, "t3": 2}, ["ok", "ok"], [T, T, M], warm=True, after=follow)
    add("3t-two-uris-pb%d" % (2 if thorough else 1), {"t1": 1, "t2": 1, "t3": 2}, ["ok", "ok"], [], mode="bounded", bound=2 if thorough else 1)
    if thorough:
        # beyond the quick tier: complete where the limit allows, otherwise a depth-first sample (recorded as incomplete)
        add("2t-same-modify-mid", two, ["ok"], [T, T, M, T, T], must=False)
        add("2t-same-warm-two-mods", two, ["ok"], [T, T, M, T, T, M], warm=True, must=False)
        add("2t-same-break-fix", two, ["ok"], [T, T, B, T, T, M], warm=True, must=False)
        add("2t-diff-both", {"t1": 1, "t2": 2}, ["ok", "ok"], [T, T, M, ("modify", 2)], warm=True, must=False)
        add("2t-same-modify-plain", two, ["ok"], [M], mode="bounded", bound=99, must=False)
        add("3t-same-first", {"t1": 1, "t2": 1, "t3": 1}, ["ok"], [], must=False)
        add("3t-same-warm-stale-pb2", {"t1": 1, "t2": 1, "t3": 1}, ["ok"], [T, T, M], warm=True, mode="bounded", bound=2, must=False)
        add("3t-broken-pb2", {"t1": 1, "t2": 1, "t3": 1}, ["broken"], [M], mode="bounded", bound=2, must=False)
        add("3t-two-uris-pb3", {"t1": 1, "t2": 1, "t3": 2}, ["ok", "ok"], [], mode="bounded", bound=3, must=False)
    return S


def trace_signature(ev, v):
    return "trace:%s:%s%s" % (ev.get("ev", "?") if ev else "?", v["clause"], ("@" + v["at"]) if v.get("at") else "")


def negative_controls(traces):
    """Corrupted copies of good traces that Trace_LookupConc must reject."""
    ncs = []
    for t in traces:
        evs = t["events"]
        fins = [i for i, e in enumerate(evs) if e["ev"] == "fin" and e.get("res") == "tmpl"]
        rels = [i for i, e in enumerate(evs) if e["ev"] == "release"]
        acqs = [i for i, e in enumerate(evs) if e["ev"] == "acquire"]
        if not fins or not rels or not acqs or evs[-1].get("ev") != "end" or evs[-1].get("status") != "ok":
            continue
        a = copy.deepcopy(t)
        a["id"] = 10 ** 6 + 1
        a["events"][fins[-1]]["ver"] += 1                      # a returned version nobody compiled
        a["nc"] = "fin-ver"
        b = copy.deepcopy(t)
        b["id"] = 10 ** 6 + 2
        del b["events"][rels[0]]                               # a release that did not happen
        b["nc"] = "missing-release"
        c = copy.deepcopy(t)
        c["id"] = 10 ** 6 + 3
        c["events"][-1]["status"] = "blocked"                  # a thread left blocked
        c["events"][-1]["blocked"] = ["t2"]
        c["nc"] = "blocked"
        d = copy.deepcopy(t)
        d["id"] = 10 ** 6 + 4
        acq = [i for i, e in enumerate(d["events"]) if e["ev"] == "acquire"]
        d["events"][acq[0]]["got"] = False                     # entered the critical section without the mutex
        d["nc"] = "acquire-not-got"
        e = copy.deepcopy(t)
        e["id"] = 10 ** 6 + 5
        e["events"][-1]["mutex"] = "t1"                        # the lock left held when everybody has returned
        e["nc"] = "mutex-held-at-end"
        ncs += [a, b, c, d, e]
        break
    return ncs


# =========================================================================== R: replay of TLC behaviours
LABEL_OP = {"Start": "start", "ReadColl": "readcoll", "Stat": "stat", "PopStale": "pop", "Probe": "probe",
            "Acquire": "acquire", "Second": "second", "ReadSrc": "readsrc", "Stamp": "stamp", "Store": "store",
            "PopFail": "pop", "Release": "release", "RelHit": "release"}


def _seq(v):
    """TLC prints a function with domain 1..n as a sequence, or as (1 :> a @@ 2 :> b)."""
    if isinstance(v, dict):
        return [v[k] for k in sorted(v)]
    return v


def behaviour_plan(states, fsc):
    """states: list of state dicts of a LookupConc behaviour.  Returns (scenario, plan, truncated):
    plan = [(proc, expected real label, index of the spec state after the step)]."""
    s0 = states[0]
    threads = {t: u for t, u in s0["uri"].items()}
    files = [f["st"] for f in _seq(s0["file"])]
    warm = any(c["kind"] != "none" for c in _seq(s0["coll"]))
    env, plan, truncated = [], [], None
    for k in range(1, len(states)):
        a, b = states[k - 1], states[k]
        if b["envleft"] < a["envleft"]:
            if b["now"] != a["now"]:
                env.append("tick")
            else:
                fa, fb = _seq(a["file"]), _seq(b["file"])
                u = [i for i in range(len(fa)) if fa[i] != fb[i]][0] + 1
                env.append(("modify" if fb[u - 1]["st"] == "ok" else "break", u))
            plan.append(("env", "env_tick" if b["now"] != a["now"] else "env_modify", k))
            continue
        moved = [t for t in threads if a["pc"][t] != b["pc"][t]]
        if not moved:
            continue                       # env: E -> Done, or stuttering
        t = moved[0]
        lab = a["pc"][t]
        if lab == "Fin":
            continue                       # local step
        if lab == "Second" and b["pc"][t] == "RelHit" and fsc:
            truncated = k                  # the intended protocol re-checks; the code does not (finding #19): stop here
            break
        plan.append((t, LABEL_OP[lab], k))
    sc = {"threads": threads, "files": files, "fsc": fsc, "warm": warm, "env": env}
    return sc, plan, truncated


class _PlanChooser:
    def __init__(self, plan, finish=False):
        self.plan = plan
        self.finish = finish
        self.mismatch = None

    def choose(self, step, en, sch):
        if step >= len(self.plan):
            if self.finish:
                return ([n for n, _ in en if n != "env"] or ["env"])[0]
            raise sched.StopExecution()
        want, label, _ = self.plan[step]
        got = dict((n, o["label"]) for n, o in en)
        if got.get(want) != label:
            self.mismatch = {"step": step, "clause": "thread-not-at-label", "thread": want, "expected_label": label,
                             "pending": got}
            raise sched.StopExecution()
        return want


def replay_behaviour(states, fsc, root):
    """Replay one LookupConc behaviour on real threads.  Returns (None | mismatch dict, steps replayed, scenario, truncated)."""
    sc, plan, truncated = behaviour_plan(states, fsc)
    ch = _PlanChooser(plan)
    mm = []
    pos = [0]

    def after(w, S, name):
        if mm:
            return
        i = pos[0]
        pos[0] += 1
        st = states[plan[i][2]]
        obs = w.project()
        coll = {}
        for u, c in enumerate(_seq(st["coll"]), 1):
            if c["kind"] != "none":
                coll[u] = {"obj": c["obj"], "ver": c["ver"]}
        built = {u: b for u, b in enumerate(_seq(st["built"]), 1) if b}
        exp = {"coll": coll, "mutex": st["mutex"], "built": built, "now": st["now"]}
        obs["built"] = {u: b for u, b in obs["built"].items() if b}
        if exp != obs:
            clause = [k for k in exp if exp[k] != obs[k]][0]
            mm.append({"step": i, "clause": clause, "after": plan[i][:2], "expected": exp, "observed": obs})
            return
        if name != "env" and S.ths[name].done:
            fin = [e for e in S.trace if e.get("ev") == "fin" and e["th"] == name]
            r = st["res"][name]
            e = fin[-1] if fin else {"res": "none"}
            expf = {"res": "tmpl" if r["kind"] == "file" else r["kind"], "obj": r.get("obj", 0), "ver": r.get("ver", 0)}
            obsf = {k: e.get(k) for k in expf}
            if expf != obsf:
                mm.append({"step": i, "clause": "result", "thread": name, "expected": expf, "observed": obsf})
    ex = run_lookup_execution(sc, ch, root, after_step=after, timeout=15.0)
    if ch.mismatch:
        return ch.mismatch, pos[0], sc, truncated, ex
    if mm:
        return mm[0], pos[0], sc, truncated, ex
    if ex["status"] not in ("ok", "abandoned"):
        return {"step": pos[0], "clause": "status:" + ex["status"]}, pos[0], sc, truncated, ex
    return None, pos[0], sc, truncated, ex


def replay_behaviour_dev(states, root):
    """Replay a SpecDev counterexample (the Dev step Second -> Release is the code's own way: real op
    "second"), then let every thread run to its end and compare the results with the counterexample's."""
    sc, plan, _ = behaviour_plan(states, True)
    ch = _PlanChooser(plan, finish=True)
    ex = run_lookup_execution(sc, ch, root, timeout=15.0)
    if ch.mismatch:
        return ch.mismatch, len(plan), sc, None, ex
    last = states[-1]
    for t in sc["threads"]:
        r = last["res"][t]
        if r["kind"] == "pending":
            continue
        fin = [e for e in ex["events"] if e.get("ev") == "fin" and e["th"] == t]
        e = fin[-1] if fin else {"res": "none"}
        expf = {"res": "tmpl" if r["kind"] == "file" else r["kind"], "obj": r.get("obj", 0), "ver": r.get("ver", 0)}
        obsf = {k: e.get(k) for k in expf}
        if expf != obsf:
            return {"clause": "result", "thread": t, "expected": expf, "observed": obsf}, len(plan), sc, None, ex
    return None, len(plan), sc, None, ex


def check_lookup_r(run, thorough, tw):
    sims = [  # name, nu, envsteps, fsc, warm, initst, num
        ("sim-cold", 2, 3, True, False, ["ok", "broken", "absent"], 40),
        ("sim-warm", 2, 4, True, True, ["ok", "broken"], 40),
        ("sim-nochecks", 1, 3, False, True, ["ok"], 25),
    ]
    if thorough:
        sims = [(n, nu, es + 1, f, w, i, num * 10) for (n, nu, es, f, w, i, num) in sims]
    root = run.subdir("r-sim")
    stats = {"behaviours": 0, "steps": 0, "truncated_at_second_chance_hit": 0}
    for (name, nu, es, fsc, warm, ist, num) in sims:
        cfg = lc_mc_cfg(["t1", "t2"], nu, 100, 100, es, ["modify", "break", "tick"], fsc, warm, ist, live=False)
        simdir = run.subdir("simtr-" + name)
        run.tlc("LookupConc", cfg, name=name, workers=1, simulate="file=%s/tr,num=%d" % (simdir, num), depth=80, timeout=600, count=False)
        files = sorted(os.listdir(simdir))
        if len(files) < num:
            raise MachineryError("simulate produced %d of %d behaviours (%s)" % (len(files), num, name))
        for fn in files:
            steps = core.parse_simulate_file(os.path.join(simdir, fn))
            states = [st for _, st in steps]
            mm, n, sc, trunc, ex = replay_behaviour(states, fsc, root)
            stats["behaviours"] += 1
            stats["steps"] += n
            run.transitions += n
            if trunc is not None:
                stats["truncated_at_second_chance_hit"] += 1
            if mm:
                run.violation("replay:%s:%s" % (mm.get("expected_label") or (mm.get("after") or ["", "?"])[1], mm["clause"]),
                              "real threads do not follow the LookupConc behaviour at step %s (%s): %s" % (mm.get("step"), mm["clause"], mm),
                              {"config": sc, "mismatch": mm, "events": ex["events"]})
                break
        if stats["behaviours"] <= num and files:
            run.sample({"direction": "R", "config": name, "scenario": sc, "replayed_steps": n})
    if stats["steps"] < 10 * stats["behaviours"] and not run.violations:
        raise MachineryError("replay vacuous: %s" % stats)
    run.traces += stats["behaviours"]
    run.extra["lookup_replay"] = stats


# =========================================================================== the check
def _job(job):
    import time
    t0 = time.time()
    try:
        if job["type"] == "dfs":
            o = _dfs_job(job)
        else:
            from . import c16_render
            o = c16_render._render_job(job)
    except Exception as e:  # noqa -- whatever the code under test did to the harness is reported, not raised
        import traceback
        o = {"name": job["name"], "execs": [], "redundant": 0, "complete": False, "bad_status": 0, "solo": None,
             "error": "harness exception in job: %s: %s\n%s" % (type(e).__name__, e, traceback.format_exc()[-1500:])}
    o["wall"] = round(time.time() - t0, 1)
    return o


def _dbg(run, what):
    import sys
    import time
    if os.environ.get("VERIF_DEBUG"):
        sys.stderr.write("[%6.1fs] %s\n" % (time.time() - run.t0, what))


def check(run):
    import multiprocessing as mp
    from concurrent.futures import ThreadPoolExecutor
    from . import c16_render
    if getattr(run, "replay_path", None):
        return replay_file(run)
    thorough = run.thorough
    procs = int(os.environ.get("VERIF_PROCS", "10"))
    tw = int(os.environ.get("VERIF_TLC_WORKERS", "4"))
    par = int(os.environ.get("VERIF_TLC_PAR", "4"))
    complaints = []
    scs = lookup_scenarios(thorough)
    ljobs = [dict(s, type="dfs", root=run.subdir("w-" + s["name"]), limit=(12000 if thorough else 8000)) for s in scs]
    rjobs = [dict(j, type="render") for j in c16_render.render_jobs(run, thorough)]
    jobs = sorted(ljobs, key=lambda j: 0 if j["name"].startswith("3t") else 1) + rjobs
    pool = mp.get_context("fork").Pool(min(procs, len(jobs)))        # forked before any helper thread exists
    deadline = core.tscale(3000 if thorough else 280)
    finishers = []
    try:
        pending = {j["name"]: pool.apply_async(_job, (j,)) for j in jobs}
        with ThreadPoolExecutor(par) as tp:
            try:
                mc = submit_mc(run, thorough, tw, tp)
                louts = [pending[s["name"]].get(timeout=deadline) for s in scs]
                _dbg(run, "lookup schedules explored")
                finishers.append(check_lookup_v(run, scs, louts, tw, tp, complaints))
                check_lookup_dev(run, tw)
                check_lookup_r(run, thorough, tw)
                _dbg(run, "replay done")
                routs = [pending[j["name"]].get(timeout=deadline) for j in rjobs]
                run.extra["job_wall_s"] = {n: o.get("wall") for n, o in [(s["name"], o) for s, o in zip(scs, louts)]
                                           + [(j["name"], o) for j, o in zip(rjobs, routs)]}
                _dbg(run, "render schedules explored " + str(run.extra["job_wall_s"]))
                finishers.append(c16_render.judge_renders(run, rjobs, routs, tw, tp))
                while finishers:
                    finishers.pop(0)()
                _dbg(run, "traces validated")
                collect_mc(run, mc)
                _dbg(run, "model checking collected")
            except mp.TimeoutError:
                raise
            except Exception as e:  # noqa
                # mutated code can break the machinery's expectations (vacuity, solo renders, shapes of traces ...) although
                # a rejected trace already convicts it: harvest the pending verdicts; a violation, if any, is the verdict;
                # without one this is a machinery failure (exit 2), never a verdict
                import traceback
                tb = traceback.format_exc()
                for f in finishers:
                    try:
                        f()
                    except Exception:  # noqa
                        pass
                if not run.violations:
                    if isinstance(e, MachineryError):
                        raise
                    raise MachineryError("harness exception %s: %s\n%s" % (type(e).__name__, e, tb[-2500:]))
                run.extra["machinery_complaint_after_violation"] = ("%s: %s" % (type(e).__name__, e))[:300]
    except mp.TimeoutError:
        raise MachineryError("schedule exploration did not finish in time")
    finally:
        pool.terminate()
    if complaints and not run.violations:
        raise MachineryError("; ".join(complaints[:3]))
    run.assumptions += [
        "threads are real threading.Thread objects run one at a time by harness/sched.py; scheduling points are the interposed "
        "TemplateLookup._collection / _mutex, mako.lookup.os (stat, path.isfile), mako.util.read_file, mako.codegen.time and, for "
        "renders, every executed line of mako/{runtime,lookup,util,template,cache}.py (all mako/*.py in the all-lines scenarios) "
        "and of the template modules (sys.settrace) plus the lookup mutex",
        "time is simulated for the lookup protocol (mako.codegen.time), mtimes set with os.utime; one template directory; "
        "collection_size=-1 for the lookup protocol, collection_size 1-2 (LRU) for the render part; cache backend: a dict "
        "without locking (the cached body may run more than once; its content does not depend on the context)",
        "file deletion during a call is not generated (the property's operations are modification and failing compile)",
        "sleep-set reduction relies on the declared footprints of the interposed operations (cross-checked by an unreduced DFS "
        "of the two-thread first-request scenario)",
    ]
    return {"rule": "TLC exhaustive on LookupConc/RenderShared instances (safety + liveness under weak fairness, no state "
                    "constraint); every interleaving of 2 real threads at the interposed points (sleep-set DFS; 3 threads: "
                    "preemption bound 2) validated by Trace_LookupConc with the invariants evaluated in every state; TLC -simulate "
                    "behaviours and the SpecDev counterexample replayed as schedules; line-level schedules (preemption bound 2 on a "
                    "small page, seeded random/PCT beyond) of concurrent renders validated by Trace_RenderShared. A case is one "
                    "schedule (execution).",
            "exhaustive": False}


LC_ACTIONS = ("E", "Start", "ReadColl", "Stat", "PopStale", "Probe", "Acquire", "Second", "ReadSrc", "Stamp", "Store",
              "PopFail", "Release", "RelHit", "Fin")
RS_ACTIONS = ("Begin", "Private", "Check", "StoreBegin", "Trim", "StoreEnd", "End")


def submit_mc(run, thorough, tw, tp):
    from . import c16_render
    all_kinds = ["modify", "break", "tick"]
    t2, t3 = ["t1", "t2"], ["t1", "t2", "t3"]
    mcs = [  # name, threads, nu, maxver, maxtick, envsteps, kinds, fsc, warm, initst
        ("lc-2t-same-env3", t2, 1, 3, 4, 3 if not thorough else 5, all_kinds, True, False, ["ok", "broken", "absent"]),
        ("lc-2t-two-uris", t2, 2, 3, 4, 1 if not thorough else 3, all_kinds, True, False, ["ok"] if not thorough else ["ok", "broken"]),
        ("lc-2t-warm", t2, 1, 3, 4, 3 if not thorough else 5, all_kinds, True, True, ["ok"]),
        ("lc-3t-same", t3, 1, 2, 2, 0 if not thorough else 2, all_kinds, True, False, ["ok"]),
        ("lc-3t-warm", t3, 1, 2, 3, 2 if not thorough else 3, ["modify", "tick"], True, True, ["ok"]),
        ("lc-2t-nochecks", t2, 1, 2, 2, 2, all_kinds, False, True, ["ok", "broken"]),
    ]
    futs = []
    for m in mcs:
        name, th, nu, mv, mt, es, kinds, fsc, warm, ist = m
        futs.append(("lc", name, None, tp.submit(run.tlc, "LookupConc", lc_mc_cfg(th, nu, mv, mt, es, kinds, fsc, warm, ist),
                                                 name=name, workers=tw, coverage=True, timeout=1500)))
    for name, cfg, expect in c16_render.render_mc(run, thorough, tw):
        futs.append(("rs", name, expect, tp.submit(run.tlc, "MC_RenderShared", cfg, name=name, workers=tw,
                                                   coverage=expect is None, timeout=1500)))
    return futs


def collect_mc(run, futs):
    acts = {"lc": {}, "rs": {}}
    for kind, name, expect, f in futs:
        res = f.result()
        if expect is not None:
            # control: the broken design variant must be refuted by TLC
            run.negative_control(res.violated == [expect], "TLC did not refute the broken design variant %s (%s)" % (name, res.violated))
            continue
        if res.violated:
            run.spec_violation(res, "TLC: %s violated in the design model (%s)" % (res.violated, name))
        for a, (d, g) in res.coverage.items():
            acts[kind][a] = acts[kind].get(a, 0) + g
    for kind, need in (("lc", LC_ACTIONS), ("rs", RS_ACTIONS)):
        for a in need:
            if not acts[kind].get(a):
                raise MachineryError("vacuous model checking: action %s never taken (%s)" % (a, acts[kind]))
    run.extra["lookupconc_action_coverage"] = {a: acts["lc"][a] for a in LC_ACTIONS}
    run.extra["rendershared_action_coverage"] = {a: acts["rs"][a] for a in RS_ACTIONS}


def check_lookup_dev(run, tw):
    """The code as written (second-chance hit returned unchecked): TLC's counterexample to FreshSinceCallStart under
    SpecDev is finding #19; it is confirmed on real threads before it is reported."""
    res = run.tlc("LookupConc", lc_mc_cfg(["t1", "t2"], 1, 2, 2, 3, ["modify", "tick"], True, False, ["ok"], spec="SpecDev", live=False),
                  name="lc-dev-second-chance", workers=tw, timeout=600)
    if res.violated != ["FreshSinceCallStart"]:
        raise MachineryError("the code-shaped variant (SpecDev) should violate exactly FreshSinceCallStart, got %s" % res.violated)
    ce = [st for _, st in res.counterexample()]
    mm, n, sc, trunc, ex = replay_behaviour_dev(ce, run.subdir("r-dev"))
    fins = {e["th"]: e for e in ex["events"] if e["ev"] == "fin"}
    run.traces += 1
    if mm is None:
        run.violation(KNOWN_SIG_19,
                      "a call that started after the file was modified (mtime a whole second past the compile moment) gets the stale "
                      "object from _load's second-chance read without _check",
                      {"source": "TLC counterexample to FreshSinceCallStart under SpecDev, reproduced on real threads",
                       "config": sc, "schedule": [d["chosen"] for d in ex["decisions"]], "events": ex["events"], "results": fins})
    else:
        run.extra["dev_counterexample_not_reproduced"] = mm


def check_lookup_v(run, scs, outs, tw, tp, complaints):
    groups = {}
    tid = 0
    for s, o in zip(scs, outs):
        sc = s["sc"]
        if o["error"]:
            complaints.append("scheduler: %s (%s)" % (o["error"], s["name"]))
        if not o["execs"]:
            complaints.append("no execution recorded for scenario %s" % s["name"])
            continue
        key = (tuple(sorted(sc["threads"])), sc["fsc"], bool(sc.get("warm")))
        g = groups.setdefault(key, {"sc": sc, "traces": []})
        for ex in o["execs"]:
            tid += 1
            t = as_trace(tid, sc, ex)
            t["schedule"], t["scenario"], t["config"] = ex["schedule"], s["name"], sc
            g["traces"].append(t)
        if not o["complete"] and s.get("must", True) and not any(ex["status"] != "ok" for ex in o["execs"]):
            complaints.append("exploration limit reached in scenario %s" % s["name"])
    glist = list(groups.values())
    ncs = []
    for g in glist:
        ncs = negative_controls([t for t in g["traces"] if len(t["uri"]) == 2])
        if ncs:
            g["ncs"] = ncs
            break

    def validate(g):
        i = glist.index(g)
        return run.validate_traces("Trace_LookupConc", lc_trace_cfg(g["sc"]), g["traces"] + g.get("ncs", []), name="v-lookup-g%d" % i,
                                   workers=tw, timeout=900)
    futs = [tp.submit(validate, g) for g in glist]

    def finish():
        _finish_lookup_v(run, scs, outs, glist, [f.result() for f in futs], complaints)
    return finish


def _finish_lookup_v(run, scs, outs, glist, results, complaints):
    per = {}
    nc_ok = False
    for g, verdicts in zip(glist, results):
        for nc in g.get("ncs", []):
            run.traces -= 1
            if verdicts[nc["id"]]["ok"]:
                # on mutated code the "good" trace the control was derived from may itself be bad; only an
                # otherwise clean run makes an accepted control a machinery failure
                complaints.append("negative control accepted: %s" % nc["nc"])
            else:
                run.negative_control(True, nc["nc"])
                nc_ok = True
        for t in g["traces"]:
            v = verdicts[t["id"]]
            run.transitions += len(t["events"])
            p = per.setdefault(t["scenario"], {"executions": 0, "needing_Dev_SecondChanceUnchecked": 0, "stale_via_deviation": 0, "rejected": 0})
            p["executions"] += 1
            if not v["ok"]:
                p["rejected"] += 1
                i = v["i"]
                e = t["events"][i - 1] if i else None
                run.violation(trace_signature(e, v),
                              "execution of real threads not explained by LookupConc at event %d (%s, thread at %s): %s"
                              % (i, v["clause"], v.get("at"), e),
                              {"scenario": t["scenario"], "config": t["config"], "schedule": t["schedule"], "events": t["events"][:i + 2], "verdict": v})
                continue
            if v["devs"]:
                p["needing_Dev_SecondChanceUnchecked"] += 1
            if "FreshSinceCallStart" in v["findings"]:
                p["stale_via_deviation"] += 1
                run.violation(KNOWN_SIG_19,
                              "a second-chance hit in _load is returned without _check: the call started after the modification and "
                              "got content older than the file at its start",
                              {"scenario": t["scenario"], "config": t["config"], "schedule": t["schedule"], "events": t["events"]})
    if not nc_ok:
        complaints.append("no negative control rejected for Trace_LookupConc")
    for s, o in zip(scs, outs):
        if s["name"] in per:
            per[s["name"]].update({"abandoned_redundant": o["redundant"], "complete": o["complete"],
                                   "mode": s["mode"] + ("" if s["bound"] is None else ":%d" % s["bound"])})
    run.extra["lookup_schedules"] = per
    if outs and outs[0]["execs"]:
        first = outs[0]["execs"][-1]
        run.sample({"direction": "V", "scenario": scs[0]["name"], "schedule": first["schedule"], "events": first["events"][:14]})


def replay_file(run):
    """bin/check C16 --replay <file>: re-run the recorded schedule on real threads and judge it again."""
    import json
    from . import c16_render
    with open(run.replay_path) as f:
        body = json.load(f)
    rp = body.get("replay", body)
    sc, schedule = rp.get("config"), rp.get("schedule")
    if not sc or schedule is None:
        raise MachineryError("replay file has no config/schedule")
    if "cap" in sc:                                   # a render schedule
        names = [n for n, k in schedule for _ in range(k)]
        root = run.subdir("replay")
        c16_render._cache_plugin()
        c16_render.write_files(root, rp["templates"])
        sc["threads"] = {n: tuple(v) for n, v in sc["threads"].items()}
        solo = c16_render.solo_outputs(sc, root)
        ex = c16_render.run_render_execution(sc, sched.Replay(names), root)
        tr = {"id": 1, "page": {n: p for n, (p, c) in sc["threads"].items()}, "ctx": {n: c for n, (p, c) in sc["threads"].items()},
              "solo": solo, "progs": rp["progs"], "events": ex["events"]}
        v = run.validate_traces("Trace_RenderShared", c16_render.render_trace_cfg(sc, rp["progs"]), [tr], name="replay", workers=1)[1]
        if not v["ok"]:
            e = ex["events"][v["i"] - 1]
            sig = ("render:exception:" + e["exc"]) if e.get("exc") else "render:%s:%s" % (e.get("ev"), v["clause"])
            run.violation(sig, "replayed schedule rejected: %s at %s" % (v, e), rp)
    else:
        sc["threads"] = {n: int(u) for n, u in sc["threads"].items()}
        sc["env"] = [tuple(x) if isinstance(x, list) else x for x in sc.get("env", [])]
        ex = run_lookup_execution(sc, sched.Replay(schedule), run.subdir("replay"))
        v = run.validate_traces("Trace_LookupConc", lc_trace_cfg(sc), [as_trace(1, sc, ex)], name="replay", workers=1)[1]
        if not v["ok"]:
            e = ex["events"][v["i"] - 1]
            run.violation(trace_signature(e, v), "replayed schedule rejected: %s" % v, dict(rp, events=ex["events"]))
        elif "FreshSinceCallStart" in v["findings"]:
            run.violation(KNOWN_SIG_19, "replayed schedule: second-chance hit returned stale content", dict(rp, events=ex["events"]))
    return {"rule": "replay of one recorded schedule", "exhaustive": False}
