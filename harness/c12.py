"""C12 -- runtime traceback frames and compile/module-level warnings map to template lines.

Specifications: spec/Lines.tla (layout calculus, runtime instance: which line each template-owned
frame must show), spec/LineMap.tla (PythonPrinter lineno/source_map accounting + full_line_map),
spec/Warn.tla (flow of a warning through the filter and Mako's display hook), spec/LinesCat.tla.

 1. Catalog: the well-formed surroundings of C11 plus entries carrying one planted raise (1/(0*k)),
    "hop" entries that pass control to another template (include / namespace call / next.body()) and
    entries carrying a warning-triggering literal or a module-level warnings.warn.  Geometry and the
    code generator's visit sequence of every entry are measured (the latter from its parse tree).
 2. TLC: MC_Lines enumerates layouts x planted entry and exports, per case, the lines the frames /
    the warning must show; MC_LineMap runs the printer accounting over the same layouts and checks
    EveryEmittedLineMapsHome (intended design) - and, with BlockCallStartsSource = FALSE (the code as
    it stands), yields the counterexample of finding #7, which is then confirmed on the real code;
    Warn.tla is checked for ShownExactlyOnce and exports the expected display per site x action.
 3. R: every case is rendered by the real mako (plain string; lookup strings; files; lookup
    directories; module directory; chains of 2-3 templates through include / namespace / inherit);
    RichTraceback records, text/html error templates and format_exceptions output are compared with
    the exported frame lines.  V (state based): the module line holding the planted token is looked
    up in the real module's full_line_map and compared with the exported home line.
    Warnings: shown (filename, line) pairs recorded through warnings.showwarning under always /
    once / error on the four paths are compared with Warn.tla's expectation at the exported line.
"""
import hashlib
import os
import re
import shutil
import signal
import warnings

from . import c11
from . import core
from . import lines_common as lc
from .core import MachineryError

FR = ["«1»", "«2»", "«3»"]
PYMOD = "mv_c12_pymod"
# how paths are spelled: construction | template filename / lookup directory | module_directory
SPELLINGS = ["direct|abs|abs/", "direct|abs|rel", "direct|rel|rel", "direct|rel|./rel", "direct|rel|dotdot", "direct|rel|none",
             "lookup|abs|rel", "lookup|rel|rel/", "lookup|rel|none", "lookup|rel|dotdot", "lookup|abs|dotdot"]
SUSPICIOUS = [("ff", "\x0c"), ("vt", "\x0b"), ("nel", "\x85"), ("ls", "\u2028"), ("ps", "\u2029"), ("fs", "\x1c"),
              ("lone-cr", "\r"), ("nbsp", "\xa0"), ("non-bmp", "\U0001f600")]


def _strip(s):
    for m in FR:
        s = s.replace(m, "")
    return lc.strip_markers(s)


def _events(text):
    """The code generator's visits for one entry, in emission order, from the entry's parse tree."""
    from mako.lexer import Lexer
    from mako import parsetree as pt
    with warnings.catch_warnings():
        warnings.simplefilter("ignore")
        tree = Lexer(text.replace("@", "1")).parse()
    fnc = [0]
    out = []
    deferred = []
    loop_ends = set()
    try:
        from mako.codegen import LoopVariable
    except ImportError:       # a refactored tree: fall back to a textual test
        LoopVariable = None

    def uses_loop(n):
        if LoopVariable is None:
            return bool(re.search(r"\bloop\b", "".join(getattr(c, "text", "") or getattr(c, "content", "") for c in n.nodes)))
        lv = LoopVariable()
        n.accept_visitor(lv)
        return lv.detected

    def walk(nodes, fn, sink):
        for n in nodes:
            off = n.lineno - 1
            if isinstance(n, pt.Text):
                sink.append({"k": "text", "off": off, "n": 0, "fn": fn})
            elif isinstance(n, pt.Expression):
                sink.append({"k": "expr", "off": off, "n": 0, "fn": fn})
            elif isinstance(n, pt.ControlLine):
                if not n.isend and n.keyword == "for" and uses_loop(n):
                    loop_ends.add(id(n.nodes[-1]))
                    sink.append({"k": "ctlloop", "off": off, "n": 0, "fn": fn})
                elif n.isend and id(n) in loop_ends:
                    sink.append({"k": "ctlendloop", "off": off, "n": 0, "fn": fn})
                else:
                    sink.append({"k": "ctlend" if n.isend else "ctl", "off": off, "n": 0, "fn": fn})
            elif isinstance(n, pt.Code):
                if not n.ismodule:
                    sink.append({"k": "code", "off": off, "n": len(re.split(r"\r?\n", n.text)), "fn": fn})
                else:       # module-level code: written before every function, one block at a time
                    sink.append({"k": "modcode", "off": off, "n": len(re.split(r"\r?\n", n.text)), "fn": 0})
            elif isinstance(n, pt.IncludeTag):
                sink.append({"k": "include", "off": off, "n": 0, "fn": fn})
            elif isinstance(n, pt.BlockTag):
                sink.append({"k": "anoncall" if n.is_anonymous else "blockcall", "off": off, "n": 0, "fn": fn})
                deferred.append(n)
            elif isinstance(n, pt.DefTag):
                deferred.append(n)
            elif isinstance(n, (pt.CallTag, pt.CallNamespaceTag)):
                sink.append({"k": "callopen", "off": off, "n": 0, "fn": fn})
                walk(n.nodes, fn, sink)
                sink.append({"k": "callclose", "off": off, "n": 0, "fn": fn})
            elif isinstance(n, pt.TextTag):
                walk(n.nodes, fn, sink)

    walk(tree.nodes, 0, out)
    while deferred:
        d = deferred.pop(0)
        fnc[0] += 1
        f = fnc[0]
        out.append({"k": "fn", "off": d.lineno - 1, "n": 0, "fn": f})
        walk(d.nodes, f, out)
        out.append({"k": "fnend", "off": d.lineno - 1, "n": 0, "fn": f})
    return out


def _rt(eid, text, group, exact=False, ls=False, site="rt", **kw):
    """An entry with a planted raise / hop / warning.  Frame markers «1» «2» .. (outermost first)
    stand on the lines the frames must show; F marks the innermost (the planted line)."""
    offs = []
    for m in FR:
        if m in text:
            offs.append(_strip(text[:text.index(m)]).count("\n"))
    clean_f = text
    for m in FR:
        clean_f = clean_f.replace(m, "")
    e = c11._entry(eid, clean_f, group, cls="rt", site=site, ls=ls)
    if lc.MF in text:
        offs.append(e["f"]["foff"] if exact else e["f"]["noff"])
    e["f"]["exact"] = bool(exact)
    e["f"]["fr"] = [{"off": o} for o in offs]
    e.update(kw)
    return e


def build_catalog(rng):
    E, cos = c11.build_catalog(rng)
    E = [e for e in E if e["group"] in ("good", "tail")]
    I, B, P = cos["I"], cos["B"], cos["P"]
    N, F = lc.MN, lc.MF
    Z = "1/(0*@)"            # the planted raise; '@' = position of the entry, so the token is unique
    # ---- planted raises inside one template
    E.append(_rt("rt.expr", "${%s%s}" % (F, Z), "raise"))
    E.append(_rt("rt.exprml", "${ (1 +\n %s%s) }" % (F, Z), "raise"))
    E.append(_rt("rt.ctl.if", "%s%% if %s%s:\nx\n%s%% endif\n" % (I, F, Z, I), "raise", ls=True))
    E.append(_rt("rt.ctl.for", "%% for x in [%s%s]:\nx\n%% endfor\n" % (F, Z), "raise", ls=True))
    # control-line expressions: iterable of a % for with and without `loop` in the body, while / with / except
    E.append(_rt("rt.ctl.for-loop", "%s%% for x in [%s%s]:\n${loop.index}\n%s%% endfor\n" % (I, F, Z, I), "raise", ls=True))
    E.append(_rt("rt.ctl.for-loop-nested-use", "%% for x in [%s%s]:\n%% if loop.first:\ny\n%% endif\n%% endfor\n" % (F, Z), "raise", ls=True))
    E.append(_rt("rt.ctl.for-loop-cont", "%% for x in [1, \\\n    %s%s]:\n${loop.index}\n%% endfor\n" % (F, Z), "raise", ls=True))
    E.append(_rt("rt.ctl.for-loop-in-def", '<%%def name="h@()">\n%s%% for x in [%s%s]:\n${loop.index}\n%% endfor\n</%%def>«1»${h@()}' % (N, F, Z), "raise", stubs=["h@"]))
    E.append(_rt("rt.ctl.while", "%s%% while %s%s:\nx\n%s%% endwhile\n" % (I, F, Z, I), "raise", ls=True))
    E.append(_rt("rt.ctl.with", "%% with %s%s as z:\nx\n%% endwith\n" % (F, Z), "raise", ls=True))
    E.append(_rt("rt.ctl.except", "%% try:\n${[][1]}\n%s%s%% except (%s%s,):\ny\n%% endtry\n" % (N, I, F, Z), "raise", ls=True))
    E.append(_rt("rt.ctlcont", "%% if v and \\\n    %s%s:\nx\n%% endif\n" % (F, Z), "raise", ls=True))
    E.append(_rt("rt.elif", "%% if not v:\nx\n%s%s%% elif %s%s:\ny\n%% endif\n" % (N, I, F, Z), "raise", ls=True))
    E.append(_rt("rt.block", "<%\n" + "\n" * B + "   a = 1\n" * P + "   z = " + F + Z + "\n   b = 2\n%>", "raise", exact=True))
    E.append(_rt("rt.block1", "<%% z = %s%s %%>" % (F, Z), "raise", exact=True))
    E.append(_rt("rt.calltag", '<%%call expr="str(%s%s)">c</%%call>' % (F, Z), "raise"))
    E.append(_rt("rt.calltagml", '<%%call expr="str(1,\n  %s%s)">c\n</%%call>' % (F, Z), "raise"))
    E.append(_rt("rt.callbody", '<%call expr="str(1)">\n c\n</%call>\n' + N + "${%s%s}" % (F, Z), "raise"))
    E.append(_rt("rt.defcall", '<%def name="f@()">\n  q ' + N + "${" + F + Z + "}\n</%def>\nz\n«1»${f@()}", "raise", stubs=["f@"]))
    E.append(_rt("rt.defblock", '<%def name="g@()">\n<%\n  y = 1\n  ' + F + "z = " + Z + "\n%>\n</%def>«1»${g@()}", "raise", exact=True, stubs=["g@"]))
    E.append(_rt("rt.namedblock", '«1»<%block name="b@">\n y ' + N + "${" + F + Z + "}\n</%block>", "raise"))
    E.append(_rt("rt.namedblock-after-text", "x\n" + I + '«1»<%block name="b@">\n\n y ' + N + "${" + F + Z + "}\n</%block>\n", "raise"))
    E.append(_rt("rt.anonblock", "«1»<%block>\n y " + N + "${" + F + Z + "}\n</%block>", "raise"))
    # ---- hops: the frame of this template shows the line of the construct that leaves it
    E.append(_rt("hop.include", N + F + '<%include file="NEXT"/>', "hop", hop="include"))
    E.append(_rt("hop.include-ml", "x " + N + F + '<%include\n   file="NEXT"/>\n', "hop", hop="include"))
    E.append(_rt("hop.nsbody", '<%namespace name="n@" file="NEXT"/>\n' + N + F + "${n@.body()}", "hop", hop="ns"))
    E.append(_rt("hop.nextbody", "hdr\n" + N + I + F + "${next.body()}\nftr\n", "hop", hop="inherit"))
    # ---- warnings
    W = "'\\d'"
    E.append(_rt("w.expr", "${ %s%s }" % (F, W), "warn", site="literal"))
    E.append(_rt("w.exprml", "${ (1,\n %s%s) }" % (F, W), "warn", site="literal"))
    E.append(_rt("w.ctl", "%s%% if %s%s:\nx\n%% endif\n" % (I, F, W), "warn", site="literal", ls=True))
    E.append(_rt("w.ctl.for", "%% for x in [%s%s]:\nx\n%% endfor\n" % (F, W), "warn", site="literal", ls=True))
    E.append(_rt("w.ctl.for-loop", "%s%% for x in [%s%s]:\n${loop.index}\n%% endfor\n" % (I, F, W), "warn", site="literal", ls=True))
    E.append(_rt("w.ctl.while", "%% while %s%s and False:\nx\n%% endwhile\n" % (F, W), "warn", site="literal", ls=True))
    E.append(_rt("w.ctl.elif", "%% if v:\nx\n%s%% elif %s%s:\ny\n%% endif\n" % (N, F, W), "warn", site="literal", ls=True))
    E.append(_rt("w.block", "<%\n" + "\n" * B + "   a = 1\n" * P + "   y = " + F + W + "\n%>", "warn", exact=True, site="literal"))
    E.append(_rt("w.modblock", "<%!\n" + "\n" * B + "   y = " + F + W + "\n%>", "warn", exact=True, site="literal"))
    E.append(_rt("w.modexec", "<%!\n   import warnings\n" + "\n" * B + "   " + F + "warnings.warn('modlevel')\n%>", "warn", exact=True, site="modexec"))
    # ---- every style of line break (lc.BRK) inside the Python-bearing constructs: after the opening delimiter,
    # between statements / operands, before the closer
    K = lc.BRK
    for style, t in lc.break_variants("<%" + K + "   a = 1" + K + "   z = " + F + Z + K + "   b = 2\n%>"):
        E.append(_rt("rt.block.brk-" + style, t, "raise-brk", exact=True))
    for style, t in lc.break_variants("${" + K + " (1 +" + K + " " + F + Z + ")" + K + "}"):
        E.append(_rt("rt.expr.brk-" + style, t, "raise-brk"))
    for style, t in lc.break_variants('<%call expr="' + K + "str(1," + K + "  " + F + Z + ')">c' + K + "</%call>"):
        E.append(_rt("rt.calltag.brk-" + style, t, "raise-brk"))
    for style, t in lc.break_variants("<%" + K + "   a = 1" + K + "   y = " + F + W + K + "%>"):
        E.append(_rt("w.block.brk-" + style, t, "warn-brk", exact=True, site="literal"))
    for style, t in lc.break_variants("${" + K + " (1," + K + " " + F + W + ")" + K + "}"):
        E.append(_rt("w.expr.brk-" + style, t, "warn-brk", site="literal"))
    # ---- a raise inside an ordinary Python module reached through <%namespace module=>: its frame is reported unchanged
    E.append(_rt("rt.nsmodule", '<%namespace name="pm@" module="' + PYMOD + '"/>\nx ' + N + F + "${pm@.boom()}", "raise", notoken=True,
                 pyframe=(PYMOD + ".py", 2, "boom")))
    # ---- well-formed twins of the special constructs: a layout may hold 2-3 instances of the same kind (several <%! %>
    # blocks, <% %> blocks, defs, namespaces, named blocks, control structures) with the planted one first, in the middle or last
    for eid, text, ls in (("twin.modblock", "<%!\n   import os\n%>\n", False), ("twin.block", "<%\n   q = 1\n\n%>\n", False),
                          ("twin.defcall", '<%def name="k@()">\nd\n</%def>${k@()}\n', False),
                          ("twin.nsmod", '<%namespace name="q@" module="' + PYMOD + '"/>\n', False),
                          ("twin.namedblock", '<%block name="nb@">\nx</%block>\n', False),
                          ("twin.ctl", "% for x in [1]:\n${loop.index}\n% endfor\n", True), ("twin.text", "between\n", False)):
        E.append(c11._entry(eid, text, "twin", ls=ls))
    # ---- filler whose EARLIER lines hold characters that other notions of "line" break on (str.splitlines, editors):
    # Mako counts lines by "\n" only, so none of them may shift what is displayed for a later line
    for name, ch in SUSPICIOUS:
        E.append(c11._entry("sus." + name, "a" + ch + "b\n", "sus"))
    for e in E:
        e["ev"] = _events(_strip(e["text"]).replace("NEXT", "/n.html"))
    return E, cos


def cfg_lines(good, faulty, tails, maxpre, nlkinds, inv):
    return c11.cfg(good, faulty, tails, maxpre, nlkinds, inv)


def cfg_linemap(good, faulty, tails, maxpre, header, starts, inv):
    s = ("CONSTANTS\n  Good = {%s}\n  Faulty = {%s}\n  Tails = {%s}\n  MaxPre = %d\n  NLKinds = {\"lf\"}\n  Routes = {\"string\"}\n  RichOverrides = TRUE\n  Opts = {\"none\"}\n  SourceIsLexedText = TRUE\n  Header = %d\n"
         "  BlockCallStartsSource = %s\nSPECIFICATION LMSpec\nCHECK_DEADLOCK FALSE\n"
         % (", ".join(map(str, good)), ", ".join(map(str, faulty)), ", ".join(map(str, tails)), maxpre, header,
            "TRUE" if starts else "FALSE"))
    for i in inv:
        s += "INVARIANT %s\n" % i
    return s


# --------------------------------------------------------------------------- running the real code
class _Timeout(Exception):
    pass


def _alarm(signum, frame):
    raise _Timeout()


def compose(E, seq, nl, nxt=None, extra=""):
    parts = []
    for i, e in enumerate(seq):
        parts.append(_strip(E[e - 1]["text"]).replace("@", str(i + 1)))
    t = "".join(parts) + extra
    if nxt is not None:
        t = t.replace("NEXT", nxt)
    return t.replace("\n", nl)


def build_world(work, path, templates, **lkw):
    """templates: {uri: text}; returns (lookup, {uri: expected filename}, top-level getter)"""
    from mako.lookup import TemplateLookup
    shutil.rmtree(work, ignore_errors=True)
    os.makedirs(work)
    names = {}
    if path == "lookup-strings":
        lk = TemplateLookup(**lkw)
        for u, t in templates.items():
            try:
                lk.put_string(u, t)       # compiles eagerly; a failure is re-raised when the render is observed
            except Exception as e:  # noqa
                names.setdefault("!fail", e)
            names[u] = u
        return lk, names
    d = os.path.join(work, "tpl")
    os.makedirs(d)
    for u, t in templates.items():
        fn = os.path.join(d, u.lstrip("/"))
        os.makedirs(os.path.dirname(fn), exist_ok=True)
        with open(fn, "wb") as f:
            f.write(t.encode("utf-8"))
        names[u] = fn
    kw = dict(lkw)
    if path == "moddir":
        kw["module_directory"] = os.path.join(work, "mods")
    return TemplateLookup(directories=[d], **kw), names


class _cwd:
    """The harness is single-threaded: the working directory is changed for one construction + render only."""

    def __init__(self, d):
        self.d = d

    def __enter__(self):
        self.old = os.getcwd()
        os.chdir(self.d)

    def __exit__(self, *a):
        os.chdir(self.old)


def spelled_world(root, route, text):
    """A template under root/tpl built with the path spellings of `route` (to be used with cwd = root).
    Returns (constructor, absolute template filename)."""
    from mako.lookup import TemplateLookup
    from mako.template import Template
    shutil.rmtree(root, ignore_errors=True)
    os.makedirs(os.path.join(root, "tpl"))
    with open(os.path.join(root, "tpl", "t.html"), "wb") as f:
        f.write(text.encode("utf-8"))
    kind, fsp, msp = route.split("|")
    mod = {"abs/": os.path.join(root, "mods") + "/", "rel": "mods", "rel/": "mods/", "./rel": "./mods", "dotdot": "tpl/../mods", "none": None}[msp]
    kw = {"module_directory": mod} if mod else {}
    if kind == "direct":
        fname = os.path.join(root, "tpl", "t.html") if fsp == "abs" else "tpl/t.html"
        return (lambda: Template(filename=fname, **kw)), os.path.join(root, "tpl", "t.html")
    d = os.path.join(root, "tpl") if fsp == "abs" else "tpl"
    return (lambda: TemplateLookup(directories=[d], **kw).get_template("/t.html")), os.path.join(root, "tpl", "t.html")


def _project(o, rt, stubs):
    fr, py = [], []
    other_ok = True
    for r in rt.records:
        if r[4] is None:
            other_ok = other_ok and r[5] is None and r[6] is None
            py.append((os.path.basename(r[0]), r[1], r[2]))
            continue
        if r[2] in stubs:
            continue
        fr.append({"file": r[4], "file_abs": os.path.abspath(r[4]) if not str(r[4]).startswith("memory:") else r[4],
                   "line": r[5], "fn": r[2], "text": r[6], "src": r[7]})
    o.update(res="exc", frames=fr, python_frames=py, python_frames_unchanged=other_ok, lineno=rt.lineno, source=rt.source)


def render_and_observe(get, stubs, want_templates=False, plain_too=True):
    """Render; return the observation: list of template-owned frames etc.  Never raises."""
    from mako import exceptions
    o = {}
    old = signal.signal(signal.SIGALRM, _alarm)
    signal.alarm(core.tscale(20))
    try:
        try:
            t = get()
            t.render(v=1)
            o["res"] = "noexc"
        except ZeroDivisionError:
            try:
                rt = exceptions.RichTraceback()
                _project(o, rt, stubs)
            except Exception as e3:  # noqa -- an observation: RichTraceback itself fails on this traceback
                o["res"] = "richtraceback-raises:" + type(e3).__name__
                want_templates = False
            if want_templates:
                try:
                    o["text_tmpl"] = exceptions.text_error_template().render_unicode()
                    o["html_tmpl"] = exceptions.html_error_template().render_unicode(full=False, css=False)
                    try:        # the same page without the pygments formatter
                        if not plain_too:
                            raise KeyError
                        exceptions._install_fallback()
                        o["html_tmpl_plain"] = exceptions.html_error_template().render_unicode(full=False, css=False)
                    except KeyError:
                        pass
                    finally:
                        exceptions._install_highlighting()
                except Exception as e2:  # noqa
                    o["tmpl_exc"] = type(e2).__name__
        except _Timeout:
            o["res"] = "raw:Timeout"
        except Exception as e:  # noqa
            o["res"] = "raw:" + type(e).__name__
    finally:
        signal.alarm(0)
        signal.signal(signal.SIGALRM, old)
    return o


def html_frames(html):
    """[(file, line, displayed source text)] of the stack section of html_error_template output."""
    import html as _h
    out = []
    parts = re.split(r'<div class="location">', html)[1:]
    for part in parts:
        m = re.match(r"(.*?), line (\d+):</div>(.*)", part, re.S)
        if not m:
            continue
        body = m.group(3)
        mc = re.search(r'<td class="code">(.*?)</td>', body, re.S) or re.search(r'<div class="sourceline">(.*?)</div>', body, re.S)
        shown = _h.unescape(re.sub(r"<[^>]*>", "", mc.group(1))).strip().lstrip("\ufeff").strip() if mc else None
        out.append((_h.unescape(m.group(1)), int(m.group(2)), shown))
    return out


def html_sample(html):
    """The source sample of html_error_template output, read structurally: [(line number or None, shown text, highlighted)].
    With the pygments formatter every sample line is numbered and the failing one carries the class "error"; the plain
    fallback shows the lines only."""
    import html as _h
    m = re.search(r'<div class="sample">(.*?)<div class="stacktrace">', html, re.S)
    if not m:
        return None
    body = m.group(1)
    out = []
    blocks = re.findall(r'<div class="((?:error )?)[^"]*highlighted">(.*?)</table>', body, re.S)
    if blocks:
        for err, b in blocks:
            n = re.search(r'class="linenos".*?(\d+)', b, re.S)
            c = re.search(r'<td class="code">(.*?)</td>', b, re.S)
            out.append((int(n.group(1)) if n else None, _h.unescape(re.sub(r"<[^>]*>", "", c.group(1))).strip().lstrip("\ufeff").strip() if c else None, bool(err)))
        return out
    inner = re.search(r'<div class="nonhighlight">(.*?)</div>\s*</div>', body, re.S)
    for ln in (inner.group(1) if inner else "").split("\n"):
        if ln.strip():
            out.append((None, _h.unescape(ln).strip().lstrip("\ufeff").strip(), False))
    return out


def _squash(t):
    import unicodedata
    return "".join(ch for ch in t if not ch.isspace() and unicodedata.category(ch) not in ("Cc", "Cf", "Zl", "Zp"))


def check_sample(sample, src, line):
    """None or the failing clause: the sample must show the frame's line (highlighted when lines are numbered) with its
    text, and every numbered neighbour with the text the source has at that number."""
    if sample is None:
        return "sample-missing"
    want = (lc.physical_line(src, line) or "").strip()
    numbered = [x for x in sample if x[0] is not None]
    if numbered:
        hit = [x for x in numbered if x[0] == line]
        if not hit:
            return "line-missing"
        if not hit[0][2] or sum(1 for x in numbered if x[2]) != 1:
            return "not-highlighted"
        if (hit[0][1] or "") != want:
            return "wrong-text"
        for n, t, _ in numbered:       # neighbours: modulo what a highlighter does to blanks and control characters
            if _squash(t or "") != _squash(lc.physical_line(src, n) or ""):
                return "wrong-neighbour-text"
        nums = [x[0] for x in numbered]
        if nums != list(range(nums[0], nums[0] + len(nums))):
            return "not-contiguous"
        return None
    if want and want not in [x[1] for x in sample]:
        return "line-missing"
    return None


def text_frames(txt):
    """[(file, line, function, displayed source text)] of text_error_template output."""
    return [(a, int(b), c, d.strip().lstrip("\ufeff").strip()) for a, b, c, d in re.findall(r'  File "([^"\n]*)", line (\d+), in (\S+)\n    ([^\n]*)', txt)]


def compare_frames(exp, o, texts):
    """exp: [(expected filename or None for 'module id', uri, line)] outermost first."""
    if o["res"] != "exc":
        return ("render", o["res"] if o["res"] != "noexc" else "no-exception")
    fr = o["frames"]
    if len(fr) != len(exp):
        return ("frames", "count-%d-for-%d" % (len(fr), len(exp)))
    for n, ((fname, uri, line), f) in enumerate(zip(exp, fr)):
        tag = "f%d" % (n + 1) if n + 1 < len(exp) else "inner"
        if f["line"] != line:
            return (tag, "line-early" if f["line"] < line else "line-late")
        if fname is not None and f["file"] != fname and f.get("file_abs") != fname:
            return (tag, "filename")
        if fname is None and not str(f["file"]).startswith("memory:"):
            return (tag, "filename")
        want = lc.physical_line(texts[uri], line)
        # (a byte-order mark at the very beginning of the displayed source is not compared)
        if (f["text"] or "").rstrip("\r").lstrip("\ufeff") != want:
            return (tag, "source-line")
        if (f["src"] or "").lstrip("\ufeff") != texts[uri]:
            return (tag, "source")
    if not o["python_frames_unchanged"]:
        return ("python-frames", "altered")
    if o["lineno"] != exp[-1][2] or (o["source"] or "").lstrip("\ufeff") != texts[exp[-1][1]]:
        return ("richtraceback", "lineno-source")
    if "tmpl_exc" in o:
        return ("error-template", "raises:" + o["tmpl_exc"])
    if "text_tmpl" in o:
        tf, hf = text_frames(o["text_tmpl"]), html_frames(o["html_tmpl"])
        hp = html_frames(o["html_tmpl_plain"]) if "html_tmpl_plain" in o else None
        bad = check_sample(html_sample(o["html_tmpl"]), texts[exp[-1][1]], exp[-1][2])
        if bad:
            return ("html-sample", bad)
        if "html_tmpl_plain" in o:
            bad = check_sample(html_sample(o["html_tmpl_plain"]), texts[exp[-1][1]], exp[-1][2])
            if bad:
                return ("html-sample-plain", bad)
        for (fname, uri, line), f in zip(exp, fr):
            want = (lc.physical_line(texts[uri], line) or "").strip()
            hit = [x for x in tf if x[0] == str(f["file"]) and x[1] == line and x[2] == f["fn"]]
            if not hit:
                return ("text-error-template", "frame-missing")
            if all(x[3] != want for x in hit):
                return ("text-error-template", "source-line")
            hit = [x for x in hf if x[0] == str(f["file"]) and x[1] == line]
            if not hit:
                return ("html-error-template", "frame-missing")
            if all(x[2] != want for x in hit):
                return ("html-error-template", "source-line")
            if hp is not None:
                hit = [x for x in hp if x[0] == str(f["file"]) and x[1] == line]
                if not hit:
                    return ("html-error-template-plain", "frame-missing")
                if all(x[2] != want for x in hit):
                    return ("html-error-template-plain", "source-line")
    return None


def token_pairs(template, token):
    """V: (module line, full_line_map value) for every module line holding `token`."""
    from mako.template import ModuleInfo
    code = template.code
    flm = ModuleInfo.get_module_source_metadata(code, full_line_map=True)["full_line_map"]
    out = []
    for i, l in enumerate(code.split("\n")):
        if token in l and "__M_BEGIN" not in l and not l.lstrip().startswith('"'):
            if i < len(flm):
                out.append((i + 1, flm[i]))
            else:
                out.append((i + 1, None))
    return out


def observe_warnings(action, make):
    shown = []
    res = "ok"
    with warnings.catch_warnings():
        warnings.resetwarnings()
        warnings.simplefilter(action)
        getattr(warnings, "onceregistry", {}).clear()
        old = warnings.showwarning
        warnings.showwarning = lambda m, c, f, l, file=None, line=None: shown.append({"msg": str(m)[:40], "cat": c.__name__, "file": f, "line": l})
        try:
            make()
        except Warning as e:
            res = "warning-itself"
        except Exception as e:  # noqa
            from mako import exceptions
            if isinstance(e, exceptions.SyntaxException):
                res = "SyntaxException@%s" % e.lineno
            else:
                res = "raw:" + type(e).__name__
        finally:
            warnings.showwarning = old
    return res, shown


SESSION_CHILD = r'''
import json, sys, warnings
steps = json.load(open(sys.argv[1]))
from mako.template import Template
from mako import exceptions
shown = []
def base(m, c, f, l, file=None, line=None):
    shown.append([f, l])
warnings.showwarning = base          # what the process "had before"; never wrapped in catch_warnings, which would restore it
out = []
for st in steps:
    warnings.resetwarnings()
    warnings.simplefilter(st["action"])
    getattr(warnings, "onceregistry", {}).clear()
    del shown[:]
    try:
        Template(st["text"], uri=st["uri"])
        res = "ok"
    except (exceptions.SyntaxException, exceptions.CompileException):
        res = "mako-syntax-exception"
    except ValueError:
        res = "module-code-exception"
    except Exception as e:
        res = "raw:" + type(e).__name__
    out.append({"res": res, "shown": list(shown), "restored": warnings.showwarning is base})
print("RESULT " + json.dumps(out))
'''


def session_steps(kinds):
    """Concrete compiles of one WarnSession.tla session: every step has its own number of leading lines and uri."""
    steps = []
    for k, kind in enumerate(kinds):
        lead = "filler %d\n" % k * (k + 1)
        text = {"ok": lead + "plain\n", "fails-at-lex": lead + "${ = = }\n", "fails-in-module-code": lead + "<%!\n  raise ValueError('mc')\n%>\nx\n",
                "warns-once": lead + "${ '\\d' }\n", "warns-under-error": lead + "${ '\\d' }\n"}[kind]
        steps.append({"kind": kind, "text": text, "uri": "/s%d.html" % k, "action": "error" if kind == "warns-under-error" else "always", "home": k + 2})
    return steps


def run_sessions(run, sessions, parallel=8):
    """Each session in a fresh child process; returns [(session, steps, observed list or error string)]."""
    import json as _json
    import subprocess
    import sys
    d = run.subdir("sessions")
    child = os.path.join(d, "child.py")
    with open(child, "w") as f:
        f.write(SESSION_CHILD)
    out = []
    todo = list(enumerate(sessions))
    while todo:
        batch, todo = todo[:parallel], todo[parallel:]
        procs = []
        for i, sess in batch:
            steps = session_steps([x["kind"] for x in sess])
            fn = os.path.join(d, "s%d.json" % i)
            with open(fn, "w") as f:
                _json.dump(steps, f)
            procs.append((sess, steps, subprocess.Popen([sys.executable, child, fn], stdout=subprocess.PIPE, stderr=subprocess.PIPE, text=True, env=dict(os.environ))))
        for sess, steps, p in procs:
            try:
                so, se = p.communicate(timeout=60)
                m = re.search(r"^RESULT (.*)$", so, re.M)
                out.append((sess, steps, _json.loads(m.group(1)) if m else "child-failed:" + (se.strip().splitlines() or ["?"])[-1][:80]))
            except subprocess.TimeoutExpired:
                p.kill()
                out.append((sess, steps, "child-timeout"))
    return out


def check(run):
    thorough = run.thorough
    E, cos = build_catalog(run.rng)
    files = {"LinesCat.tla": c11.catalog_module(E)}
    workers = int(os.environ.get("VERIF_TLC_WORKERS", "0")) or (None if thorough else 8)
    good, tails = c11.idx(E, "good"), c11.idx(E, "tail")
    raises, hops, warns = c11.idx(E, "raise"), c11.idx(E, "hop"), c11.idx(E, "warn")
    maxpre = 2
    deep = [i + 1 for i, e in enumerate(E) if e["id"] in ("txt", "txtnl", "txtml", "cont", "cmt", "doc", "exprml", "ctlcont", "block")]
    cases = []
    seen = set()

    def take(res, group):
        n0 = len(seen)
        for c in res.json_lines():
            if isinstance(c, dict) and "seq" in c and "frames" in c:
                key = (tuple(c["seq"]), c["nl"], c.get("route", "string"), c.get("opt", "none"))
                if key not in seen:
                    seen.add(key)
                    c["group"] = group
                    cases.append(c)
        return len(seen) - n0

    # ------------------------------------------------------------------ 1. TLC: expected frame lines (Lines.tla)
    inv = ["CatalogOK", "ReportAtFault", "CursorIsPrefixSum"]
    lm_inv0 = ["EveryEmittedLineMapsHome", "PlantedLineEmitted"]
    # quick tier: every one of the 17 surroundings once before the planted entry, and up to two of the 9 that move lines most;
    # thorough tier: up to two of all 17 (and three of the 9)
    res = run.tlc("MC_Lines", cfg_lines(good, raises + hops + warns, tails, maxpre if thorough else 1, ["lf", "crlf"], inv), name="mc-frames",
                  workers=workers, coverage=True, extra_files=files, timeout=1500)
    if res.violated:
        run.spec_violation(res)
        return {"rule": "model violated", "exhaustive": False}
    n_cases = take(res, "rt")
    if not thorough:
        res = run.tlc("MC_Lines", cfg_lines(deep, raises + hops + warns, tails, 2, ["lf", "crlf"], inv), name="mc-frames-2", workers=workers,
                      extra_files=files, timeout=1500)
        if res.violated:
            run.spec_violation(res)
            return {"rule": "model violated", "exhaustive": False}
        n_cases += take(res, "rt")
    if thorough:
        res = run.tlc("MC_Lines", cfg_lines(deep, raises + hops + warns, tails, 3, ["lf", "crlf"], inv), name="mc-frames-deep",
                      workers=workers, extra_files=files, timeout=2400)
        if res.violated:
            run.spec_violation(res)
        n_cases += take(res, "rt")
        res = run.tlc("MC_LineMap", cfg_linemap(deep, raises + hops, tails, 3, 17, True, ["EveryEmittedLineMapsHome", "PlantedLineEmitted"]),
                      name="mc-linemap-deep", workers=workers, extra_files=files, timeout=2400)
        if res.violated:
            run.spec_violation(res)
    if n_cases < 500:
        raise MachineryError("TLC exported only %d cases" % n_cases)
    sus = c11.idx(E, "sus")
    rep = [i + 1 for i, e in enumerate(E) if e["id"] in ("rt.expr", "rt.block", "rt.ctl.if", "rt.defcall", "rt.calltag", "rt.ctl.for-loop", "rt.namedblock")]
    res = run.tlc("MC_Lines", cfg_lines(sus, rep, [], 2 if thorough else 1, ["lf", "crlf"], inv), name="mc-suspicious-filler",
                  workers=workers, extra_files=files)
    if res.violated:
        run.spec_violation(res)
    n_sus = take(res, "sus")
    few = [i + 1 for i, e in enumerate(E) if e["id"] in ("txtml", "cont", "block", "ctlcont")]
    res = run.tlc("MC_Lines", cfg_lines(few[:2], c11.idx(E, "raise-brk") + c11.idx(E, "warn-brk"), [], 1, ["lf", "crlf"], inv),
                  name="mc-break-styles", workers=workers, extra_files=files)
    if res.violated:
        run.spec_violation(res)
    n_sus += take(res, "brk")
    # repeated instances of the same construct kind around the planted one (first / middle / last)
    twins = c11.idx(E, "twin")
    ttails = [i + 1 for i, e in enumerate(E) if e["id"] in ("twin.modblock", "twin.block", "twin.defcall", "twin.text")]
    repf = [i + 1 for i, e in enumerate(E) if e["id"] in ("rt.block", "rt.defcall", "rt.ctl.for-loop", "rt.nsmodule", "rt.namedblock", "w.modblock", "w.modexec", "w.block")]
    res = run.tlc("MC_Lines", cfg_lines(twins, repf, ttails, 2, ["lf"], inv), name="mc-repeated-kinds", workers=workers, extra_files=files)
    if res.violated:
        run.spec_violation(res)
    n_rep = take(res, "rep")
    if n_rep < 1000:
        raise MachineryError("repeated-kinds instance exported only %d cases" % n_rep)
    res = run.tlc("MC_LineMap", cfg_linemap(twins, repf, ttails, 2, 17, True, lm_inv0), name="mc-linemap-repeated", workers=workers,
                  coverage=True, extra_files=files)
    if res.violated:
        run.spec_violation(res, "LineMap.tla: with several instances of one construct kind an emitted line maps away from its construct")
    # how paths are spelled (module_directory / template filename / lookup directories: absolute, relative to the cwd,
    # trailing slash, ./ and dir/../dir segments) is a dimension of the construction-path matrix
    wrep = [i + 1 for i, e in enumerate(E) if e["id"] in ("w.expr", "w.block", "w.modexec", "w.ctl.for-loop")]
    rep = [i for i in rep if E[i - 1]["id"] != "rt.namedblock"]     # (its caller frame is known finding #7 on every route)
    res = run.tlc("MC_Lines", c11.cfg(few[:1], rep + wrep, [], 1, ["lf"], inv, routes=SPELLINGS), name="mc-path-spellings",
                  workers=workers, extra_files=files)
    if res.violated:
        run.spec_violation(res)
    n_spell = take(res, "spelled")
    # options that transform the text before lexing or change the layout of the generated module (Lines.tla `Opts`)
    orep = [i + 1 for i, e in enumerate(E) if e["id"] in ("rt.expr", "rt.block", "rt.ctl.if", "rt.defcall", "rt.calltag", "w.block", "w.modexec")]
    res = run.tlc("MC_Lines", c11.cfg(few[:1], orep, [], 1, ["lf"], inv + ["SourceConsistent"], opts=c11.OPTS), name="mc-options",
                  workers=workers, extra_files=files)
    if res.violated:
        run.spec_violation(res)
    n_opt = take(res, "opt")
    if n_opt < len(orep) * len(c11.OPTS):
        raise MachineryError("option instance exported only %d cases" % n_opt)
    if n_spell < len(SPELLINGS) * (len(rep) + len(wrep)):
        raise MachineryError("path-spelling instance exported only %d cases" % n_spell)
    # ------------------------------------------------------------------ 2. TLC: the printer's accounting (LineMap.tla)
    lm_inv = ["EveryEmittedLineMapsHome", "PlantedLineEmitted"]
    for hdr in ((17, 31) if thorough else (17,)):
        # (quick tier: the 9 surroundings that move lines most; the thorough tier runs all 17)
        res = run.tlc("MC_LineMap", cfg_linemap(good if thorough else deep, raises + hops, tails, maxpre, hdr, True, lm_inv), name="mc-linemap-h%d" % hdr,
                      workers=workers, coverage=True, extra_files=files, timeout=1500)
        if res.violated:
            run.spec_violation(res, "LineMap.tla: the printer accounting of the intended design maps an emitted line away from its construct")
            return {"rule": "model violated", "exhaustive": False}
        for a in ("Prologue", "Emit1", "NextPass", "Metadata"):
            if not res.coverage.get(a, [0, 0])[1]:
                raise MachineryError("vacuous LineMap run: %s never taken" % a)
    # the code as it stands: visitBlockTag does not call start_source
    resb = run.tlc("MC_LineMap", cfg_linemap(good, raises, tails, 1, 17, False, lm_inv), name="mc-linemap-as-coded",
                   workers=workers, extra_files=files, expect_ok=False)
    run.extra["linemap_as_coded_violates"] = resb.violated
    as_coded_ce = None
    if resb.violated:
        if resb.violated != ["EveryEmittedLineMapsHome"]:
            run.spec_violation(resb)
        else:
            ce = resb.counterexample()
            as_coded_ce = ce[-1][1].get("tpl") if ce else None
    # ------------------------------------------------------------------ 3. TLC: warnings (Warn.tla)
    wcfg = ("CONSTANTS Sites = {\"literal\", \"modexec\"}\n Actions = {\"always\", \"once\", \"error\"}\n DropForgetsOnce = %s\n"
            "SPECIFICATION Spec\nCHECK_DEADLOCK FALSE\nINVARIANT ShownExactlyOnce\n")
    res = run.tlc("Warn", wcfg % "TRUE", name="mc-warn", workers=2, coverage=True)
    if res.violated:
        run.spec_violation(res)
    wexp = {}
    for j in res.json_lines():
        if isinstance(j, dict) and "site" in j and "action" in j:
            wexp[(j["site"], j["action"])] = j
    if len(wexp) != 6:
        raise MachineryError("Warn.tla exported %d of 6 expectations" % len(wexp))
    resw = run.tlc("Warn", wcfg % "FALSE", name="mc-warn-witness", workers=2, expect_ok=False)
    if resw.violated != ["ShownExactlyOnce"]:
        raise MachineryError("Warn.tla witness: dropping without forgetting the once-record must violate ShownExactlyOnce (%s)" % resw.violated)

    # sessions of 2-3 compiles in one process: the installed display hook is state (WarnSession.tla)
    kinds5 = ["ok", "fails-at-lex", "fails-in-module-code", "warns-once", "warns-under-error"]
    scfg = ("CONSTANTS Kinds = {%s}\n MaxLen = 3\n RestoreInFinally = %%s\nSPECIFICATION Spec\nCHECK_DEADLOCK FALSE\n"
            "INVARIANT HookRestored\nINVARIANT ShownExactlyOncePerCompile\n" % ", ".join('"%s"' % k for k in kinds5))
    res = run.tlc("WarnSession", scfg % "TRUE", name="mc-warn-sessions", workers=2, coverage=True)
    if res.violated:
        run.spec_violation(res)
    sessions = {}
    for j in res.json_lines():
        if isinstance(j, dict) and "session" in j:
            sessions.setdefault(tuple(x["kind"] for x in j["session"]), j["session"])
    if len(sessions) != 150:
        raise MachineryError("WarnSession.tla exported %d of 150 sessions" % len(sessions))
    resw = run.tlc("WarnSession", scfg % "FALSE", name="mc-warn-sessions-witness", workers=2, expect_ok=False)
    if "HookRestored" not in resw.violated:
        raise MachineryError("WarnSession.tla witness: a hook restored only on success must violate HookRestored (%s)" % resw.violated)

    # ------------------------------------------------------------------ 4. R / V on the real code
    byid = {e["id"]: i + 1 for i, e in enumerate(E)}
    work = run.subdir("world")
    cases.sort(key=lambda c: (c["seq"], c["nl"]))
    spelled = [c for c in cases if c.get("route", "string") != "string"]
    opted = [c for c in cases if c.get("opt", "none") != "none"]
    cases = [c for c in cases if c.get("route", "string") == "string" and c.get("opt", "none") == "none"]
    leafs = [c for c in cases if E[c["seq"][c["fpos"] - 1] - 1]["group"] in ("raise", "raise-brk")]
    hopc = [c for c in cases if E[c["seq"][c["fpos"] - 1] - 1]["group"] == "hop"]
    warnc = [c for c in cases if E[c["seq"][c["fpos"] - 1] - 1]["group"] in ("warn", "warn-brk")]
    # the ordinary Python module reached through <%namespace module=>
    pydir = run.subdir("pymods")
    with open(os.path.join(pydir, PYMOD + ".py"), "w") as f:
        f.write("def boom(context):\n    return 1 / 0\n")
    import sys
    sys.modules.pop(PYMOD, None)
    if pydir not in sys.path:
        sys.path.insert(0, pydir)
    mism = {}
    n_render = n_pairs = n_warn = 0

    def note(sig, what, replay):
        mism.setdefault(sig, []).append((what, replay))

    def fe_of(c):
        return E[c["seq"][c["fpos"] - 1] - 1]

    def stubs_of(c):
        return {s.replace("@", str(c["fpos"])) for s in fe_of(c).get("stubs", [])}

    def hsh(ci, salt=""):
        return int(hashlib.sha1(("%d:%s:%d" % (run.seed, salt, ci)).encode()).hexdigest()[:8], 16)

    def edge_of(c):
        """where the innermost frame's line stands in the text (a layout dimension, Lines.tla nlines / endnl)"""
        l, n = c["frames"][-1], c["nlines"]
        if n == 1:
            return "single-line"
        if l == n and not c["endnl"]:
            return "last-line-without-terminator"
        if l == n - 1 and c["endnl"]:
            return "last-line-with-terminator"
        if l == 1:
            return "first-line"
        return None

    have = {(edge_of(c), c["nl"]) for c in leafs}
    for ek in ("single-line", "last-line-without-terminator", "last-line-with-terminator", "first-line"):
        if (ek, "lf") not in have or (ek, "crlf") not in have and ek != "single-line":
            raise MachineryError("layout dimension not covered: raise on %s" % ek)
    seen_edge = set()
    edge_cases = []
    seen_paths = set()
    stride = 11 if thorough else 97
    # ---- single templates
    for ci, c in enumerate(leafs):
        nl = "\n" if c["nl"] == "lf" else "\r\n"
        fe = fe_of(c)
        text = compose(E, c["seq"], nl)
        token = "(0*%d)" % c["fpos"]
        paths = ["plain"]
        key = (fe["id"], c["nl"])
        is_sus = any(E[i - 1]["group"] == "sus" for i in c["seq"]) or c["group"] == "rep"
        if c["group"] == "rt" and key in seen_paths and hsh(ci, "pl") % 2:
            continue        # (sampling the largest instance; every entry x terminator is rendered on all paths once, see below)
        if key not in seen_paths or hsh(ci) % stride == 0:
            seen_paths.add(key)
            paths += ["lookup-strings", "file", "lookup", "moddir"]
        elif is_sus and (c["group"] != "rep" or hsh(ci, "rp") % 2 == 0):
            paths += [["file", "moddir", "lookup", "lookup-strings"][hsh(ci, "sus") % 4]]
        for p in paths:
            from mako.template import Template
            tl = [None]
            if p == "plain":
                def get():
                    tl[0] = Template(text)
                    return tl[0]
                fname = None
            else:
                lk, names = build_world(work, "lookup" if p == "file" else p, {"/t.html": text})
                fname = names["/t.html"]
                if p == "file":
                    def get():
                        tl[0] = Template(filename=fname, lookup=lk)
                        return tl[0]
                else:
                    def get():
                        if "!fail" in names:
                            raise names["!fail"]
                        tl[0] = lk.get_template("/t.html")
                        return tl[0]
            ek = (edge_of(c), c["nl"], hsh(len(fe["id"]), fe["id"]) % 3)
            is_edge = p == "plain" and ek[0] is not None and ek not in seen_edge
            if is_edge:
                seen_edge.add(ek)
                edge_cases.append(c)
            susk = tuple(E[i - 1]["id"] for i in c["seq"] if E[i - 1]["group"] == "sus") + (c["nl"],)
            sus_first = p == "plain" and len(susk) > 1 and (susk not in seen_edge or hsh(ci, "st") % 3 == 0)
            if sus_first:
                seen_edge.add(susk)
            o = render_and_observe(get, stubs_of(c), want_templates=(is_edge or sus_first or (p == "plain" and hsh(ci, p) % 6 == 0) or (p != "plain" and hsh(ci, p) % 3 == 0)),
                                   plain_too=(is_edge or hsh(ci, p) % 2 == 0))
            n_render += 1
            exp = [(fname, "/t.html", l) for l in c["frames"]]
            d = compare_frames(exp, o, {"/t.html": text})
            if d:
                note("frame:%s:%s:%s" % (fe["id"], d[0], d[1]), "frames %s" % ([(f["fn"], f["line"]) for f in o.get("frames", [])] if o["res"] == "exc" else o["res"]),
                     {"template": text, "path": p, "expected_frame_lines": c["frames"], "observed": {k: v for k, v in o.items() if k not in ("text_tmpl", "html_tmpl", "html_tmpl_plain", "source")},
                      "layout": [E[i - 1]["id"] for i in c["seq"]], "nl": c["nl"]})
            # the frame of an ordinary Python module (namespace module=) is reported unchanged: its own file, line, function
            if fe.get("pyframe") and o["res"] == "exc" and (not o["python_frames"] or tuple(o["python_frames"][-1]) != tuple(fe["pyframe"])):
                note("frame:%s:python-frame" % fe["id"], "innermost Python frame %s, expected %s" % (o["python_frames"][-1:], fe["pyframe"]),
                     {"template": text, "path": p, "python_frames": o["python_frames"][-3:]})
            # V: the module line holding the planted token maps to the innermost expected line
            if tl[0] is not None and p in ("plain", "moddir") and not fe.get("notoken"):
                try:
                    pairs = token_pairs(tl[0], token)
                except Exception as e:  # noqa
                    pairs = "exc:" + type(e).__name__
                n_pairs += 1
                if isinstance(pairs, str) or not pairs or any(v != c["frames"][-1] for _, v in pairs):
                    note("linemap:%s:token-line" % fe["id"], "module lines holding %s map to %s, home is %s" % (token, pairs, c["frames"][-1]),
                         {"template": text, "path": p, "pairs": pairs, "home": c["frames"][-1]})
        if hsh(ci, "eh") % 15 == 0 or is_sus:      # what an error_handler sees
            from mako import exceptions as _ex
            seen_eh = {}

            def handler(context, error):
                _project(seen_eh, _ex.RichTraceback(), stubs_of(c))
                return True
            try:
                Template(text, error_handler=handler).render(v=1)
            except Exception as e:  # noqa
                seen_eh["res"] = "raw:" + type(e).__name__
            seen_eh.setdefault("res", "noexc")
            n_render += 1
            d = compare_frames([(None, "/t.html", l) for l in c["frames"]], seen_eh, {"/t.html": text})
            if d:
                note("frame:%s:%s:%s" % (fe["id"], d[0], d[1]), "RichTraceback inside an error_handler: %s" % (
                    [(f["fn"], f["line"]) for f in seen_eh.get("frames", [])] if seen_eh["res"] == "exc" else seen_eh["res"]), {"template": text})
        if ci < 3:
            run.sample({"layout": [E[i - 1]["id"] for i in c["seq"]], "nl": c["nl"], "template": text, "expected_frame_lines": c["frames"]})
    # ---- format_exceptions output
    fx = leafs[:: max(1, len(leafs) // 40)] + [c for c in leafs if any(E[i - 1]["group"] == "sus" for i in c["seq"])] + edge_cases
    for ci, c in enumerate(fx):
        from mako.template import Template
        nl = "\n" if c["nl"] == "lf" else "\r\n"
        text = compose(E, c["seq"], nl)
        try:
            out = Template(text, format_exceptions=True).render(v=1)
            out = out.decode("utf-8", "replace") if isinstance(out, bytes) else out
            hf = [x for x in html_frames(out) if x[0].startswith("memory:")]
            locs = [x[1] for x in hf]
            wrong = [x for x in hf if x[1] in c["frames"] and x[2] != (lc.physical_line(text, x[1]) or "").strip()]
            bad = check_sample(html_sample(out), text, c["frames"][-1]) if set(c["frames"]) <= set(locs) else None
            if bad and not wrong:
                note("format-exceptions-sample:%s:%s" % (fe_of(c)["id"], bad), "the source sample of the error page: %s (frame line %d of %d, text %s with a final terminator)"
                     % (bad, c["frames"][-1], c["nlines"], "ends" if c["endnl"] else "does not end"), {"template": text, "layout": [E[i - 1]["id"] for i in c["seq"]]})
            if wrong and set(c["frames"]) <= set(locs):
                note("format-exceptions-source-line:%s" % fe_of(c)["id"], "error page shows %r for line %d" % (wrong[0][2], wrong[0][1]),
                     {"template": text, "shown": wrong, "layout": [E[i - 1]["id"] for i in c["seq"]]})
        except Exception as e:  # noqa
            locs = "exc:" + type(e).__name__
        n_render += 1
        if isinstance(locs, str) or sorted(locs) != sorted(set(locs) | set(c["frames"])) or not set(c["frames"]) <= set(locs if not isinstance(locs, str) else []):
            if isinstance(locs, str):
                note("frame:%s:render:raw:%s" % (fe_of(c)["id"], locs[4:]), "Template(text, format_exceptions=True).render raises %s" % locs[4:], {"template": text})
            elif not set(c["frames"]) <= set(locs):
                note("format-exceptions:%s" % fe_of(c)["id"], "error page shows template lines %s, expected %s" % (locs, c["frames"]),
                     {"template": text, "shown": locs, "expected": c["frames"]})
    # ---- chains: top -> (hop)* -> leaf
    rng = run.rng
    n_chain = 600 if thorough else 100
    for k in range(n_chain):
        depth = rng.choice([1, 1, 2])
        chain = [rng.choice(hopc) for _ in range(depth)] + [rng.choice(leafs)]
        kinds = [fe_of(c)["hop"] for c in chain[:-1]]
        uris = ["/d%d/t.html" % i for i in range(len(chain))]      # the same basename in different directories
        texts = {}
        # an "inherit" hop template is the PARENT of the next one: the next template gets the inherit tag appended
        for i, c in enumerate(chain):
            nl = "\n" if c["nl"] == "lf" else "\r\n"
            extra = ""
            if i > 0 and kinds[i - 1] == "inherit":
                extra = '<%%inherit file="%s"/>' % uris[i - 1]
            texts[uris[i]] = compose(E, c["seq"], nl, nxt=(uris[i + 1] if i + 1 < len(chain) else None), extra=extra)
        # rendering starts at the most derived template of a leading run of inherit hops
        start = 0
        while start < len(kinds) and kinds[start] == "inherit":
            start += 1
        # only leading inherit hops are generated (a parent cannot be reached by include of its child)
        if any(kd == "inherit" for kd in kinds[start:]):
            continue
        p = rng.choice(["lookup-strings", "lookup", "moddir"])
        lk, names = build_world(work, p, texts)
        stubs = set()
        for c in chain:
            stubs |= stubs_of(c)
        def get_chain():
            if "!fail" in names:
                raise names["!fail"]
            return lk.get_template(uris[start])
        o = render_and_observe(get_chain, stubs, want_templates=(k % 5 == 0))
        n_render += 1
        exp = []
        for i, c in enumerate(chain):
            for l in c["frames"]:
                exp.append((names[uris[i]], uris[i], l))
        d = compare_frames(exp, o, texts)
        if d:
            ids = [fe_of(c)["id"] for c in chain]
            bad = ids[-1]
            if d[0].startswith("f") and d[0][1:].isdigit():
                # which template owns the failing frame
                n = int(d[0][1:]) - 1
                acc = 0
                for i, c in enumerate(chain):
                    if n < acc + len(c["frames"]):
                        bad = ids[i] + (":f%d" % (n - acc + 1) if i == len(chain) - 1 else "")
                        break
                    acc += len(c["frames"])
                note("frame:%s:%s" % (bad, d[1]) if ":f" in bad else "frame:%s:hop:%s" % (bad, d[1]), "chain %s" % ids,
                     {"templates": texts, "path": p, "expected": [(u, l) for _, u, l in exp],
                      "observed": [(f["file"], f["fn"], f["line"]) for f in o.get("frames", [])] if o["res"] == "exc" else o["res"]})
            else:
                note("frame:%s:%s:%s" % (bad, d[0], d[1]), "chain %s" % ids,
                     {"templates": texts, "path": p, "expected": [(u, l) for _, u, l in exp],
                      "observed": [(f["file"], f["fn"], f["line"]) for f in o.get("frames", [])] if o["res"] == "exc" else o["res"]})
        if k % 4 == 0 and not d:       # the same chain through a lookup with format_exceptions=True: the error page
            lk2, names2 = build_world(work, p, texts, format_exceptions=True)
            try:
                if "!fail" in names2:
                    raise names2["!fail"]
                page = lk2.get_template(uris[start]).render(v=1)
                page = page.decode("utf-8", "replace") if isinstance(page, bytes) else page
                hf = html_frames(page)
                bad = None
                for (fname, uri, line) in exp:
                    want = (lc.physical_line(texts[uri], line) or "").strip()
                    if not any(x[0] == str(names2[uri]) and x[1] == line and x[2] == want for x in hf):
                        bad = (uri, line, want)
                        break
            except Exception as e:  # noqa
                bad = "raw:" + type(e).__name__
            n_render += 1
            if bad:
                note("format-exceptions-lookup:%s" % fe_of(chain[-1])["id"], "error page of a lookup with format_exceptions lacks %s" % (bad,),
                     {"templates": texts, "path": p, "missing": bad})
        if k < 2:
            run.sample({"chain": [fe_of(c)["id"] for c in chain], "templates": texts, "expected": [(u, l) for _, u, l in exp]})
    # ---- the LineMap counterexample of the model "as coded", confirmed on the real code
    if as_coded_ce:
        from mako.template import Template
        seq = as_coded_ce
        text = compose(E, seq, "\n")
        run.extra["linemap_counterexample"] = {"layout": [E[i - 1]["id"] for i in seq], "template": text}
    # ---- path spellings (cwd = the world's root for construction, render and display)
    for ci, c in enumerate(spelled):
        fe = fe_of(c)
        text = compose(E, c["seq"], "\n")
        root = os.path.join(work, "spell")
        make, fabs = spelled_world(root, c["route"], text)
        sig_route = "module-directory-%s" % c["route"].split("|")[2] if c["route"].split("|")[2] not in ("none",) else "filename-%s" % c["route"].split("|")[1]
        if fe["group"] == "raise":
            with _cwd(root):
                o = render_and_observe(make, stubs_of(c), want_templates=(hsh(ci, "sp") % 3 == 0))
            n_render += 1
            d = compare_frames([(fabs, "/t.html", l) for l in c["frames"]], o, {"/t.html": text})
            if d:
                note("frame:%s:%s:%s:%s" % (fe["id"], d[0], d[1], sig_route), "route %s: frames %s, python frames %s" % (
                    c["route"], [(f["file"], f["line"]) for f in o.get("frames", [])] if o["res"] == "exc" else o["res"], o.get("python_frames", [])[-2:]),
                    {"template": text, "route": c["route"], "expected_frame_lines": c["frames"]})
        else:
            home = c["frames"][-1]
            for action in ("always", "once", "error"):
                ex = wexp[(fe["f"]["site"], action)]
                make, fabs = spelled_world(root, c["route"], text)
                with _cwd(root):
                    res, shown = observe_warnings(action, make)
                    got_shown = [{"file": os.path.abspath(x["file"]), "line": x["line"]} for x in shown]
                n_warn += 1
                want_shown = [{"file": fabs, "line": home} for _ in ex["shown"]]
                want_res = {"none": "ok", "SyntaxException@home": "SyntaxException@%d" % c["fline"], "warning-itself": "warning-itself"}[ex["exc"]]
                if res != want_res or got_shown != want_shown:
                    clause = ("result:" + re.sub(r"\d+", "N", res)) if res != want_res else ("shown-%d-times" % len(got_shown) if len(got_shown) != len(want_shown)
                                                                                           else ("filename" if got_shown[0]["file"] != fabs else "line"))
                    note("warning:%s:%s:%s:%s" % (fe["id"], action, clause, sig_route), "route %s: result %s shown %s; expected %s %s" % (c["route"], res, shown, want_res, want_shown),
                         {"template": text, "route": c["route"], "action": action})
    # ---- option configurations: frame lines are lines of the text the lexer lexes, and so is the displayed source
    for ci, c in enumerate(opted):
        from mako.template import Template
        fe = fe_of(c)
        text = compose(E, c["seq"], "\n")
        raw, kw, lexed = c11.apply_option(c["opt"], text)
        root = os.path.join(work, "opt")
        shutil.rmtree(root, ignore_errors=True)
        os.makedirs(root)
        fn = os.path.join(root, "t.html")
        with open(fn, "wb") as f:
            f.write(raw if isinstance(raw, bytes) else raw.encode("utf-8"))
        if fe["group"] == "raise":
            for p, mk, fname in (("plain", lambda: Template(raw, **kw), None),
                                 ("moddir", lambda: Template(filename=fn, module_directory=os.path.join(root, "mods"), **kw), fn)):
                o = render_and_observe(mk, stubs_of(c), want_templates=(hsh(ci, p) % 2 == 0), plain_too=False)
                n_render += 1
                d = compare_frames([(fname, "/t.html", l) for l in c["frames"]], o, {"/t.html": lexed})
                if d:
                    sig = "frame:%s:%s:%s" % (fe["id"], d[0], d[1])
                    if sig not in mism:
                        sig += ":option-" + c["opt"]
                    note(sig, "option %s, %s: frames %s" % (c["opt"], p, [(f["fn"], f["line"], f["text"]) for f in o.get("frames", [])] if o["res"] == "exc" else o["res"]),
                         {"template": text, "option": c["opt"], "path": p, "expected_frame_lines": c["frames"]})
        else:
            home = c["frames"][-1]
            for action in ("always", "error"):
                ex = wexp[(fe["f"]["site"], action)]
                res, shown = observe_warnings(action, lambda: Template(filename=fn, **kw))
                n_warn += 1
                want_res = {"none": "ok", "SyntaxException@home": "SyntaxException@%d" % c["fline"], "warning-itself": "warning-itself"}[ex["exc"]]
                want_shown = [{"file": fn, "line": home} for _ in ex["shown"]]
                got_shown = [{"file": x["file"], "line": x["line"]} for x in shown]
                if res != want_res or got_shown != want_shown:
                    clause = ("result:" + re.sub(r"\d+", "N", res)) if res != want_res else ("shown-%d-times" % len(got_shown) if len(got_shown) != len(want_shown)
                                                                                           else ("filename" if got_shown[0]["file"] != fn else ("line-early" if got_shown[0]["line"] < home else "line-late")))
                    sig = "warning:%s:%s:%s" % (fe["id"], action, clause)
                    if sig not in mism:
                        sig += ":option-" + c["opt"]
                    note(sig, "option %s: result %s shown %s; expected %s %s" % (c["opt"], res, shown, want_res, want_shown), {"template": text, "option": c["opt"]})
    # ---- warnings
    wstride = 5 if thorough else 41
    for ci, c in enumerate(warnc):
        fe = fe_of(c)
        is_rep = c["group"] == "rep"
        if not is_rep and hsh(ci, "w") % wstride and (fe["id"], c["nl"]) in seen_paths:
            continue
        seen_paths.add((fe["id"], c["nl"]))
        nl = "\n" if c["nl"] == "lf" else "\r\n"
        text = compose(E, c["seq"], nl)
        home = c["frames"][-1]
        from mako.template import Template
        for action in ("always", "once", "error"):
            ex = wexp[(fe["f"]["site"], action)]
            wpaths = ("string-uri", "file", "lookup", "moddir", "moddir-again")
            if is_rep:      # every repeated-kinds case: "always" on a string; the other actions / paths on a hashed third
                if action == "always":
                    wpaths = ("string-uri",) + ((("file",), ("lookup",), ("moddir", "moddir-again"))[hsh(ci, "wr") % 3] if hsh(ci, "wq") % 3 == 0 else ())
                elif hsh(ci, action) % 3 == 0:
                    wpaths = ("string-uri",)
                else:
                    continue
            for p in wpaths:
                if p == "string-uri":
                    fname = "/w.html"
                    mk = lambda: Template(text, uri="/w.html")      # noqa
                elif p == "moddir-again":
                    mk = lambda: Template(filename=fname, module_directory=os.path.join(work, "mods"))   # noqa
                else:
                    lk, names = build_world(work, "lookup" if p == "file" else p, {"/w.html": text})
                    fname = names["/w.html"]
                    if p == "file":
                        mk = lambda: Template(filename=fname)   # noqa
                    elif p == "lookup":
                        mk = lambda: lk.get_template("/w.html")  # noqa
                    else:
                        mk = lambda: Template(filename=fname, module_directory=os.path.join(work, "mods"))  # noqa
                if p == "moddir-again" and action == "error":
                    continue        # the first construction failed: there is no module file to load again
                res, shown = observe_warnings(action, mk)
                n_warn += 1
                want_shown = [{"file": fname, "line": home} for _ in ex["shown"]]
                want_res = {"none": "ok", "SyntaxException@home": "SyntaxException@%d" % c["fline"], "warning-itself": "warning-itself"}[ex["exc"]]
                got_shown = [{"file": s["file"], "line": s["line"]} for s in shown]
                if res != want_res:
                    clause = "result:" + re.sub(r"\d+", "N", res)
                elif len(got_shown) != len(want_shown):
                    clause = "shown-%d-times" % len(got_shown)
                elif got_shown != want_shown:
                    clause = "filename" if got_shown[0]["file"] != fname else ("line-early" if got_shown[0]["line"] < home else "line-late")
                else:
                    clause = None
                if clause:
                    note("warning:%s:%s:%s" % (fe["id"], action, clause), "path %s: result %s shown %s; expected %s %s" % (p, res, got_shown, want_res, want_shown),
                         {"template": text, "path": p, "action": action, "expected": {"result": want_res, "shown": want_shown}, "observed": {"result": res, "shown": shown}})
    # ---- sessions of compiles, each in a fresh child process
    chosen = [sessions[k] for k in sorted(sessions) if len(k) == 2 or thorough or int(hashlib.sha1(("%d:%s" % (run.seed, k)).encode()).hexdigest()[:8], 16) % 3 == 0]
    n_sess = 0
    for sess, steps, got in run_sessions(run, chosen):
        n_sess += 1
        kinds = [x["kind"] for x in sess]
        if isinstance(got, str) or len(got) != len(sess):
            note("warning-session:%s" % (got if isinstance(got, str) else "steps-missing"), "session %s" % kinds, {"session": kinds, "observed": got})
            continue
        for n, (x, st, g) in enumerate(zip(sess, steps, got)):
            want_shown = [[st["uri"], st["home"]]] if x["shown"] == "once-at-home" else []
            clause = None
            if g["res"] != x["res"]:
                clause = "result:" + g["res"]
            elif not g["restored"]:
                clause = "showwarning-not-restored"
            elif g["shown"] != want_shown:
                clause = "shown-%d-times" % len(g["shown"]) if len(g["shown"]) != len(want_shown) else "wrong-location"
            if clause:
                prev = kinds[n - 1] if n else "start"
                note("warning-session:%s:after-%s:%s" % (x["kind"], prev if clause != "showwarning-not-restored" else "itself", clause),
                     "session %s, compile %d: %s; expected %s shown %s restored" % (kinds, n + 1, g, x["res"], want_shown),
                     {"session": kinds, "templates": [s_["text"] for s_ in steps], "observed": got})
                break
    run.extra["warning_sessions"] = n_sess
    n_warn += n_sess
    run.traces += n_render + n_pairs + n_warn
    run.extra.update(renders_compared=n_render, token_pairs_checked=n_pairs, warning_constructions=n_warn, cases=n_cases,
                     catalog={"good": len(good), "raise": len(raises), "hop": len(hops), "warn": len(warns), "cosmetics": cos})
    for sig in sorted(mism):
        lst = sorted(mism[sig], key=lambda m: len(str(m[1])))
        what, rp = lst[0]
        rp["occurrences"] = len(lst)
        run.violation(sig, what, rp)

    # ------------------------------------------------------------------ 5. negative controls
    done = 0
    for c in leafs:
        if done >= 20:
            break
        from mako.template import Template
        nl = "\n" if c["nl"] == "lf" else "\r\n"
        text = compose(E, c["seq"], nl)
        o = render_and_observe(lambda: Template(text), stubs_of(c))
        exp = [(None, "/t.html", l) for l in c["frames"]]
        if compare_frames(exp, o, {"/t.html": text}) is not None:
            continue
        bad = [(None, "/t.html", l + (1 if i == len(exp) - 1 else 0)) for i, (_, _, l) in enumerate(exp)]
        r1 = compare_frames(bad, o, {"/t.html": text}) is not None
        # (a control that renders a shifted template says something about the comparer only on a tree that is otherwise
        # in agreement; on a tree with violations the same comparer is exercised on a synthetic shifted observation)
        if not mism:
            o2 = render_and_observe(lambda: Template(nl + text), stubs_of(c))
        else:
            o2 = dict(o, frames=[dict(f, line=f["line"] + 1) for f in o["frames"]], lineno=o["lineno"] + 1, source=nl + text)
        r2 = compare_frames(exp, o2, {"/t.html": nl + text}) is not None
        r3 = compare_frames(exp + [(None, "/t.html", 1)], o, {"/t.html": text}) is not None
        run.negative_control(r1 and r2 and r3, "frame comparer accepted a corrupted expectation / shifted template")
        done += 1
    if not done and not mism:      # on a tree that fails everywhere the violations are the verdict
        raise MachineryError("no negative control could be run")
    run.assumptions += [
        "frames of generated stub functions (def name without render_ prefix) are not compared: no single construct owns them",
        "hoisted variable declarations and the __M_locals bookkeeping lines are not planted positions",
        "filler lines holding \\x0c \\x0b \\x85 U+2028 U+2029 \\x1c lone-CR NBSP and a non-BMP character precede 7 representative raises on every run; the "
        "displayed source text of every template frame is compared on all surfaces (records, text/html templates, format_exceptions)",
        "options (preprocessor identity / deleting / inserting lines / a list, bytes with magic comment, BOM, strict_undefined, enable_loop=False, "
        "imports, future_imports, default_filters) x 5 raises and 2 warning entries: frame lines, displayed source text and warning lines refer to the text the lexer lexes",
        "layout dimension 'where the frame's line stands': first line, last line with / without a final terminator, single-line template, LF and CRLF - "
        "asserted present on every run; for each of them the html error page is read structurally (sample block: the frame's line present, highlighted when "
        "lines are numbered, every numbered neighbour with the source's text) with and without pygments, and through format_exceptions",
        "sessions of 2-3 compiles in one fresh child process each (ok / fails at lex / fails in <%! %> code / warns once / warns under the error filter): "
        "result, shown warnings and the identity of warnings.showwarning after every compile; all 25 two-step and a hashed third of the 125 three-step sessions",
        "path spellings: module_directory absolute+slash / relative / relative+slash / ./ / dir/../dir x template filename or lookup directory "
        "absolute / relative, run with cwd = the world's root, for 7 representative raises and 4 warning entries (frames, error templates, warnings)",
        "also: RichTraceback inside an error_handler, format_exceptions through a lookup, html page with and without pygments (only file, line "
        "and displayed text are read, no pygments markup), chain templates share one basename in different directories, a Python frame behind "
        "<%namespace module=> is reported unchanged",
        "a plain string template without uri has no filename: the module id (memory:0x..) is accepted as its name",
        "warnings: PYTHONDONTWRITEBYTECODE=1, so a module file is compiled (and warns) once per construction; string templates are given a uri",
        "the line shown for a warning / frame is the line where the construct begins, the exact line inside <% %> and <%! %>; "
        "under the error action a literal's warning surfaces as a SyntaxException at the line holding the literal (the C11 rule)",
    ]
    return {"rule": "TLC (Lines.tla) enumerates layouts (<=%d constructs before [3 over a 9-entry subset in the thorough tier], <=1 after) x planted raise/hop/warning entry x {LF,CRLF} and exports the "
                    "frame lines; LineMap.tla checks EveryEmittedLineMapsHome on the printer accounting for the same layouts; Warn.tla checks "
                    "ShownExactlyOnce. Every leaf case is rendered (plain; + 4 more paths on a sample covering every entry), seeded chains of 2-3 "
                    "templates through include/namespace/inherit are rendered, RichTraceback records / error templates / full_line_map token pairs / "
                    "shown warnings are compared with the exported lines." % maxpre,
            "exhaustive": False}
