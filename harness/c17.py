"""C17 -- cached sections run once per key and replay their exact output.

Specification: spec/Cache.tla (design model in the shape of mako/cache.py + the cache parts of
mako/codegen.py, invariants AtMostOncePerKey, ExecIffMiss, ReplayExact, DisabledExecutesAlways,
ArgsPrecedence, Isolation), spec/MC_Cache.tla (bounded instances, worlds in CacheProgs.tla),
spec/Trace_Cache.tla (trace validation).

 1. TLC checks the strict invariants on the intended design (AsCoded = {}) and the invariants modulo
    the recorded deviations on the model that follows the code, exhaustively for small worlds.
 2. Where the model that follows the code admits a counterexample to a strict invariant, TLC finds
    it; the counterexample is replayed on real templates; if the real code follows it, the defect
    is reported through run.violation with a narrow signature.
 3. R: `tlc -simulate` histories (length 30) over seeded random worlds are replayed on real
    Template objects sharing one backend -- the recording dict backend, Beaker memory/file,
    dogpile.cache -- comparing output tokens, execution counters, the arguments every backend call
    received and (reference backend) the backend content after every action.
 4. V: seeded random histories are recorded from real templates and validated in batch by
    Trace_Cache.tla, invariants evaluated after every event.

Python only generates worlds/histories, turns them into template text, projects what it observes
and compares; every expected value comes out of TLC.
"""
import copy
import json
import os
import re

from . import cache_backend as cb
from . import core
from .core import MachineryError

HEAP = "3g"      # the state spaces are small; a modest JVM heap keeps TLC out of the way of the OOM killer on a shared machine
CTX_VALS = ["u", "w"]
ALL_OPS = ["render", "renderdef", "invbody", "invdef", "invclosure", "inv", "set", "get", "toggle"]
DEVS = ["regions-by-invalidate", "ns-sanitised", "inline-bf", "block-names-hoisted"]
TIMEOUTS = ["7", "34", "3600", "7200", "86400", "${60*60}"]
LONG_TIMEOUTS = ["3600", "7200", "86400", "${60*60}"]
SIG = {
    "NamesOnlyOnMiss": ("strict-undefined-cached-block-needs-body-names-on-replay",
                        "with strict_undefined=True the names that only the body of a cached <%block> (named or anonymous) reads are looked up "
                        "by the ENCLOSING render function on every render: a render whose context lacks such a name raises NameError although "
                        "the block's entry exists and would be replayed (cached defs, nested defs and pages replay fine)"),
    "ArgsPrecedence": ("invalidate-before-first-render-freezes-def-regions",
                       "invalidate_def/invalidate_closure/invalidate_body called before the section's first cached render freezes "
                       "Cache._def_regions[defname] with the template-level cache_args only; every later render passes those to the "
                       "backend instead of page/section cache_* arguments"),
    "Isolation": ("cache-id-collision-sanitised-uri",
                  "cache id = module name = re.sub(r'\\W', '_', uri): templates whose URIs differ only in punctuation share one "
                  "cache namespace, so an entry created by one is served to the other"),
    "ReplayExact": ("inline-cached-buffered-drops-buffer-filters",
                    "a nested <%def> with buffered=\"True\" cached=\"True\" in a template with buffer_filters renders without the "
                    "buffer filters (the inline cache wrapper is generated with buffered=False), unlike the uncached render"),
}


# --------------------------------------------------------------------------- worlds
def P(n, k="pos", d=""):
    """One parameter of a signature: kind pos | def | var | kwo | kwd | kw (see Bind in Cache.tla)."""
    return {"n": n, "k": k, "d": d}


def sec(name, kind, cached=True, key="static", pfx="", args=(), buf=False, filt=False, items=(), parent=0, sig=None, kp=None, reads=False):
    if sig is None:
        sig = [P("x")] if kind in ("def", "ndef") else []
    if kp is None:
        kp = 1 if key in ("arg", "argctx") else 0
    return {"name": name, "kind": kind, "cached": cached, "key": key, "pfx": pfx, "args": [list(a) for a in args],
            "buf": buf, "filt": filt, "sig": [dict(p) for p in sig], "kp": kp, "reads": reads, "items": [dict(i) for i in items], "parent": parent}


def item(j, arg="", tm=0, how="call", pos=None, kw=()):
    return {"sec": j, "pos": list(pos) if pos is not None else ([arg] if arg else []), "kw": [list(x) for x in kw], "tm": tm, "how": how}


def tmpl(uri, targs=(), bf=False, en0=True, cached=False, key="static", pfx="", pargs=(), items=(), secs=(), inh=0, psig=(), pkp=None, strict=False, preads=False):
    if pkp is None:
        pkp = 1 if key in ("arg", "argctx") else 0
    return {"uri": list(uri), "targs": [list(a) for a in targs], "bf": bf, "en0": en0, "inh": inh, "strict": strict,
            "isbase": any(i["how"] == "next" for i in items),
            "page": {"cached": cached, "key": key, "pfx": pfx, "args": [list(a) for a in pargs], "sig": [dict(p) for p in psig],
                     "kp": pkp, "reads": preads, "items": [dict(i) for i in items]},
            "secs": list(secs)}


def world(tmpls, passctx=True):
    return finalise({"passctx": passctx, "tmpls": list(tmpls)})


def mc_worlds():
    """Small hand-made worlds for exhaustive model checking (placements of the cached flag)."""
    w1 = world([
        tmpl(["a", ".", "html"], targs=[("type", "s:memory"), ("a", "s:T")], bf=True, pargs=[("a", "s:P"), ("timeout", "s:7")],
             items=[item(1, pos=["A", "B"], kw=[["f", "V"]]), item(1, pos=["V"]), item(2, "A"), item(1, "B", tm=2, how="ns"),
                    item(0, "", tm=2, how="inc")],
             secs=[sec("foo", "def", key="arg", pfx="K1_", args=[("b", "s:D"), ("timeout", "s:34")], buf=True, filt=True,
                       sig=[P("a"), P("r", "var"), P("f", "kwd", "D2")], kp=3),
                   sec("outer", "def", cached=False, items=[item(3, "B")]),
                   sec("inner", "ndef", args=[("a", "s:I")], parent=2)]),
        tmpl(["b", ".", "html"], preads=True, cached=True, key="argctx", pfx="pg_", psig=[P("pa", "def", "D1"), P("pr", "var"), P("ps", "kwd", "D2")], pkp=3,
             items=[item(1, "A")],
             secs=[sec("foo", "def", key="arg", pfx="K1_")]),
    ], passctx=True)
    w2 = world([
        tmpl(["c", ".", "html"], strict=True, targs=[("timeout", "i:60")], cached=True, pargs=[("type", "s:file")],
             items=[item(1), item(2), item(3, "V")],
             bf=True,
             secs=[sec("nb", "nblock", args=[("timeout", "s:3600")], filt=True, buf=True, reads=True),
                   sec("anon1", "ablock", key="mod", pfx="KM_"),
                   sec("bar", "def", key="ctx", pfx="KS_")]),
    ], passctx=False)
    w3 = world([      # inheritance: the child's page runs inside the (cached) page of the base, each with its own cache
        tmpl(["k", ".", "html"], inh=2, items=[item(1, "V")], secs=[sec("foo", "def", key="ctx", pfx="K1_", args=[("a", "s:C")])]),
        tmpl(["lay", ".", "html"], strict=True, targs=[("type", "s:file")], cached=True, pargs=[("timeout", "s:7")],
             items=[item(1, "A"), item(0, "", how="next")], secs=[sec("foo", "def", args=[("a", "s:L"), ("foo", "s:${MK}")], reads=True)]),
    ], passctx=False)
    return [w1, w2, w3]


def mc_worlds_more():
    """Further placements (thorough tier): nested def inside a cached parent, anonymous block inside a def, a cached def
    calling a cached def, caching switched off at construction, colliding URIs."""
    w3 = world([
        tmpl(["d", "-", "e", ".", "html"], targs=[("type", "s:memory")], bf=True, en0=False, items=[item(1, "V"), item(4, "A")],
             secs=[sec("foo", "def", key="ctx", pfx="K1_", buf=True, items=[item(2, "A"), item(3)]),
                   sec("inner", "ndef", key="arg", pfx="K2_", args=[("timeout", "s:7")], buf=True, filt=True, parent=1),
                   sec("anon3", "ablock", args=[("region", "s:r1")], buf=True, parent=1),
                   sec("bar", "def", args=[("type", "s:file")], filt=True)]),
        tmpl(["d", "_", "e", ".", "html"], targs=[("timeout", "i:5")], pargs=[("timeout", "s:3600")], items=[item(1, "A")],
             secs=[sec("bar", "def", items=[item(2, "B")]), sec("baz", "def", key="arg", pfx="K1_")]),
    ], passctx=True)
    return [w3]


def finding_worlds():
    """Tiny worlds in which the code-shaped model can exhibit each recorded deviation."""
    args = world([tmpl(["p", ".", "html"], targs=[("type", "s:memory")], pargs=[("a", "s:P")], items=[item(1, "A")],
                       secs=[sec("foo", "def", args=[("timeout", "s:34")])])], passctx=False)
    iso = world([tmpl(["a", "-", "b", ".", "html"], items=[item(1, "A")], secs=[sec("foo", "def")]),
                 tmpl(["a", "_", "b", ".", "html"], items=[item(1, "A")], secs=[sec("foo", "def")])], passctx=False)
    bfw = world([tmpl(["q", ".", "html"], bf=True, items=[item(1, "A")],
                      secs=[sec("outer", "def", cached=False, items=[item(2, "A")]),
                            sec("inner", "ndef", buf=True, parent=1)])], passctx=False)
    names = world([tmpl(["s", ".", "html"], strict=True, items=[item(1)], secs=[sec("anon1", "ablock", reads=True)])], passctx=False)
    return {"ArgsPrecedence": args, "Isolation": iso, "ReplayExact": bfw, "NamesOnlyOnMiss": names}


def probe_worlds():
    """Signature shapes of CACHED sections on which the wrapper generated by codegen.write_cache_decorator used to fail
    (F72, F73: repaired in /repo).  Kept as positive checks -- the first render must show exactly what the model, i.e. the
    uncached section, shows -- and as detectors of a regression: name -> (world, signature, what)."""
    kwo = world([tmpl(["r", ".", "html"], items=[item(1, pos=["A", "B"], kw=[["s", "V"]])],
                      secs=[sec("foo", "def", sig=[P("a"), P("r", "var"), P("s", "kwo")])])], passctx=False)
    kwo2 = world([tmpl(["r", ".", "html"], items=[item(1, pos=["A"], kw=[["s", "V"]])],
                       secs=[sec("foo", "def", sig=[P("a"), P("d", "def", "D1"), P("r", "var"), P("s", "kwo")])])], passctx=False)
    dv = world([tmpl(["r", ".", "html"], items=[item(1, pos=["A", "B", "V"])],
                     secs=[sec("foo", "def", sig=[P("a"), P("d", "def", "D1"), P("r", "var")])])], passctx=False)
    s1 = ("cached-section-required-keyword-only-parameter",
          "a cached def/page whose signature has a keyword-only parameter WITHOUT default (foo(a, *r, s)) cannot be rendered: the "
          "cache wrapper passes s positionally (lambda: __M_render_foo(context, a, *r, s)) -> TypeError missing keyword-only "
          "argument, or a raw SyntaxError from the generated module when a defaulted parameter precedes it; uncached it works")
    s2 = ("cached-section-defaulted-positional-before-varargs",
          "a cached def with a defaulted positional parameter followed by *args (foo(a, d='D1', *r)) called with extra positional "
          "arguments raises TypeError 'got multiple values for argument d': the cache wrapper calls __M_render_foo(context, a, d=d, *r); "
          "uncached it works")
    return {"kwonly-required": (kwo, s1[0], s1[1]), "kwonly-required-after-default": (kwo2, s1[0], s1[1]), "default-before-varargs": (dv, s2[0], s2[1])}


WORDS = ["a", "b", "idx", "main", "x1"]
PUNCT = ["-", "_", ".", "/", "~", "+"]
ARGNAMES = ["type", "dir", "url", "region", "timeout", "foo"]
ARGVALS = {"type": ["memory", "file", "dbm"], "dir": ["d1", "d2"], "url": ["u1", "u2"], "region": ["r1", "r2"], "foo": ["f1", "f2"]}


def gen_args(rng, profile, p):
    """cache_* attributes of a page / section tag."""
    out = []
    if profile == "rec":
        for n in ARGNAMES:
            if rng.random() < p:
                out.append([n, "s:" + (rng.choice(TIMEOUTS) if n == "timeout" else rng.choice(ARGVALS[n] + (["${MK}"] if n == "foo" else [])))])
        rng.shuffle(out)
    else:
        if rng.random() < p * 2:
            out.append(["timeout", "s:" + rng.choice(LONG_TIMEOUTS)])
    return out


def gen_uri_set(rng, n, collide):
    uris = []
    while len(uris) < n:
        k = rng.choice([1, 2, 2, 3])
        u = []
        for i in range(k):
            u.append(rng.choice(WORDS))
            if i < k - 1:
                u.append(rng.choice(PUNCT))
        u += [".", "html"]
        if collide and uris and rng.random() < 0.7:
            base = uris[-1]
            pos = [i for i, s in enumerate(base[:-2]) if s in PUNCT]
            if pos:
                u = list(base)
                i = rng.choice(pos)
                u[i] = rng.choice([p for p in PUNCT if p != base[i]])
        if not any("".join(u) == "".join(x) for x in uris):
            uris.append(u)
    return uris


SCALAR = ("pos", "def", "kwo", "kwd")


def gen_sig(rng, cached, page=False):
    """A legal signature of up to 4 parameters, for cached and uncached sections alike (the two shapes of probe_worlds()
    included, since the cache wrapper passes positional parameters by position and keyword-only ones by name)."""
    if page:
        # the page body is called without actuals: every parameter needs a default (or is *args)
        n = rng.choice([0, 0, 0, 1, 2, 3])
        kinds = sorted(rng.choice(["def", "var", "kwd"]) for _ in range(n))
        kinds = [k for i, k in enumerate(kinds) if not (k == "var" and "var" in kinds[:i])]
        if "var" not in kinds:
            kinds = ["def" if k == "kwd" else k for k in kinds]
        kinds.sort(key=["def", "var", "kwd"].index)
        names = {"def": iter(["pa", "pb", "pd", "pe"]), "var": iter(["pr"]), "kwd": iter(["ps", "pt", "pu", "pw"])}
    else:
        n = rng.choice([0, 1, 1, 1, 2, 2, 3, 3, 4])
        npos = rng.randint(0, min(n, 2)); n -= npos
        ndef = rng.randint(0, min(n, 2)); n -= ndef
        var = 1 if n and rng.random() < 0.6 else 0; n -= var
        nko = rng.randint(0, n) if var else 0; n -= nko
        kw = 1 if n and rng.random() < 0.6 else 0
        kinds = ["pos"] * npos + ["def"] * ndef + ["var"] * var + [rng.choice(["kwo", "kwd"]) for _ in range(nko)] + ["kw"] * kw
        names = {"pos": iter(["a", "b", "a2", "b2"]), "def": iter(["d", "e"]), "var": iter(["r"]), "kwo": iter(["s", "t", "w", "s2"]),
                 "kwd": iter(["f", "g", "h", "f2"]), "kw": iter(["k"])}
    dflt = iter(["D1", "D2", "D3", "D4"])
    return [P(next(names[k]), k, next(dflt) if k in ("def", "kwd") else "") for k in kinds]


def gen_call(rng, sig):
    """Actuals of a LEGAL call of a callable with signature `sig`: positional / keyword / mixed, defaults left out."""
    def val():
        return rng.choice(["A", "B", "V"])
    pc = [p for p in sig if p["k"] in ("pos", "def")]
    npos = rng.randint(0, len(pc))
    pos, kw = [val() for _ in range(npos)], []
    for p in pc[npos:]:
        if p["k"] == "pos" or rng.random() < 0.5:
            kw.append([p["n"], val()])
    for p in sig:
        if p["k"] == "var" and npos == len(pc):
            pos += [val() for _ in range(rng.choice([0, 1, 2]))]
        elif p["k"] == "kwo" or (p["k"] == "kwd" and rng.random() < 0.5):
            kw.append([p["n"], val()])
        elif p["k"] == "kw":
            kw += [[n, val()] for n in ("k1", "k2") if rng.random() < 0.5]
    rng.shuffle(kw)
    return pos, kw


def pick_kp(rng, sig):
    idx = [i for i, p in enumerate(sig, 1) if p["k"] in SCALAR]
    return rng.choice(idx) if idx else 0


def gen_template(rng, uri, profile, tno):
    nsec = rng.choice([1, 2, 2, 3, 3, 4])
    secs = []
    names = iter(["foo", "bar", "baz", "qux", "zap"])
    for j in range(1, nsec + 1):
        defs_before = [i + 1 for i, s in enumerate(secs) if s["kind"] == "def"]
        kind = rng.choice(["def", "def", "def", "ndef", "nblock", "ablock"])
        if kind == "ndef" and not defs_before:
            kind = "def"
        parent = 0
        if kind == "ndef":
            parent = rng.choice(defs_before)
        elif kind == "ablock" and defs_before and rng.random() < 0.4:
            parent = rng.choice(defs_before)
        name = next(names) if kind != "ablock" else "anon%d" % j
        cached = rng.random() < 0.8
        if kind in ("def", "ndef"):
            key = rng.choice(["static", "static", "static", "ctx", "arg", "arg", "argctx", "mod", "lit"])
        else:
            key = rng.choice(["static", "static", "static", "ctx", "ctx", "mod", "lit"])
        pfx = "" if key == "static" else ("KS_" if rng.random() < 0.2 else "K%d_" % j)
        buf = rng.random() < 0.35          # defs and blocks alike (a buffered block returns its text, the call site writes it)
        filt = rng.random() < 0.3
        secs.append(sec(name, kind, cached=cached, key=key, pfx=pfx, args=gen_args(rng, profile, 0.25), buf=buf, filt=filt, parent=parent,
                        sig=[], kp=0, reads=cached and rng.random() < 0.3))
    # parents of nested defs are mostly left uncached so that the nested section is reached
    for s in secs:
        if s["kind"] == "ndef" and rng.random() < 0.6:
            secs[s["parent"] - 1]["cached"] = False
    for s in secs:
        s["reads"] = s["reads"] and s["cached"]
        if s["kind"] in ("def", "ndef"):
            s["sig"] = gen_sig(rng, s["cached"])
            s["kp"] = pick_kp(rng, s["sig"])
            if s["key"] in ("arg", "argctx") and not s["kp"]:
                s["key"], s["pfx"] = "static", ""

    def call(j, **kw):
        pos, kws = gen_call(rng, secs[j - 1]["sig"])
        return item(j, pos=pos, kw=kws, **kw)
    page_items = []
    for j, s in enumerate(secs, 1):
        if s["kind"] == "def":
            for _ in range(rng.choice([0, 1, 1, 2])):
                page_items.append(call(j))
        elif s["kind"] == "nblock" or (s["kind"] == "ablock" and s["parent"] == 0):
            page_items.append(item(j))
    rng.shuffle(page_items)
    for j, s in enumerate(secs, 1):
        its = []
        if s["kind"] == "def":
            for k, s2 in enumerate(secs, 1):
                if s2["parent"] == j and s2["kind"] == "ndef":
                    for _ in range(rng.choice([1, 1, 2])):
                        its.append(call(k))
                elif s2["parent"] == j and s2["kind"] == "ablock":
                    its.append(item(k))
        for k, s2 in enumerate(secs, 1):
            if k > j and s2["kind"] == "def" and rng.random() < 0.2:
                its.append(call(k))
        rng.shuffle(its)
        s["items"] = its
    # a section never reaches (through calls) a section with a possibly equal key: that would be a cached
    # callable invoking itself under its own key, where "once per key" has no meaning
    def reach(j, seen):
        for it in secs[j - 1]["items"]:
            if it["sec"] not in seen:
                seen.add(it["sec"])
                reach(it["sec"], seen)
        return seen
    for j, s in enumerate(secs, 1):
        for k in reach(j, set()):
            if k != j and secs[k - 1]["pfx"] and secs[k - 1]["pfx"] == s["pfx"]:
                secs[k - 1]["pfx"] = "K%d_" % k
    # a top-level def nobody calls is called from the body
    called = {i["sec"] for s in secs for i in s["items"]} | {i["sec"] for i in page_items}
    for j, s in enumerate(secs, 1):
        if s["kind"] == "def" and j not in called:
            page_items.append(call(j))
    if profile == "rec":
        targs = [[n, ("i:%d" % rng.choice([5, 60]) if n == "timeout" else "s:" + rng.choice(ARGVALS[n]))] for n in ARGNAMES if rng.random() < 0.3]
    elif profile == "beaker-mem":
        targs = [["type", "s:memory"]]
    elif profile == "beaker-file":
        targs = [["type", "s:file"], ["dir", "s:@DIR"]]
    elif profile == "beaker-dbm":
        targs = [["type", "s:dbm"], ["dir", "s:@DIR"]]
    else:  # dogpile: one region per template (the plugin does not namespace keys by cache id)
        targs = [["regions", "o:dict"], ["region", "s:r%d" % tno]]
    pcached = rng.random() < 0.3
    psig = gen_sig(rng, pcached, page=True)                   # <%page args="pa='D1', *pr, ps='D2'"/>
    pkp = pick_kp(rng, psig)
    pkey = rng.choice(["static", "static", "ctx", "mod", "lit"] + (["arg", "argctx"] if pkp else [])) if pcached else "static"
    return {"uri": uri, "targs": targs, "bf": rng.random() < 0.4, "en0": rng.random() < 0.85, "inh": 0, "isbase": False,
            "strict": rng.random() < 0.45,
            "page": {"cached": pcached, "key": pkey, "pfx": "" if pkey == "static" else "pg_", "args": gen_args(rng, profile, 0.2),
                     "sig": psig, "kp": pkp, "reads": pcached and rng.random() < 0.3, "items": page_items},
            "secs": secs}


def gen_world(rng, profile):
    n = rng.choice([1, 2, 2, 3])
    collide = profile != "dogpile" and rng.random() < 0.35
    uris = gen_uri_set(rng, n, collide)
    # dogpile.cache: storage is per region (one per template here), not per cache id, so worlds whose cache ids
    # collide are not generated for it (the model keys the store by cache id)
    while profile == "dogpile" and len({re.sub(r"\W", "_", "".join(u)) for u in uris}) < len(uris):
        uris = gen_uri_set(rng, n, False)
    tmpls = [gen_template(rng, u, profile, i + 1) for i, u in enumerate(uris)]
    if profile != "dogpile" and rng.random() < 0.3:
        # one configuration for all templates: the driver may then configure the TemplateLookup instead of each Template
        for t in tmpls[1:]:
            t["targs"], t["en0"], t["bf"], t["strict"] = copy.deepcopy(tmpls[0]["targs"]), tmpls[0]["en0"], tmpls[0]["bf"], tmpls[0]["strict"]
    # calls across templates: a def of a later template through <%namespace>, or <%include> of a later template (never
    # between templates whose cache ids collide: a section could then reach a section with its own key, see gen_template)
    san = [re.sub(r"\W", "_", "".join(u)) for u in uris]
    distinct_ids = len(set(san)) == len(san)       # worlds with colliding cache ids: the templates only share the backend
    for i, t in enumerate(tmpls):
        for k in range(i + 1, len(tmpls)):
            if not distinct_ids or rng.random() < 0.55:
                continue
            hosts = [t["page"]] + [x for x in t["secs"] if x["kind"] == "def"]
            for _ in range(rng.choice([1, 1, 2])):
                host = rng.choice(hosts)
                defs = [j for j, x in enumerate(tmpls[k]["secs"], 1) if x["kind"] == "def"]
                if defs and rng.random() < 0.6:
                    j = rng.choice(defs)
                    pos, kws = gen_call(rng, tmpls[k]["secs"][j - 1]["sig"])
                    it = item(j, pos=pos, kw=kws, tm=k + 1, how="ns")
                else:
                    it = item(0, "", tm=k + 1, how="inc")
                host["items"].insert(rng.randrange(len(host["items"]) + 1), it)
    # one inheriting pair: the base's page calls next.body(); neither has named blocks (overriding is C06's subject),
    # the base is not included by anybody and is only rendered through the child
    if len(tmpls) >= 2 and distinct_ids and rng.random() < 0.7:
        i = rng.randrange(len(tmpls) - 1)
        k = rng.randrange(i + 1, len(tmpls))
        if san[i] != san[k]:
            for t in (tmpls[i], tmpls[k]):
                for j, x in enumerate(t["secs"], 1):
                    if x["kind"] == "nblock":
                        x["kind"], x["name"] = "ablock", "anon%d" % j
            for t in tmpls:
                for x in [t["page"]] + t["secs"]:
                    x["items"] = [it for it in x["items"] if not (it["how"] == "inc" and it["tm"] == k + 1)]
            tmpls[i]["inh"] = k + 1
            tmpls[k]["isbase"] = True
            its = tmpls[k]["page"]["items"]
            its.insert(rng.randrange(len(its) + 1), item(0, "", how="next"))
    return finalise({"passctx": profile == "rec" and rng.random() < 0.5, "tmpls": tmpls})


def finalise(w):
    """Name anonymous blocks as Mako will (__M_anon_<line of the tag>): the layout, hence the line, does not
    depend on the name.  Keys of colliding templates then collide in the model exactly as they do in reality."""
    for tno, t in enumerate(w["tmpls"], 1):
        _, anon = template_text(w, tno)
        for s in t["secs"]:
            if s["kind"] == "ablock":
                s["name"] = anon.get(s["name"], s["name"])
        _, anon2 = template_text(w, tno)
        if any(k != v for k, v in anon2.items()):
            raise MachineryError("concretisation: anonymous block names are not stable: %r" % (anon2,))
    return w


def progs_module(worlds):
    def strip(w):
        w = copy.deepcopy(w)
        for t in w["tmpls"]:
            for s in t["secs"]:
                s.pop("parent", None)
        return w
    return "---- MODULE CacheProgs ----\nProgsDef == %s\n====\n" % core.to_tla([strip(w) for w in worlds])


# --------------------------------------------------------------------------- concretisation
def untag(v):
    return v[2:]


UTOK = "(u:0:${u}::0)"       # a body that reads the context name u, which a render may leave out


def sig_text(sig):
    f = {"pos": "%(n)s", "def": "%(n)s='%(d)s'", "var": "*%(n)s", "kwo": "%(n)s", "kwd": "%(n)s='%(d)s'", "kw": "**%(n)s"}
    return ", ".join(f[p["k"]] % p for p in sig)


def fields_text(sig):
    """What a body prints of its parameters: one comma-separated field per parameter (see parse_binding)."""
    f = {"var": "${'+'.join(%s)}", "kw": "${'+'.join('%%s=%%s' %% kv for kv in sorted(%s.items()))}"}
    return ",".join(f.get(p["k"], "${%s}") % p["n"] for p in sig)


def actuals_text(it):
    def a(v):
        return "v" if v == "V" else "'%s'" % v
    return ", ".join([a(v) for v in it["pos"]] + ["%s=%s" % (n, a(v)) for n, v in it["kw"]])


def attrs_of(s, is_page=False):
    a = []
    x = s["sig"][s["kp"] - 1]["n"] if s.get("kp") else "?"       # the parameter the cache_key mentions
    # (page parameters are named p*: <%include> fills page arguments from same-named context data)
    if s["cached"]:
        a.append('cached="True"')
    if s["key"] == "ctx":
        a.append('cache_key="%s${v}"' % s["pfx"])
    elif s["key"] == "arg":
        a.append('cache_key="%s${%s}"' % (s["pfx"], x))
    elif s["key"] == "argctx":
        a.append('cache_key="%s${%s}_${v}"' % (s["pfx"], x))
    elif s["key"] == "mod":
        a.append('cache_key="%s${MK}"' % s["pfx"])
    elif s["key"] == "lit":
        a.append('cache_key="%slit"' % s["pfx"])
    if is_page and s.get("sig"):
        a.append('args="%s"' % sig_text(s["sig"]))
    for n, v in s["args"]:
        a.append('cache_%s="%s"' % (n, untag(v)))
    if not is_page:
        if s["buf"]:
            a.append('buffered="True"')
        if s["filt"]:
            a.append('filter="ff"')
    return " ".join(a)


def template_text(w, tno=1, uris=None):
    """Template source of template number `tno` of world `w`; returns (text, {abstract anon name: '__M_anon_<line>'}).
    `uris`: concrete URIs of the world's templates (for <%namespace>/<%include>); placeholders when None."""
    t = w["tmpls"][tno - 1]
    secs = t["secs"]
    anon_order = []

    def uri_of(k):
        return uris[k - 1] if uris else "/w/t%d" % k

    def token(s):
        return "(%s:${c.tick('%d.%s')}:${v}:%s:%d)%s" % (s["name"], tno, s["name"], fields_text(s["sig"]), tno, UTOK if s.get("reads") else "")

    def call(it, others):
        if it["how"] == "inc":
            return '<%%include file="%s"/>' % uri_of(it["tm"])
        if it["how"] == "next":
            return "${next.body()}"
        a = actuals_text(it)
        if it["how"] == "ns":
            return "${n%d.%s(%s)}" % (it["tm"], others[it["tm"]][it["sec"] - 1], a)
        s = secs[it["sec"] - 1]
        if s["kind"] in ("def", "ndef"):
            return "${%s(%s)}" % (s["name"], a)
        if s["kind"] == "nblock":
            return '\n<%%block name="%s" %s>%s</%%block>\n' % (s["name"], attrs_of(s), body(it["sec"], others))
        anon_order.append(s["name"])
        return "\n<%%block %s>%s</%%block>\n" % (attrs_of(s), body(it["sec"], others))

    def body(j, others):
        s = secs[j - 1]
        out = [token(s)]
        for k, s2 in enumerate(secs, 1):
            if s2["kind"] == "ndef" and s2.get("parent") == j:
                out.append('\n<%%def name="%s(%s)" %s>%s</%%def>\n' % (s2["name"], sig_text(s2["sig"]), attrs_of(s2), body(k, others)))
        for it in s["items"]:
            out.append(call(it, others))
        return "".join(out)

    others = {k: [x["name"] for x in tt["secs"]] for k, tt in enumerate(w["tmpls"], 1)}
    parts = ['<%!\nMK = "m"\ndef ff(s):\n    return "{" + s + "}"\ndef bf(s):\n    return "<" + s + ">"\n%>\n']
    pg = dict(t["page"], buf=False, filt=False)
    pa = attrs_of(pg, is_page=True)
    if pa:
        parts.append("<%%page %s/>\n" % pa)
    if t.get("inh"):
        parts.append('<%%inherit file="%s"/>\n' % uri_of(t["inh"]))
    used = sorted({it["tm"] for s in [t["page"]] + secs for it in s["items"] if it["how"] == "ns"})
    for k in used:
        parts.append('<%%namespace name="n%d" file="%s"/>\n' % (k, uri_of(k)))
    for j, s in enumerate(secs, 1):
        if s["kind"] == "def":
            parts.append('<%%def name="%s(%s)" %s>%s</%%def>\n' % (s["name"], sig_text(s["sig"]), attrs_of(s), body(j, others)))
    parts.append("(body:${c.tick('%d.body')}:${v}:%s:%d)%s" % (tno, fields_text(t["page"]["sig"]), tno, UTOK if t["page"].get("reads") else ""))
    for it in t["page"]["items"]:
        parts.append(call(it, others))
    text = "".join(parts)
    anon = {}
    tags = [m.start() for m in re.finditer(r"<%block(?![^>]*\bname=)", text)]
    if len(tags) != len(anon_order):
        raise MachineryError("concretisation: %d anonymous block tags for %d sections" % (len(tags), len(anon_order)))
    for pos, name in zip(tags, anon_order):
        anon[name] = "__M_anon_%d" % (text.count("\n", 0, pos) + 1)
    return text, anon


TOKEN = re.compile(r"\((\w+):(\d+):(\w*):([\w,+=]*):(\d+)\)|([{}<>])|(\s+)|([^\s(){}<>]+|[()])")


def parse_binding(text, sig):
    """The parameter fields a body printed -> binding as in Cache.tla (one list of strings per parameter); None if the
    text does not have one field per parameter."""
    if not sig:
        return [] if text == "" else None
    fs = text.split(",")
    if len(fs) != len(sig):
        return None
    out = []
    for f, p in zip(fs, sig):
        if p["k"] == "var":
            out.append(f.split("+") if f else [])
        elif p["k"] == "kw":
            out.append([x for kv in f.split("+") for x in kv.split("=", 1)] if f else [])
        else:
            out.append([f])
    return out


def parse_out(s, w=None):
    """Rendered text -> tokens [name, n, ctx, binding, template] (brackets: [b, 0, '', [], 0])."""
    if not isinstance(s, str):
        return [["?type:" + type(s).__name__, 0, "", [], 0]]
    out = []
    for m in TOKEN.finditer(s):
        if m.group(1) is not None:
            name, tno = m.group(1), int(m.group(5)) % 1000
            sig = None
            if w is not None and 1 <= tno <= len(w["tmpls"]):
                tt = w["tmpls"][tno - 1]
                sig = tt["page"]["sig"] if name == "body" else next((x["sig"] for x in tt["secs"] if x["name"] == name), None)
            b = parse_binding(m.group(4), sig if sig is not None else [])
            if b is None:
                out.append(["?raw:" + m.group(0)[:30], 0, "", [], 0])
            else:
                out.append([name, int(m.group(2)) % 10 ** 6, m.group(3), b, tno])
        elif m.group(6):
            out.append([m.group(6), 0, "", [], 0])
        elif m.group(7):
            continue
        else:
            out.append(["?raw:" + m.group(0)[:20], 0, "", [], 0])
    return out


class Counter:
    def __init__(self):
        self.n = {}

    def tick(self, name):
        self.n[name] = self.n.get(name, 0) + 1
        return self.n[name]


class OpTimeout(BaseException):
    """Raised by the watchdog of Driver.op (BaseException: template code must not swallow it)."""


class Driver:
    """Real templates of one world sharing one backend."""
    dead = False

    def __init__(self, w, backend, hid, scratch):
        from mako.template import Template
        self.w = w
        self.backend = backend
        self.prefix = "/h%d" % hid
        self.rec = cb.Recorder(pass_context=bool(w["passctx"]))
        self.dir = os.path.join(scratch, "bk-%d" % hid)
        self.tm = []
        self.anon = []
        self.ranon = []
        self.counter = Counter()
        self.texts = []
        self.nset = 0
        self.regions = None
        if backend == "rec":
            cb.install(self.rec)
        elif backend == "dogpile":
            from dogpile.cache import make_region
            self.regions = {"r%d" % (i + 1): make_region().configure("dogpile.cache.memory") for i in range(len(w["tmpls"]))}
        from mako.lookup import TemplateLookup
        import random
        # free choices of the concretisation (they do not change the expected behaviour): cache_args vs the deprecated
        # cache_type/cache_dir/cache_url arguments, configuration on the Template vs on the TemplateLookup (put_string),
        # render() vs render_context(), cache.set vs cache.put
        self.cos = random.Random(hid)
        impl = {"rec": cb.PLUGIN, "beaker-mem": "beaker", "beaker-file": "beaker", "beaker-dbm": "beaker", "dogpile": "dogpile.cache"}[backend]
        self.uris = [self.prefix + "/" + "".join(t["uri"]) for t in w["tmpls"]]
        conf = [(t["targs"], t["en0"], t["bf"], t["strict"]) for t in w["tmpls"]]
        opts = {"enable_loop": self.cos.random() < 0.7}                      # (no template uses `loop`)
        if self.cos.random() < 0.3:
            opts["imports"] = ["import re as imported_re"]
        self.via_lookup = all(c == conf[0] for c in conf) and self.cos.random() < 0.6
        self.lookup = TemplateLookup()
        for tno, t in enumerate(w["tmpls"], 1):
            text, anon = template_text(w, tno, self.uris)
            self.texts.append(text)
            self.anon.append(anon)
            self.ranon.append({v: k for k, v in anon.items()})
            targs = {}
            for n, v in t["targs"]:
                if v == "o:dict":
                    targs[n] = self.regions
                elif v == "s:@DIR":
                    targs[n] = self.dir
                elif v.startswith("i:"):
                    targs[n] = int(v[2:])
                else:
                    targs[n] = v[2:]
            ckw = {"cache_args": targs}
            if targs and set(targs) <= {"type", "dir", "url"} and all(isinstance(x, str) for x in targs.values()) and self.cos.random() < 0.5:
                ckw = {"cache_" + n: x for n, x in targs.items()}           # deprecated spelling
            if self.via_lookup:
                if tno == 1:
                    self.lookup = TemplateLookup(cache_impl=impl, strict_undefined=bool(t["strict"]), buffer_filters=["bf"] if t["bf"] else [], **opts,
                                                 cache_enabled=bool(t["en0"]), **ckw)
                self.lookup.put_string(self.uris[tno - 1], text)
                tp = self.lookup.get_template(self.uris[tno - 1])
            else:
                tp = Template(text, uri=self.uris[tno - 1], lookup=self.lookup, cache_impl=impl,
                              strict_undefined=bool(t["strict"]), buffer_filters=["bf"] if t["bf"] else [], cache_enabled=bool(t["en0"]),
                              **opts, **ckw)
                self.lookup.put_template(self.uris[tno - 1], tp)
            if backend != "rec":
                tp.cache.impl = cb.RecordingProxy(tp.cache.impl, self.rec)
            else:
                tp.cache  # build the Cache object (and its impl) now, under this history's recorder
            self.tm.append(tp)

    # ---- projection
    def _ns(self, s):
        p = re.sub(r"\W", "_", self.prefix) + "_"
        if isinstance(s, str) and s.startswith(p):
            s = s[len(p):]
        return re.findall(r"[A-Za-z0-9]+|_|[^A-Za-z0-9_]", str(s))

    def _key(self, t, k):
        if not isinstance(k, str):
            return ["?", tag_of(k)]
        pf = {"render_"}
        for tt in self.w["tmpls"]:
            pf |= {s["pfx"] for s in tt["secs"] if s["pfx"]} | ({tt["page"]["pfx"]} - {""})
        best = ""
        for p in pf:
            if k.startswith(p) and len(p) > len(best):
                best = p
        rest = k[len(best):]
        if best not in ("", "render_") and "_" in rest:      # <pfx>${x}_${v}
            return [best] + rest.split("_", 1)
        return [best, self.ranon[t - 1].get(rest, rest)]

    def conc_key(self, t, k):
        if len(k) == 3:
            return k[0] + k[1] + "_" + k[2]
        return k[0] + self.anon[t - 1].get(k[1], k[1])

    def _calls(self, t):
        out = []
        for c in self.rec.take():
            kw = [[n, ("s:@DIR" if v == "s:" + self.dir else v)] for n, v in c["kw"]]
            out.append({"op": c["op"], "ns": self._ns(c["ns"]), "key": self._key(t, c["key"]), "kw": kw})
        return out

    def _store(self):
        out = []
        owners = {}
        for i, tp in enumerate(self.tm, 1):
            owners.setdefault(self._cache_id(tp), i)
        for ns, d in self.rec.store.items():
            t = owners.get(ns, 1)
            for k, v in d.items():
                out.append([self._ns(ns), self._key(t, k), parse_out(v, self.w)])
        out.sort(key=json.dumps)
        return out

    @staticmethod
    def _cache_id(tp):
        try:
            return tp.cache.id
        except Exception:  # noqa
            return None

    def _finish(self, e, t):
        e["calls"] = self._calls(t)
        e["hasstore"] = self.backend == "rec"
        e["store"] = self._store() if self.backend == "rec" else []
        return e

    def execs(self):
        c = self.counter.n
        return [[c.get("%d.body" % k, 0)] + [c.get("%d.%s" % (k, s["name"]), 0) for s in tt["secs"]]
                for k, tt in enumerate(self.w["tmpls"], 1)]

    # ---- operations (total: an unexpected exception is an observation)
    def op(self, o):
        """One operation under a watchdog: mutated code may block for ever (e.g. a cached callable re-entering
        dogpile's per-key lock under its own key); a hang is an observation ("exc:OpTimeout"), after which the
        history is abandoned (self.dead) because locks may be left held."""
        import signal

        def on_alarm(signum, frame):
            raise OpTimeout()
        old = signal.signal(signal.SIGALRM, on_alarm)
        signal.setitimer(signal.ITIMER_REAL, core.tscale(5))
        try:
            return self._op(o)
        except OpTimeout:
            self.dead = True
            e = dict(o)
            if o["ev"] in ("render", "renderdef"):
                e["out"], e["execs"] = [["exc:OpTimeout", 0, "", [], 0]], self.execs()
                if o["ev"] == "render":
                    e["hasu"], e["raised"] = bool(o.get("hasu", True)), False
            self.rec.take()
            e.update(calls=[{"op": "exc:OpTimeout", "ns": [], "key": ["", ""], "kw": []}], hasstore=False, store=[])
            return e
        finally:
            signal.setitimer(signal.ITIMER_REAL, 0)
            signal.signal(signal.SIGALRM, old)

    def _op(self, o):
        ev, t = o["ev"], o["t"]
        tp = self.tm[t - 1]
        e = dict(o)
        exc = None
        xkw = {"timeout": 9999} if o.get("x") else {}
        try:
            if ev in ("render", "renderdef"):
                self.rec.counter = self.counter
                hasu = ev == "renderdef" or o.get("hasu", True)
                data = dict(c=self.counter, v=o["c"], **({"u": "ann"} if hasu else {}))
                if ev == "render":
                    e["hasu"], e["raised"] = hasu, False
                try:
                    if ev == "renderdef":
                        sg = next(x["sig"] for x in self.w["tmpls"][t - 1]["secs"] if x["name"] == o["name"])
                        req = {p["n"]: o["arg"] for p in sg if p["k"] == "pos"}
                        text = tp.get_def(o["name"]).render(**data, **req)
                    elif self.cos.random() < 0.3:
                        import io
                        from mako.runtime import Context
                        buf = io.StringIO()
                        tp.render_context(Context(buf, **data))
                        text = buf.getvalue()
                    else:
                        text = tp.render(**data)
                    e["out"] = parse_out(text, self.w)
                except Exception as ex:  # noqa
                    e["out"] = [["exc:" + type(ex).__name__, 0, "", [], 0]]
                    if ev == "render" and not hasu and isinstance(ex, NameError):
                        # a look-up of the missing name failed: the history ends here (partial effects are not modelled)
                        e["raised"], self.dead = True, True
                e["execs"] = self.execs()
            elif ev == "invbody":
                tp.cache.invalidate_body()
            elif ev == "invdef":
                tp.cache.invalidate_def(o["name"])
            elif ev == "invclosure":
                tp.cache.invalidate_closure(self.anon[t - 1].get(o["name"], o["name"]))
            elif ev == "inv":
                tp.cache.invalidate(self.conc_key(t, o["key"]), **xkw)
            elif ev == "set":
                self.nset += 1
                e["n"] = self.nset
                (tp.cache.set if self.cos.random() < 0.5 else tp.cache.put)(self.conc_key(t, o["key"]), "(set:%d:::0)" % self.nset, **xkw)
            elif ev == "get":
                try:
                    r = tp.cache.get(self.conc_key(t, o["key"]), **xkw)
                except KeyError:
                    r = None
                if r is None or type(r).__name__ == "NoValue":
                    e["found"], e["res"] = False, []
                else:
                    e["found"], e["res"] = True, parse_out(r, self.w)
            elif ev == "toggle":
                tp.cache_enabled = not tp.cache_enabled
                e["en"] = bool(tp.cache_enabled)
            else:
                raise MachineryError("unknown operation %r" % (o,))
        except (MachineryError, OpTimeout):
            raise
        except Exception as ex:  # noqa
            exc = "exc:" + type(ex).__name__
        e = self._finish(e, t)
        if exc:
            e["calls"].append({"op": exc, "ns": [], "key": ["", ""], "kw": []})
        return e


def tag_of(v):
    return cb.tag(v)


# --------------------------------------------------------------------------- spec state -> expected observation
def _kw(v):
    if isinstance(v, dict):
        return sorted([k, x] for k, x in v.items())
    return []


def expected_of(st, w):
    """Projection of a spec state (parsed from TLC output) to the shape Driver.op produces."""
    last = st["last"]
    op = last["op"]
    e = {"ev": op}
    if op == "init":
        return e
    t = last["t"]
    e["t"] = t
    if op == "raised":
        return {"ev": "render", "t": t, "c": last["c"], "hasu": False, "raised": True, "out": [["exc:NameError", 0, "", [], 0]]}
    e["calls"] = [{"op": c["op"], "ns": list(c["ns"]), "key": list(c["key"]), "kw": _kw(c["kw"])} for c in (last.get("calls") or [])]
    if op in ("render", "renderdef"):
        if op == "renderdef":
            e["name"], e["arg"] = last["name"], last["arg"]
        e["c"] = last["c"]
        if op == "render":
            e["hasu"], e["raised"] = last["h"], False
        e["out"] = [list(x) for x in (last["out"] or [])]
        e["execs"] = [[(st["execs"][k - 1] if isinstance(st["execs"], list) else st["execs"][k])[j] for j in range(len(tt["secs"]) + 1)]
                      for k, tt in enumerate(w["tmpls"], 1)]
    elif op in ("invdef", "invclosure"):
        e["name"] = last["name"]
    elif op in ("inv", "set", "get"):
        e["key"] = list(last["key"])
        e["x"] = last["x"]
        if op == "set":
            e["n"] = last["n"]
        if op == "get":
            e["found"] = last["found"]
            e["res"] = [list(x) for x in (last["res"] or [])]
    elif op == "toggle":
        e["en"] = last["en"]
    store = []
    sd = st["store"]
    if isinstance(sd, dict):
        for ns, d in sd.items():
            if isinstance(d, dict):
                for k, ent in d.items():
                    store.append([json.loads(ns), json.loads(k), [list(x) for x in ent["val"]]])
    store.sort(key=json.dumps)
    e["store"] = store
    return e


CMP_FIELDS = ["raised", "out", "execs", "found", "res", "en", "n", "calls", "store"]


def compare(exp, obs, with_store):
    for f in CMP_FIELDS:
        if f == "store" and not with_store:
            continue
        if f in exp and exp[f] != obs.get(f):
            return f
    return None


def replay_behaviour(states, w, backend, hid, scratch, corrupt=None):
    """states: spec states (dicts) of one behaviour.  Returns None or a mismatch description."""
    try:
        d = Driver(w, backend, hid, scratch)
    except MachineryError:
        raise
    except Exception as ex:  # noqa -- a template that does not even compile on this tree is an observation
        return {"step": 0, "clause": "construct", "op": "construct", "expected": "templates compile", "observed": "exc:%s: %s" % (type(ex).__name__, ex)}
    hist = []
    for idx, st in enumerate(states):
        exp = expected_of(st, w)
        if exp["ev"] == "init":
            continue
        if corrupt and corrupt[0] == idx:
            corrupt[1](exp)
        o = {k: exp[k] for k in ("ev", "t", "c", "name", "key", "x", "arg", "hasu") if k in exp}
        obs = d.op(o)
        hist.append(o)
        f = compare(exp, obs, backend == "rec")
        if f:
            return {"step": idx, "clause": f, "op": exp["ev"], "history": hist, "expected": exp.get(f), "observed": obs.get(f),
                    "templates": d.texts}
    return None


# --------------------------------------------------------------------------- TLC configurations
def cfg(as_coded, ops, invariants, depth=None, xvals="{FALSE, TRUE}"):
    s = ("CONSTANTS CtxVals = {%s}  AsCoded = {%s}  Ops = {%s}%s  XVals = " + xvals + "\nSPECIFICATION Spec\nCHECK_DEADLOCK FALSE\n")
    s = (s % (", ".join('"%s"' % c for c in CTX_VALS), ", ".join('"%s"' % d for d in as_coded), ", ".join('"%s"' % o for o in ops),
            ("  Depth = %d" % depth) if depth is not None else "  Depth = 1000"))
    if depth is not None:
        s += "CONSTRAINT Bound\n"
    for i in invariants:
        s += "INVARIANT %s\n" % i
    return s


STRICT = ["AtMostOncePerKey", "ExecIffMiss", "ReplayExact", "DisabledExecutesAlways", "ArgsPrecedence", "Isolation", "NamesOnlyOnMiss"]
WEAK = ["AtMostOncePerKey", "ExecIffMiss", "ReplayExactW", "DisabledExecutesAlways", "ArgsPrecedenceW", "IsolationW", "NamesOnlyOnMissW"]


def trace_cfg():
    return ("CONSTANTS CtxVals = {%s}  AsCoded = {%s}  Ops = {%s}  XVals = {FALSE, TRUE}\nSPECIFICATION TSpec\nCHECK_DEADLOCK FALSE\n"
            % (", ".join('"%s"' % c for c in CTX_VALS), ", ".join('"%s"' % d for d in DEVS), ", ".join('"%s"' % o for o in ALL_OPS)))


# --------------------------------------------------------------------------- V: record histories
def keys_of(t):
    ks = []
    secs = [dict(t["page"], name="body", kind="page")] + t["secs"]
    for s in secs:
        if not s["cached"]:
            continue
        if s["key"] == "static":
            ks.append(["render_" if s["kind"] in ("page", "def", "nblock") else "", s["name"]])
        elif s["key"] == "ctx":
            ks += [[s["pfx"], c] for c in CTX_VALS]
        elif s["key"] == "arg":
            ks += [[s["pfx"], a] for a in ["A", "B", "D2"] + CTX_VALS]
        elif s["key"] == "argctx":
            ks += [[s["pfx"], a, c] for a in ["A", "B"] + CTX_VALS for c in CTX_VALS]
        elif s["key"] == "lit":
            ks.append([s["pfx"], "lit"])
        else:
            ks.append([s["pfx"], "m"])
    return ks


def random_history(rng, w, n_ops, allow_set):
    ops = []
    for _ in range(n_ops):
        t = rng.randrange(len(w["tmpls"])) + 1
        tt = w["tmpls"][t - 1]
        kind = rng.choice(["render"] * 6 + ["renderdef", "invbody", "invdef", "invdef", "invclosure", "invclosure", "inv", "inv", "set", "get", "toggle"])
        if kind == "render":
            if not tt["isbase"]:
                ops.append({"ev": "render", "t": t, "c": rng.choice(CTX_VALS), "hasu": rng.random() < 0.7})
        elif kind == "renderdef":
            names = [s["name"] for s in tt["secs"] if s["kind"] == "def" and not s["buf"] and all(p["k"] not in ("kwo", "kw") for p in s["sig"])]
            if names:
                ops.append({"ev": "renderdef", "t": t, "name": rng.choice(names), "arg": rng.choice(["A", "B"]), "c": rng.choice(CTX_VALS)})
        elif kind == "invbody":
            if tt["page"]["cached"]:
                ops.append({"ev": "invbody", "t": t})
        elif kind in ("invdef", "invclosure"):
            kinds = ("def", "nblock") if kind == "invdef" else ("ndef", "ablock")
            names = [s["name"] for s in tt["secs"] if s["kind"] in kinds and s["cached"]]
            if names:
                ops.append({"ev": kind, "t": t, "name": rng.choice(names)})
        elif kind in ("inv", "set", "get"):
            ks = keys_of(tt)
            if ks and (kind != "set" or allow_set):
                ops.append({"ev": kind, "t": t, "key": rng.choice(ks), "x": rng.random() < 0.3})
        else:
            ops.append({"ev": "toggle", "t": t})
    return ops


def record(w, ops, backend, hid, scratch):
    d = Driver(w, backend, hid, scratch)
    ev = []
    for o in ops:
        ev.append(d.op(o))
        if d.dead:
            break
    return ev, d.texts


# --------------------------------------------------------------------------- the check
def ops_of(events):
    return [{k: x for k, x in e.items() if k in ("ev", "t", "c", "name", "key", "x", "arg", "hasu")} for e in events]


def judge_trace(run, t, w, profile, texts, v):
    """Turn the verdict of Trace_Cache on one recorded history into violations / known findings."""
    if not v["ok"]:
        i = v["i"]
        e = t["events"][i - 1] if i else None
        run.violation("trace:%s:%s" % (e["ev"] if e else "?", v["clause"]),
                      "recorded history (%s backend) not explained by Cache.tla at event %d (%s): %s"
                      % (profile, i, v["clause"], json.dumps(e)[:400]),
                      {"backend": profile, "world": w, "ops": ops_of(t["events"][:i]), "templates": texts, "events": t["events"][:i], "verdict": v})
    else:
        for f in v.get("findings", []):
            sig, what = SIG[f]
            run.violation(sig, what, {"backend": profile, "world": w, "ops": ops_of(t["events"]), "templates": texts,
                                      "uris": ["".join(x["uri"]) for x in w["tmpls"]],
                                      "source": "recorded history; Trace_Cache: strict invariant %s violated, history otherwise explained" % f})


def replay_file(run, path):
    """bin/check C17 --replay <file>: run the stored operations on real templates again, let Trace_Cache judge."""
    with open(path) as f:
        body = json.load(f)["replay"]
    core.EVIDENCE_DIR = run.subdir("evidence")     # a replay must not overwrite the evidence of the last full run
    w, ops, profile = body["world"], body["ops"], body.get("backend", "rec")
    ev, texts = record(w, ops, profile, 1, run.scratch)
    t = {"id": 1, "pg": 1, "events": ev}
    v = _validate(run, [t], [w], "replay", False)[1]
    print("replay of %s: %s" % (path, json.dumps(v)))
    judge_trace(run, t, w, profile, texts, v)
    return {"rule": "one stored history re-recorded from real templates and validated against Trace_Cache.tla", "exhaustive": False}


def installed(profile):
    """Beaker / dogpile.cache are optional third-party backends ("when installed")."""
    import importlib
    mod = {"beaker-mem": "beaker.cache", "beaker-file": "beaker.cache", "beaker-dbm": "beaker.cache", "dogpile": "dogpile.cache"}.get(profile)
    if mod is None:
        return True
    try:
        importlib.import_module(mod)
        return True
    except ImportError:
        return False


def check(run):
    if getattr(run, "replay_path", None):
        return replay_file(run, run.replay_path)
    thorough = run.thorough
    rng = run.rng
    hid = [0]

    def next_hid():
        hid[0] += 1
        return hid[0]

    # ------------------------------------------------------------------ 1. exhaustive model checking
    mcw = mc_worlds() + (mc_worlds_more() if thorough else [])
    pm = progs_module(mcw)
    small_ops = ["render", "invbody", "invdef", "invclosure", "toggle"]
    d_main = 6 if thorough else 5
    d_all = 3
    acts = {}
    # vacuity: TLC's coverage statistics on a one-template world in which every action is enabled (their cost grows with
    # the size of the worlds literal: 20 s on the worlds below, so the big runs go without)
    # (vacuity is judged from the operations of the replayed behaviours, see op_counts below; TLC's own coverage run on a
    # one-template world ran out of a 3 GB heap once the worlds carried option and signature dimensions, so it is optional)
    if thorough and os.environ.get("VERIF_C17_COVER"):
        res = _tlc(run, "MC_Cache", cfg(DEVS, ALL_OPS, WEAK, 2), name="mc-cover", coverage=True, timeout=600,
                      extra_files={"CacheProgs.tla": progs_module([mcw[1]])}, workers=4)
        if res.violated:
            run.spec_violation(res, "TLC: %s violated in Cache.tla (mc-cover)" % res.violated)
        for a, (dd, g) in res.coverage.items():
            acts[a] = acts.get(a, 0) + g
        for a in ("DoRender", "DoRenderDef", "DoInvBody", "DoInvDef", "DoInvClosure", "DoInvalidate", "DoSet", "DoGet", "DoToggle"):
            if not acts.get(a):
                raise MachineryError("vacuous model checking: action %s never taken (%s)" % (a, acts))
        run.extra["tlc_action_coverage"] = acts
    both = "{FALSE, TRUE}"
    for name, devs, invs, ops, depth, xv in [
        ("mc-intended", [], STRICT, small_ops, d_main, both),
        ("mc-intended-allops", [], STRICT, ALL_OPS, d_all, both if thorough else "{FALSE}"),
        ("mc-ascoded", DEVS, WEAK, small_ops, d_main, both),
        ("mc-ascoded-allops", DEVS, WEAK, ALL_OPS, d_all, both if thorough else "{FALSE}"),
        ("mc-ascoded-xkw", DEVS, WEAK, ["render", "inv", "set", "get"], d_all, "{TRUE}"),     # explicit **kw on get/set/invalidate
    ]:
        res = _tlc(run, "MC_Cache", cfg(devs, ops, invs, depth, xvals=xv), name=name, timeout=1500,
                      extra_files={"CacheProgs.tla": pm if thorough or not name.endswith("-xkw") else progs_module([mcw[1]])},
                      workers=None if thorough else 8)
        if res.violated:
            run.spec_violation(res, "TLC: %s violated in Cache.tla (%s)" % (res.violated, name))

    # ------------------------------------------------------------------ 2. deviations of the code: counterexample -> real code
    fw = finding_worlds()
    for inv, w in fw.items():
        pmf = progs_module([w])
        # the intended design satisfies the strict invariant on this world ...
        res = _tlc(run, "MC_Cache", cfg([], small_ops, [inv], 5), name="dev-%s-intended" % inv, extra_files={"CacheProgs.tla": pmf}, workers=4)
        if res.violated:
            run.spec_violation(res, "TLC: %s violated in the intended design" % inv)
        # ... the model that follows the code does not: confirm on the real code before calling it a finding
        res = _tlc(run, "MC_Cache", cfg(DEVS, small_ops, [inv], 5), name="dev-%s-ascoded" % inv, extra_files={"CacheProgs.tla": pmf}, workers=1)
        if res.violated != [inv]:
            raise MachineryError("expected exactly %s to be violated by the code-shaped model, got %s" % (inv, res.violated))
        ce = [st for _, st in res.counterexample()]
        mm = replay_behaviour(ce, w, "rec", next_hid(), run.scratch)
        run.traces += 1
        hist = [st["last"] for st in ce[1:]]
        sig, what = SIG[inv]
        if mm is None:
            texts = [template_text(w, k)[0] for k in range(1, len(w["tmpls"]) + 1)]
            run.violation(sig, what, {"backend": "rec", "world": w,
                                      "ops": ops_of([expected_of(st, w) for st in ce[1:]]),
                                      "templates": texts, "uris": ["".join(t["uri"]) for t in w["tmpls"]],
                                      "source": "TLC counterexample to %s in the code-shaped Cache.tla, reproduced step by step on real templates" % inv})
        else:
            run.violation("model-mismatch-on-%s-counterexample" % inv,
                          "the real code does not follow the code-shaped model on the %s counterexample (deviation no longer present?)" % inv,
                          {"backend": "rec", "world": w, "ops": mm.get("history"), "mismatch": mm})

    # ------------------------------------------------------------------ 2b. signature shapes the cache wrapper once could not pass on
    for pname, (w, sig, what) in probe_worlds().items():
        simdir = run.subdir("probe-" + pname)
        # (the code-shaped model, like every other replayed world: its cache ids are the module-id spelling of the URI)
        _tlc(run, "MC_Cache", cfg(DEVS, ["render"], WEAK), name="probe-" + pname, workers=1, simulate="file=%s/tr,num=1" % simdir, depth=3,
                timeout=300, count=False, extra_files={"CacheProgs.tla": progs_module([w])})
        states = [st for _, st in core.parse_simulate_file(os.path.join(simdir, sorted(os.listdir(simdir))[0]))]
        mm = replay_behaviour(states, w, "rec", next_hid(), run.scratch)
        run.traces += 1
        if mm is None:
            continue                     # the code renders what the model (= the uncached section) renders
        obs = mm.get("observed")
        raised = mm["clause"] == "construct" or (mm["clause"] == "out" and obs and str(obs[0][0]).startswith("exc:"))
        texts = [template_text(w, k)[0] for k in range(1, len(w["tmpls"]) + 1)]
        if raised:
            run.violation(sig, what, {"backend": "rec", "world": w, "ops": mm.get("history") or [{"ev": "render", "t": 1, "c": "u"}],
                                      "templates": texts, "observed": obs,
                                      "source": "expected output of the first render from Cache.tla (TLC), the real template raises"})
        else:
            run.violation("replay:%s:%s" % (mm["op"], mm["clause"]), "real templates disagree with Cache.tla on probe %s: expected %s, observed %s"
                          % (pname, json.dumps(mm.get("expected"))[:300], json.dumps(obs)[:300]),
                          {"backend": "rec", "world": w, "ops": mm.get("history"), "mismatch": mm})

    # ------------------------------------------------------------------ 3. R: simulate -> replay on real templates
    profiles = [("rec", 14, 10), ("beaker-mem", 8, 6), ("beaker-file", 4, 4), ("beaker-dbm", 3, 3), ("dogpile", 6, 5)]   # profile, worlds, behaviours per world
    if thorough:
        profiles = [(p, n * 4, b * 2) for p, n, b in profiles]
    missing = sorted({p for p, _, _ in profiles if not installed(p)})
    if missing:
        run.assumptions.append("backends not installed, not exercised: %s" % ", ".join(missing))
    profiles = [x for x in profiles if x[0] not in missing]
    replayed = 0
    nc_done = 0
    op_counts = {}
    for profile, nworlds, per in profiles:
        worlds = [gen_world(rng, profile) for _ in range(nworlds)]
        ops = ALL_OPS if profile == "rec" else [o for o in ALL_OPS if o != "set"]
        num = nworlds * per
        simdir = run.subdir("simtr-" + profile)
        _tlc(run, "MC_Cache", cfg(DEVS, ops, WEAK) + "ACTION_CONSTRAINT RaiseLate\n", name="sim-" + profile, workers=1, simulate="file=%s/tr,num=%d" % (simdir, num),
                depth=30, timeout=900, count=False, extra_files={"CacheProgs.tla": progs_module(worlds)})
        files = sorted(os.listdir(simdir))
        if len(files) < num:
            raise MachineryError("simulate produced %d of %d behaviours" % (len(files), num))
        seen_worlds = set()
        stopped = False
        for fn in files:
            steps = core.parse_simulate_file(os.path.join(simdir, fn))
            states = [st for _, st in steps]
            w = worlds[states[0]["pg"] - 1]
            seen_worlds.add(states[0]["pg"])
            mm = replay_behaviour(states, w, profile, next_hid(), run.scratch)
            replayed += 1
            run.transitions += len(states)
            for st in states[1:]:
                op_counts[st["last"]["op"]] = op_counts.get(st["last"]["op"], 0) + 1
            if mm:
                run.violation("replay:%s:%s" % (mm["op"], mm["clause"]),
                              "real templates (%s backend) disagree with Cache.tla at step %d (%s of %s): expected %s, observed %s"
                              % (profile, mm["step"], mm["clause"], mm["op"], json.dumps(mm.get("expected"))[:300], json.dumps(mm.get("observed"))[:300]),
                              {"backend": profile, "world": w, "ops": mm.get("history"), "mismatch": mm})
                stopped = True
                break
            if nc_done < 3 and profile == "rec":
                # negative control: corrupt one expected value of this (agreeing) behaviour; the comparer must reject
                rs = [i for i, st in enumerate(states) if st["last"]["op"] == "render" and st["last"]["out"]]
                if rs:
                    def bump(exp):
                        exp["out"][-1][1] += 1 if exp["out"][-1][0] not in "{}<>" else 0
                        exp["execs"][exp["t"] - 1][0] += 1
                    mm2 = replay_behaviour(states, w, profile, next_hid(), run.scratch, corrupt=(rs[-1], bump))
                    run.negative_control(mm2 is not None, "replay comparer accepted a corrupted expected render")
                    cs = [i for i, st in enumerate(states) if st["last"].get("calls")]
                    if cs:
                        def badkw(exp):
                            exp["calls"][0]["kw"] = exp["calls"][0]["kw"] + [["zz", "s:1"]]
                        mm3 = replay_behaviour(states, w, profile, next_hid(), run.scratch, corrupt=(cs[-1], badkw))
                        run.negative_control(mm3 is not None, "replay comparer accepted corrupted backend arguments")
                    nc_done += 1
        if not stopped and len(seen_worlds) < max(1, nworlds // 3):
            raise MachineryError("simulation visited only %d of %d worlds" % (len(seen_worlds), nworlds))
        if files and profile == "rec":
            run.sample({"direction": "R", "backend": profile, "template": template_text(w, 1)[0][-400:],
                        "history": [st["last"]["op"] for st in states[1:13]]})
    if nc_done == 0 and not run.violations:
        raise MachineryError("no negative control could be run on the replay comparer")
    # vacuity: every kind of operation of the model was taken by TLC and replayed on the real code
    # (TLC's -coverage statistics cost ~20 s even on a tiny instance of this spec, so they are not used)
    if not run.violations:
        for o in ALL_OPS:
            if not op_counts.get(o):
                raise MachineryError("vacuous: operation %s never occurred in the replayed behaviours (%s)" % (o, op_counts))
    run.extra["action_coverage"] = op_counts
    run.extra["behaviours_replayed"] = replayed
    run.traces += replayed

    # ------------------------------------------------------------------ 4. V: record -> validate
    groups = [("rec", 60, 30), ("beaker-mem", 20, 30), ("dogpile", 10, 30)]
    if thorough:
        groups = [("rec", 400, 30), ("beaker-mem", 120, 30), ("beaker-file", 40, 30), ("beaker-dbm", 30, 30), ("dogpile", 80, 30)]
    groups = [g for g in groups if g[0] not in missing]
    tid = 0
    for gi, (profile, n, n_ops) in enumerate(groups):
        worlds, traces, texts = [], [], {}
        for _ in range(n):
            w = gen_world(rng, profile)
            worlds.append(w)
            tid += 1
            ops = random_history(rng, w, n_ops, allow_set=(profile == "rec"))
            try:
                ev, tx = record(w, ops, profile, next_hid(), run.scratch)
            except MachineryError:
                raise
            except Exception as ex:  # noqa
                run.violation("record:construct", "templates of a generated world do not compile: %s: %s" % (type(ex).__name__, ex), {"world": w})
                ev, tx = [], []
            texts[tid] = tx
            traces.append({"id": tid, "pg": len(worlds), "events": ev})
        # negative controls: corruptions of up to 6 recordings; judged are those of the first recording that Trace_Cache
        # accepted uncorrupted.  Only fields the spec compares are touched: never raised / watchdog events (their effects
        # are not compared), and an event is only deleted when a later compared event reports the counters it changed.
        cand = []
        for t in traces:
            ev = t["events"]
            if any(e.get("raised") or str(e.get("out", [[""]])[0][0] if e.get("out") else "").startswith("exc:") for e in ev):
                continue
            rs = [i for i, e in enumerate(ev) if e["ev"] == "render" and e["out"] and e["out"][-1][0] not in "{}<>"]
            cs = [i for i, e in enumerate(ev) if e["calls"] and e["calls"][0]["kw"] and not e["calls"][0]["op"].startswith("exc:")]
            if len(rs) < 2 or not cs:
                continue
            base = 10 ** 6 + 10 * len(cand)
            b1 = copy.deepcopy(t); b1["id"] = base + 1
            b1["events"][rs[-1]]["out"][-1][1] += 1
            b2 = copy.deepcopy(t); b2["id"] = base + 2
            b2["events"][rs[-1]]["execs"][0][0] += 1
            b3 = copy.deepcopy(t); b3["id"] = base + 3
            b3["events"][cs[-1]]["calls"][0]["kw"][0][1] = "s:corrupted"
            mine = [b1, b2, b3]
            withex = [i for i, e in enumerate(ev) if e["ev"] in ("render", "renderdef")]      # events reporting the counters
            prev = None
            for k, i in enumerate(withex):
                ex = ev[i]["execs"]
                changed = any(n for row in ex for n in row) if prev is None else ex != prev
                if changed and k < len(withex) - 1:
                    b4 = copy.deepcopy(t); b4["id"] = base + 4
                    del b4["events"][i]
                    mine.append(b4)
                    break
                prev = ex
            cand.append((t["id"], mine))
            if len(cand) >= 6:
                break
        ncs = [x for _, mine in cand for x in mine]
        verdicts = _validate(run, traces + ncs, worlds, "trace-%s" % profile, thorough)
        run.traces -= len(ncs)
        judged = next((mine for tid_, mine in cand if verdicts[tid_]["ok"]), [])
        for nc in judged:
            run.negative_control(not verdicts[nc["id"]]["ok"], "Trace_Cache accepted a corrupted history (%d)" % nc["id"])
        ncs = judged
        if not ncs and gi == 0 and not run.violations:
            raise MachineryError("no trace suitable for negative controls")
        for t in traces:
            run.transitions += len(t["events"])
            judge_trace(run, t, worlds[t["pg"] - 1], profile, texts[t["id"]], verdicts[t["id"]])
        if gi == 0 and traces:
            run.sample({"direction": "V", "backend": profile, "events": [{k: x for k, x in e.items() if k != "store"} for e in traces[0]["events"][:4]]})
    run.assumptions += [
        "no wall-clock expiry: section timeouts given to Beaker/dogpile are >= 3600 s; the reference backend ignores timeouts",
        "templates live in one TemplateLookup (configured per Template or on the lookup) and call each other only through <%namespace>, <%include> and <%inherit>/next.body(); named blocks take no args and are not overridden",
        "every operation on the real code runs under a watchdog (a hang is the observation exc:OpTimeout)",
        "cache.set is exercised on the reference backend only (BeakerCacheImpl and dogpile's plugin implement put(), not set(): Cache.set raises NotImplementedError there)",
        "dogpile.cache: one region per template (its Mako plugin does not namespace keys by cache id; third-party code)",
    ]
    return {"rule": "TLC exhaustive on bounded Cache.tla instances (intended design: strict invariants; code-shaped model: invariants modulo "
                    "recorded deviations, strict counterexamples replayed on the real code); -simulate histories of length 30 replayed action "
                    "by action on real templates over five backends (reference dict, Beaker memory/file/dbm, dogpile.cache); three probe worlds (signature "
                    "shapes once mishandled by the cache wrapper) rendered against the model; seeded random histories recorded from real templates validated against "
                    "Trace_Cache.tla. A case is one history over one generated world; distinct by construction (seeded).",
            "exhaustive": False}


def _tlc(run, module, cfg_text, **kw):
    kw.setdefault("heap", HEAP)
    return run.tlc(module, cfg_text, **kw)


def _validate(run, traces, worlds, name, thorough):
    """run.validate_traces with the worlds module added (core.validate_traces has no extra_files)."""
    if not traces:
        return {}
    res = _tlc(run, "Trace_Cache", trace_cfg(), name=name, workers=16 if thorough else 8, timeout=1500,
                  env={"TRACE_FILE": "traces.json"},
                  extra_files={"traces.json": json.dumps(traces), "CacheProgs.tla": progs_module(worlds)}, expect_ok=False, count=False)
    verdicts = {}
    for v in res.json_lines():
        if isinstance(v, dict) and "t" in v:
            verdicts.setdefault(v["t"], v)
    missing = [t["id"] for t in traces if t["id"] not in verdicts]
    if missing or res.violated or not res.completed:
        raise MachineryError("trace validation %s: %d traces without verdict, violated=%s, tail:\n%s"
                             % (name, len(missing), res.violated, res.out[-2500:]))
    run.traces += len(traces)
    return verdicts
