"""C04 -- names resolve through scopes, module, imports, context, builtins, UNDEFINED; the context
is immutable for template code; context.kwargs; reserved names.

Specifications: spec/Scopes.tla (the resolution chain, one action per hop, + the priority table as
invariant), spec/ScopesCtx.tla (the context as an object: heap of dictionaries, reserved names),
spec/Trace_Scopes.tla (validation of recorded reads).

 1. TLC walks the chain for every (set of <= MaxSites binding sites, read site, strict) and checks
    ResolveTotalAndOrdered / HopsAscending / StrictOnlyWhenMissing; every terminal state prints the
    expected token.  R: each case becomes a real template (+ a lookup holding the imported def), is
    rendered, and the token the read site sees is compared with TLC's.
 2. TLC enumerates ScopesCtx "reserved" (entry point x enable_loop x argument names x template-level
    assignment) with ReservedRejected, and ScopesCtx "history" (all body step sequences to a depth,
    plus -simulate beyond) with ContextImmutable / KwargsExact / NoAliasHandedOut / KwObsExact.
    R: every behaviour is rendered as a real template; per-step observations and the final context
    data / kwargs are compared with the ones TLC printed.
 3. V: seeded random templates with several variables, each bound at up to 5 sites and read at many
    sites; the reads are recorded and validated in batch by Trace_Scopes.tla.

Python holds no oracle: it concretises, projects (what did the read site see -> token) and compares.
"""
import io

from . import core
from .core import MachineryError

ALL_READS = ["R_BODY", "R_ANON", "R_CALLBODY", "R_CTL", "R_ATTR", "R_FILTER", "R_FILTERARG",
             "R_INCARGS", "R_INCFILE", "R_CALLEXPR", "R_TEXTFILTER", "R_BLOCKFILTER", "R_DEFFILTER",
             "R_TOPDEF_BYNAME", "R_TOPDEF_BYNAME_CTL", "R_TOPDEF_BYNAME_ANON", "R_TOPDEF_BYNAME_CALLBODY",
             "R_TOPDEF_BYNAME_CALLBODYARGS", "R_TOPDEF_BYNAME_NSCALL", "R_TOPDEF_BYNAME_VIADEF",
             "R_TOPDEF_SELF", "R_TOPDEF_VIADEF_SELF", "R_NESTED", "R_NESTED_CALLBODY", "R_NESTED_SELF", "R_NAMED"]
BODYLEVEL = ["R_BODY", "R_ANON", "R_CALLBODY", "R_CTL", "R_ATTR", "R_FILTER", "R_FILTERARG",
             "R_INCARGS", "R_INCFILE", "R_CALLEXPR", "R_TEXTFILTER", "R_BLOCKFILTER"]
HOPS = ["HopClosure", "HopModule", "HopImport", "HopContext", "HopBuiltin", "HopUndefined", "Done"]
PLAIN_NAMES = ["q", "zz", "item", "value_1", "Row", "loop"]     # `loop` is an ordinary name when enable_loop is off
BUILTIN_CLASSES = {        # name classes of the BUILTIN site (Scopes.tla, BuiltinClasses)
    "public": ["ascii", "repr", "len"],
    "shadowable": ["id", "format", "type"],
    "dunder": ["__import__", "__build_class__"],
    "runtime": ["_"],       # installed into the builtins module before the render, removed afterwards
    "exception": ["ValueError", "OSError"],    # (not KeyError/NameError: the generated module itself says `except KeyError`)
}
BUILTIN_NAMES = [n for c in sorted(BUILTIN_CLASSES) for n in BUILTIN_CLASSES[c]]
TOKENS = ["CTX", "PAGE", "BODY", "DEFARG", "ENCL", "LOOP", "MOD", "MOD0", "IMP", "BUILTIN", "UNDEFINED"]


class runtime_builtin:
    """gettext.install()-style: a name put into the builtins module after mako was imported"""

    def __enter__(self):
        import builtins
        self.had = hasattr(builtins, "_")
        self.old = getattr(builtins, "_", None)
        builtins._ = _installed
        return self

    def __exit__(self, *a):
        import builtins
        if self.had:
            builtins._ = self.old
        else:
            del builtins._


def _installed(*a):
    return "installed-at-run-time"


def need_actions(res, names, module):
    """vacuity: every named action generated states (TLC adds a location suffix to actions used in several places)"""
    import re
    cov = {}
    for name, g in re.findall(r"(?m)^<(\w+) line \d+, col \d+ to line \d+, col \d+ of module \w+(?: \([\d ]+\))?>: \d+:(\d+)", res.out):
        cov[name] = cov.get(name, 0) + int(g)
    for a in names:
        if not cov.get(a):
            raise MachineryError("vacuous: action %s of %s never taken (%s)" % (a, module, cov))


def lam(tok):
    return "(lambda *a: %r)" % tok


# --------------------------------------------------------------------------- part 1: resolution
def read_expr(name, r):
    return "${show(%s)}" % name


def inner_for(name, r):
    rd = "${show(%s)}" % name
    return {
        "R_BODY": rd,
        "R_TOPDEF_BYNAME": "${f_%s()}" % name,
        # call paths of the by-name def: the def is referenced ONLY where the path says
        "R_TOPDEF_BYNAME_CTL": "%% if f_%s() is not None:\n%% endif\n" % name,
        "R_TOPDEF_BYNAME_ANON": "<%%block>${f_%s()}</%%block>" % name,
        "R_TOPDEF_BYNAME_CALLBODY": "<%%call expr='w()'>${f_%s()}</%%call>" % name,
        "R_TOPDEF_BYNAME_CALLBODYARGS": "<%%call expr='w2()' args='z'>${f_%s()}</%%call>" % name,
        "R_TOPDEF_BYNAME_NSCALL": "<%%self:w>${f_%s()}</%%self:w>" % name,
        "R_TOPDEF_BYNAME_VIADEF": "${k_%s()}" % name,
        "R_TOPDEF_VIADEF_SELF": "${self.k_%s()}" % name,
        "R_NESTED_CALLBODY": "<%%call expr='w()'>${f_%s()}</%%call>" % name,
        "R_INCARGS": "<%%include file='echo_page' args='v=show(%s)'/>" % name,
        "R_INCFILE": "<%%include file=\"${'t_' + show2(capture, %s)}\"/>" % name,
        "R_CALLEXPR": "<%%call expr='echo(show(%s))'></%%call>" % name,
        "R_TEXTFILTER": "<%%text filter='pick(%s)'>.</%%text>" % name,
        "R_BLOCKFILTER": "<%%block filter='pick(%s)'>.</%%block>" % name,
        "R_DEFFILTER": "${f_%s()}" % name,
        "R_TOPDEF_SELF": "${self.f_%s()}" % name,
        "R_NESTED": "${f_%s()}" % name,
        "R_NESTED_SELF": "${self.f_%s()}" % name,
        "R_ANON": "<%block>" + rd + "</%block>",
        "R_NAMED": "<%%block name='nb_%s'>%s</%%block>" % (name, rd),
        "R_CALLBODY": "<%call expr='w()'>" + rd + "</%call>",
        "R_CTL": "%% for _v in [show(%s)]:\n${_v}\n%% endfor\n" % name,
        "R_ATTR": "<%%self:echo v=\"${show(%s)}\"/>" % name,
        "R_FILTER": "${'' | %s}" % name,
        "R_FILTERARG": "${'' | pick(%s)}" % name,
    }[r]


MODLIB = {
    "verif_modlib.py": "tok = lambda *a: 'MOD'\ntok0 = lambda *a: 'MOD0'\nother = 1\n",
    "verif_pkg/__init__.py": "",
    "verif_pkg/sub.py": "TOKEN = 'MOD'\n",
}


def install_modlib(run):
    """importable helper modules for the imports= option (a scratch directory put on sys.path for this run)"""
    import os
    import sys
    d = run.subdir("modlib")
    files = dict(MODLIB)
    for n in PLAIN_NAMES:
        files[n + ".py"] = "TOKEN = 'MOD'\n"          # `import NAME` binds NAME to a module
    for fn, text in files.items():
        path = os.path.join(d, fn)
        os.makedirs(os.path.dirname(path), exist_ok=True)
        with open(path, "w") as f:
            f.write(text)
    if d not in sys.path:
        sys.path.insert(0, d)
    for n in list(sys.modules):
        if n in PLAIN_NAMES or n.startswith(("verif_modlib", "verif_pkg")):
            del sys.modules[n]
    return d


def module_sources(name, msrc):
    """(<%! %> blocks, imports= statements) of the module-level source list that binds `name` (Scopes.tla, ModSources)"""
    bind = "%s = %s" % (name, lam("MOD"))
    bind0 = "%s = %s" % (name, lam("MOD0"))
    imp = "from verif_modlib import tok as %s" % name
    return {
        "none": ([], []),
        "block": ([bind], []),
        "block1of2": ([bind, "mv_other = 1"], []),
        "block2of2": (["mv_other = 1", bind], []),
        "block_twice": ([bind0, bind], []),
        "imp1of1": ([], [imp]),
        "imp1of2": ([], [imp, "import os"]),
        "imp2of2": ([], ["import os", imp]),
        "imp2of3": ([], ["import os", imp, "from sys import path as mv_path"]),
        "imp_multi": ([], ["from verif_modlib import other as mv_other, tok as %s" % name, "import os"]),
        "imp_dotted_as": ([], ["import verif_pkg.sub as %s" % name, "import os"]),
        "imp_plain": ([], ["import %s" % name, "import os"]),
        "imp_and_block": ([bind], ["from verif_modlib import tok0 as %s" % name, "import os"]),
    }[msrc]


def build_case(S, r, name, msrc="block"):
    """The fixed skeleton with the binding sites of S active for `name` and one read at r."""
    has = lambda s: s in S
    t = ""
    if has("MOD"):
        for b in module_sources(name, msrc)[0]:
            t += "<%%! %s %%>\n" % b
    if has("IMP"):
        t += "<%%namespace file='lib' import='%s'/>\n" % name
    if has("PAGE"):
        t += "<%%page args=\"%s=%s\"/>\n" % (name, lam("PAGE"))
    t += "<%def name='echo(v)'>${v}</%def>\n<%def name='w()'>${caller.body()}</%def>\n<%def name='w2()'>${caller.body(1)}</%def>\n"
    if r in ("R_TOPDEF_BYNAME_VIADEF", "R_TOPDEF_VIADEF_SELF"):
        t += "<%%def name='k_%s()'>${f_%s()}</%%def>\n" % (name, name)
    darg = ("%s=%s" % (name, lam("DEFARG"))) if has("DEFARG") else ""
    encl = ("<%% %s = %s %%>" % (name, lam("ENCL"))) if has("ENCL") else ""
    rd = "${show(%s)}" % name
    nested = r.startswith("R_NESTED")
    if r == "R_DEFFILTER":
        t += "<%%def name=\"f_%s(%s)\" filter=\"pick(%s)\">.</%%def>\n" % (name, darg, name)
    else:
        t += "<%%def name=\"f_%s(%s)\">%s%s</%%def>\n" % (
            name, darg, encl, ("<%def name='g()'>" + rd + "</%def>${g()}") if nested else rd)
    if has("BODY"):
        t += "<%% %s = %s %%>\n" % (name, lam("BODY"))
    inner = inner_for(name, r)
    if has("LOOP"):
        t += "%% for %s in [%s]:\n%s\n%% endfor\n" % (name, lam("LOOP"), inner)
    else:
        t += inner + "\n"
    if has("LATE"):
        t += "<%% %s = %s %%>\n" % (name, lam("LATE"))
    return t


class Env:
    """helpers handed to the template through the context + projection of what a read site saw"""

    def __init__(self, names):
        import builtins
        import types
        from mako.runtime import UNDEFINED
        self.names = names
        bi = {getattr(builtins, n): n for n in BUILTIN_NAMES if hasattr(builtins, n)}
        bi[_installed] = "_"

        def show(v):
            if v is UNDEFINED:
                return "UNDEFINED"
            try:
                if v in bi:
                    return "BUILTIN"
            except TypeError:
                pass
            if callable(v):
                r = v()
                return r if isinstance(r, str) else "OTHER:%r" % (r,)
            if isinstance(v, types.ModuleType) and hasattr(v, "TOKEN"):
                return v.TOKEN             # a name bound by `import module [as name]`
            return "OTHER:%r" % (v,)

        def pick(v):
            return lambda s: show(v)

        def show2(capture, v):
            """like show, but what an imported def WRITES is captured and returned (for expressions that need the text)"""
            box = []
            out = capture(lambda: box.append(show(v)))
            return out.strip() + box[0]
        self.helpers = {"show": show, "pick": pick, "show2": show2}

    def lib(self):
        return "".join("<%%def name='%s(*a)'>IMP</%%def>" % n for n in self.names)


def observe_render(lk, uri, ctx, name, direct_filter=False):
    """render and project: the token the read site produced, or the exception class
    (lk, uri): a lookup and a uri, or (None, callable returning the template)"""
    import builtins
    import re
    native = None
    if direct_filter and hasattr(builtins, name):
        # ${'' | name}: when the name is the builtin, the builtin itself is applied to ''
        try:
            value = getattr(builtins, name)("")
            # the result of a filter is written as it is: anything but text is a TypeError of the buffer
            native = ("out", re.sub(r"\s+", "", value)) if isinstance(value, str) else ("exc", "TypeError")
        except Exception as e:  # noqa
            native = ("exc", type(e).__name__)
    try:
        t = lk.get_template(uri) if lk is not None else uri()
        out = re.sub(r"\s+", "", t.render_unicode(**ctx))
        if native == ("out", out) and out not in TOKENS:
            return "BUILTIN"
        return out
    except NameError as e:
        if type(e) is NameError and ("'%s'" % name) in str(e):
            return "NameError"
        if type(e) is UnboundLocalError and ("'%s'" % name) in str(e):
            return "UnboundLocalError"
        return "exc:%s:%s" % (type(e).__name__, str(e)[:60])
    except TypeError as e:
        if direct_filter and "Undefined" in str(e):
            return "UNDEFINED"         # UNDEFINED('') : the name resolved to the UNDEFINED singleton
        if native == ("exc", "TypeError"):
            return "BUILTIN"
        return "exc:TypeError:%s" % str(e)[:60]
    except Exception as e:  # noqa -- any failure of the code under test is an observation
        if native == ("exc", type(e).__name__):
            return "BUILTIN"
        return "exc:%s:%s" % (type(e).__name__, str(e)[:60])


def run_case(case, rng):
    from mako.lookup import TemplateLookup
    S, r, strict = case["S"], case["r"], case["strict"]
    name = rng.choice(BUILTIN_CLASSES[case["bclass"]]) if "BUILTIN" in S else rng.choice(PLAIN_NAMES)
    msrc = case.get("msrc", "block" if "MOD" in S else "none")
    imports = module_sources(name, msrc)[1] if "MOD" in S else []
    # where the options are given is free: on the lookup (for the templates it creates), on the Template itself,
    # or the compiled module wrapped in a ModuleTemplate -- all three must behave alike
    how = rng.choice(["lookup", "template", "module"])
    opts = dict(strict_undefined=strict, enable_loop=(name != "loop"), imports=imports or None,
                future_imports=rng.choice([None, ["annotations"]]))
    with runtime_builtin():
        env = Env([name])
        lk = TemplateLookup(**opts) if how == "lookup" else TemplateLookup()
        if "IMP" in S:
            lk.put_string("lib", env.lib())
        if r == "R_INCARGS":
            lk.put_string("echo_page", "<%page args='v'/>${v}")
        if r == "R_INCFILE":
            for tok in TOKENS:
                lk.put_string("t_" + tok, tok)
        src = build_case(S, r, name, msrc)
        ctx = dict(env.helpers)
        if "CTX" in S:
            ctx[name] = (lambda *a: "CTX")
        if how == "lookup":
            lk.put_string("main", src)
            obs = observe_render(lk, "main", ctx, name, direct_filter=(r == "R_FILTER"))
        else:
            def make():
                from mako.template import ModuleTemplate, Template
                t = Template(src, lookup=lk, uri="main", **opts)
                return t if how == "template" else ModuleTemplate(t.module, lookup=lk, template_source=src)
            obs = observe_render(None, make, ctx, name, direct_filter=(r == "R_FILTER"))
    return obs, src + "\n## imports=%r via %s" % (imports, how), name


def site_signature(S, r, strict, exp, obs, bclass="none", msrc="none"):
    if bclass not in ("none", "public"):
        r = r + "[" + bclass + "-builtin]"
    if msrc not in ("none", "block"):
        r = r + "[module-source:" + msrc + "]"
    obs_c = obs.split(":")[0] + (":" + obs.split(":")[1] if obs.startswith("exc:") else "")
    return "resolve:%s:%s:%s:expected-%s:got-%s" % (r, "+".join(sorted(S)) or "nowhere", "strict" if strict else "lax", exp, obs_c)


def part_resolution(run):
    max_sites = 4 if run.thorough else 3
    install_modlib(run)
    cfg = ("CONSTANTS MaxSites = %d\nClassSites = %d\nReadSites = {%s}\nSPECIFICATION Spec\n"
           "INVARIANT ResolveTotalAndOrdered\nINVARIANT HopsAscending\nINVARIANT StrictOnlyWhenMissing\nCHECK_DEADLOCK FALSE\n"
           % (max_sites, 3 if run.thorough else 2, ", ".join('"%s"' % r for r in ALL_READS)))
    res = run.tlc("Scopes", cfg, name="mc-scopes", workers=4, coverage=True, timeout=600)
    if res.violated:
        run.spec_violation(res)
        return
    for a in HOPS:
        if not res.coverage.get(a, [0, 0])[1]:
            raise MachineryError("vacuous: action %s of Scopes never taken (%s)" % (a, res.coverage))
    cases = {}
    for c in res.json_lines():
        if isinstance(c, dict) and "expect" in c and "r" in c:
            c["S"] = sorted(c["S"])
            cases[(tuple(c["S"]), c["r"], c["strict"], c["bclass"], c["msrc"])] = c
    if {c["msrc"] for c in cases.values()} != set(k for k in ("none", "block", "block1of2", "block2of2", "block_twice", "imp1of1", "imp1of2",
                                                              "imp2of2", "imp2of3", "imp_multi", "imp_dotted_as", "imp_plain", "imp_and_block")):
        raise MachineryError("not every module-level source enumerated")
    if {c["bclass"] for c in cases.values()} != set(BUILTIN_CLASSES) | {"none"}:
        raise MachineryError("not every builtin name class enumerated")
    if len(cases) < 500:
        raise MachineryError("Scopes printed only %d cases" % len(cases))
    # every read site and every token must occur (vacuity of the enumeration)
    if {c["r"] for c in cases.values()} != set(ALL_READS):
        raise MachineryError("not every read site enumerated")
    seen_tokens = {c["expect"] for c in cases.values()}
    if not {"CTX", "PAGE", "BODY", "DEFARG", "ENCL", "LOOP", "MOD", "IMP", "BUILTIN", "UNDEFINED", "NameError", "UnboundLocalError"} <= seen_tokens:
        raise MachineryError("not every outcome token enumerated: %s" % sorted(seen_tokens))
    run.extra["resolution_cases"] = len(cases)
    n_bad = 0
    keys = sorted(cases)
    for k in keys:
        c = cases[k]
        obs, src, name = run_case(c, run.rng)
        run.traces += 1
        if obs != c["expect"]:
            n_bad += 1
            run.violation(site_signature(c["S"], c["r"], c["strict"], c["expect"], obs, c["bclass"], c["msrc"]),
                          "read site %s with bindings %s (strict=%s): the spec's chain %s ends in %s, the template saw %s"
                          % (c["r"], c["S"], c["strict"], c["hops"], c["expect"], obs),
                          {"case": c, "template": src, "name": name, "observed": obs})
        elif len(c["S"]) == 3:
            run.sample({"part": "resolution", "S": c["S"], "r": c["r"], "strict": c["strict"], "hops": c["hops"],
                        "expect": c["expect"], "template": src}, limit=2)
    # negative control: a corrupted expectation must be noticed by the same comparison
    # (on a case where code and specification agree -- with broken code under test that need not be the middle one)
    for k in keys[len(keys) // 2:] + keys[:len(keys) // 2]:
        c = dict(cases[k])
        obs, _, _ = run_case(c, run.rng)
        if obs == c["expect"]:
            wrong = "CTX" if c["expect"] != "CTX" else "MOD"
            run.negative_control(obs != wrong, "comparer accepted a corrupted expected token")
            break
    return cases


# --------------------------------------------------------------------------- part 1b: Python functions inside blocks
def part_blockscopes(run, cases):
    """Names stored INSIDE a Python function of a <% %> / <%! %> block (before and after a nested def / lambda / class /
    comprehension) are not bindings of the template: PyScope.tla says which names the block binds at its top, and for
    every other name Scopes.tla's walk for a body read with S = {CTX} / {} gives what ${name} must see."""
    import copy
    import re
    from mako.template import Template
    from . import c19_scope as ps
    progs, meta = [], {}
    for nm, stmts in ps.nested_scope_shapes():
        pid = len(progs) + 1
        progs.append({"id": pid, "body": ps.rename(copy.deepcopy(stmts), "_1")})
        meta[pid] = nm
    exp = ps.tlc_sets(run, progs, "mc-blockscopes")
    if exp is None:
        return

    def token(S, strict):
        return cases[(S, "R_BODY", strict, "none", "none")]["expect"]
    n_ok = 0
    seen = set()
    for pr in progs:
        src = "\n".join(ps.src_block(pr["body"], 0))
        free, bound = exp[pr["id"]]
        inner = sorted(set(re.findall(r"\b(?:nl_\w+|pa_\w+|loop)\b", src)) - bound)
        if not inner:
            raise MachineryError("no inner names in %s" % meta[pr["id"]])
        # (a <%! %> block runs when the module is imported, without a context: the function is defined there, not called)
        src_mod = "\n".join(ps.src_block(pr["body"][:-1], 0))
        for module_block in (False, True):
            t = ("<%!\n" + src_mod if module_block else "<%\n" + src) + "\n%>\n" + "".join("{%s=${show(%s)}}\n" % (n, n) for n in inner)
            for with_ctx, strict in ((True, False), (False, False), (False, True), (True, True)):
                want = token(("CTX",) if with_ctx else (), strict)
                env = Env([])
                ctx = dict(env.helpers)
                ctx.update({n: ps.value_for(n) for n in free})
                if with_ctx:
                    ctx.update({n: (lambda *a: "CTX") for n in inner})
                run.traces += 1
                try:
                    out = re.sub(r"\s+", "", Template(t, strict_undefined=strict, enable_loop="loop" not in inner).render_unicode(**ctx))
                    got = dict(re.findall(r"\{(\w+)=([^{}]*)\}", out))
                    obs = {n: got.get(n, "missing") for n in inner}
                except NameError as e:
                    m = re.search(r"'(\w+)' is not defined", str(e))
                    hit = m.group(1) if m else "?"
                    # strict: the first unresolvable name aborts the render -- any inner name explains a NameError verdict
                    obs = {n: ("NameError" if (type(e) is NameError and hit in inner and "name '" not in str(e)) else "exc:" + type(e).__name__ + ":" + str(e)[:40])
                           for n in inner}
                except Exception as e:  # noqa
                    obs = {n: "exc:%s" % type(e).__name__ for n in inner}
                for n in inner:
                    if obs[n] == want:
                        n_ok += 1
                        continue
                    sig = "blockscope:%s:%s:%s:expected-%s:got-%s" % ("module-block" if module_block else "body-block", meta[pr["id"]],
                                                                    ps.role(n), want, ":".join(obs[n].split(":")[:2]))
                    if sig not in seen:
                        seen.add(sig)
                        run.violation(sig, "name %s is stored only inside a function of the block (%s): ${%s} must see %s, saw %s"
                                      % (n, meta[pr["id"]], n, want, obs[n]), {"template": t, "context_has_name": with_ctx, "strict": strict,
                                                                               "top_level_bound": sorted(bound), "observed": obs})
    if n_ok < 200 and not seen:
        raise MachineryError("block-scope part compared only %d reads" % n_ok)
    run.extra["blockscope_reads"] = n_ok
    run.negative_control(token(("CTX",), False) != token((), False), "block-scope expectation does not depend on the context")


# --------------------------------------------------------------------------- part 3: V, recorded reads
def record_multi(rng, tid, strict):
    """One template with several variables; every variable has its own set of binding sites and is
    read at many sites.  Returns (events, source)."""
    from mako.lookup import TemplateLookup
    import re
    nvars = rng.choice([2, 3])
    pool = [n for n in PLAIN_NAMES if n != "loop"]
    bcls = {}
    rng.shuffle(pool)
    names, sets = [], {}
    for i in range(nvars):
        use_bi = rng.random() < 0.4
        cls = rng.choice(sorted(BUILTIN_CLASSES))
        nm = rng.choice(BUILTIN_CLASSES[cls]) if use_bi else pool[i]
        if nm in names:
            use_bi, nm = False, pool[i]
        bcls[nm] = cls if use_bi else "none"
        k = rng.choice([0, 1, 2, 3, 4, 5])
        cand = ["CTX", "PAGE", "BODY", "DEFARG", "ENCL", "MOD", "IMP", "LOOP"]
        S = set(rng.sample(cand, k))
        if use_bi:
            S.add("BUILTIN")
        names.append(nm)
        sets[nm] = S
    env = Env(names)
    has = lambda n, s: s in sets[n]
    t = ""
    for n in names:
        if has(n, "MOD"):
            t += "<%%! %s = %s %%>\n" % (n, lam("MOD"))
    imp = [n for n in names if has(n, "IMP")]
    if imp:
        t += "<%%namespace file='lib' import='%s'/>\n" % ", ".join(imp)
    pg = [n for n in names if has(n, "PAGE")]
    if pg:
        t += "<%%page args=\"%s\"/>\n" % ", ".join("%s=%s" % (n, lam("PAGE")) for n in pg)
    t += "<%def name='echo(v)'>${v}</%def>\n<%def name='w()'>${caller.body()}</%def>\n<%def name='w2()'>${caller.body(1)}</%def>\n"
    mark = lambda n, r: "{%s/%s=" % (n, r)
    for n in names:
        darg = ("%s=%s" % (n, lam("DEFARG"))) if has(n, "DEFARG") else ""
        encl = ("<%% %s = %s %%>" % (n, lam("ENCL"))) if has(n, "ENCL") else ""
        # f_<n>: read directly; h_<n>: read from a nested def
        t += "<%%def name=\"f_%s(%s)\">${show(%s)}</%%def>\n" % (n, darg, n)
        for pfx in ("fc", "fa", "fs", "fv", "ft"):      # one def per call path, referenced only there
            t += "<%%def name=\"%s_%s(%s)\">${show(%s)}</%%def>\n" % (pfx, n, darg, n)
        t += "<%%def name='kv_%s()'>${fv_%s()}</%%def>\n" % (n, n)
        t += "<%%def name=\"h_%s(%s)\">%s<%%def name='g()'>${show(%s)}</%%def>${g()}</%%def>\n" % (n, darg, encl, n)
    for n in names:
        if has(n, "BODY"):
            t += "<%% %s = %s %%>\n" % (n, lam("BODY"))
    reads = []
    # def reads and the named block stand before the loops (a loop target around a by-name call is not generated)
    for n in names:
        for r, call in (("R_TOPDEF_BYNAME", "${f_%s()}" % n), ("R_TOPDEF_SELF", "${self.f_%s()}" % n),
                        ("R_NESTED", "${h_%s()}" % n), ("R_NESTED_SELF", "${self.h_%s()}" % n),
                        ("R_TOPDEF_BYNAME_CALLBODY", "<%%call expr='w()'>${fc_%s()}</%%call>" % n),
                        ("R_TOPDEF_BYNAME_CALLBODYARGS", "<%%call expr='w2()' args='z'>${fa_%s()}</%%call>" % n),
                        ("R_TOPDEF_BYNAME_NSCALL", "<%%self:w>${fs_%s()}</%%self:w>" % n),
                        ("R_TOPDEF_BYNAME_VIADEF", "${kv_%s()}" % n),
                        ("R_TOPDEF_BYNAME_CTL", "\n%% if ft_%s() is not None:\n%% endif\n" % n),
                        ("R_NAMED", "<%%block name='nb_%s'>${show(%s)}</%%block>" % (n, n))):
            if rng.random() < 0.7:
                t += mark(n, r) + call + "}\n"
                reads.append((n, r))
    loops = [n for n in names if has(n, "LOOP")]
    for n in loops:
        t += "%% for %s in [%s]:\n" % (n, lam("LOOP"))
    for n in names:
        for r in BODYLEVEL:
            if r == "R_FILTER":
                continue       # the direct filter read needs the exception-based projection; covered in part 1
            if rng.random() < 0.7:
                t += mark(n, r) + "\n" + inner_for(n, r).rstrip("\n") + "\n}\n"
                reads.append((n, r))
    for n in loops:
        t += "% endfor\n"
    lk = TemplateLookup(strict_undefined=strict)
    lk.put_string("lib", env.lib())
    lk.put_string("echo_page", "<%page args='v'/>${v}")
    for tok in TOKENS:
        lk.put_string("t_" + tok, tok)
    ctx = dict(env.helpers)
    for n in names:
        if has(n, "CTX"):
            ctx[n] = (lambda *a: "CTX")
    events = []
    with runtime_builtin():
        events = _record_render(lk, t, ctx, names, reads, sets, bcls, strict)
    return events, t, reads, sets, bcls


def _record_render(lk, t, ctx, names, reads, sets, bcls, strict):
    import re
    events = []
    try:
        lk.put_string("main", t)
        out = re.sub(r"\s+", "", lk.get_template("main").render_unicode(**ctx))
        got = dict(((m.group(1), m.group(2)), m.group(3)) for m in re.finditer(r"\{(\w+)/(\w+)=([^{}]*)\}", out))
        for (n, r) in reads:
            events.append({"S": sorted(sets[n]), "r": r, "strict": strict, "obs": got.get((n, r), "missing"), "name": n, "bclass": bcls[n], "msrc": "block" if "MOD" in sets[n] else "none"})
    except NameError as e:
        # strict: the first missing name aborts the render; record that one read only
        m = re.search(r"'(\w+)' is not defined", str(e))
        nm = m.group(1) if m else None
        if type(e) is NameError and nm in names:
            # any read site of that variable whose spec result is NameError explains the abort; record the
            # by-construction earliest hoisting function: the body (hoists every undeclared name first)
            events.append({"S": sorted(sets[nm]), "r": "*", "strict": strict, "obs": "NameError", "name": nm, "bclass": bcls[nm], "msrc": "block" if "MOD" in sets[nm] else "none"})
        else:
            events.append({"S": [], "r": "R_BODY", "strict": strict, "obs": "exc:NameError:%s" % str(e)[:50], "name": "?", "bclass": "none", "msrc": "none"})
    except Exception as e:  # noqa
        events.append({"S": [], "r": "R_BODY", "strict": strict, "obs": "exc:%s:%s" % (type(e).__name__, str(e)[:50]), "name": "?", "bclass": "none", "msrc": "none"})
    return events


def part_recorded(run):
    n = 400 if run.thorough else 120
    traces, srcs = [], {}
    for tid in range(1, n + 1):
        ev, src, reads, sets, sets_b = record_multi(run.rng, tid, strict=False)
        if ev:
            traces.append({"id": tid, "events": ev})
            srcs[tid] = src
    # strict renders abort at the first NameError: the aborting variable must be one some generated read
    # resolves to NameError.  Each (variable, read) is offered to TLC; at least one must come out NameError.
    strict_groups = []
    for tid in range(n + 1, n + 1 + n // 2):
        ev, src, reads, sets, sets_b = record_multi(run.rng, tid, strict=True)
        srcs[tid] = src
        if len(ev) == 1 and ev[0]["r"] == "*":
            nm = ev[0]["name"]
            alts = []
            for k, (vn, r) in enumerate(reads):
                if vn == nm:
                    aid = tid * 1000 + k
                    alts.append(aid)
                    traces.append({"id": aid, "events": [{"S": sorted(sets[nm]), "r": r, "strict": True, "obs": "NameError", "name": nm, "bclass": sets_b[nm], "msrc": "block" if "MOD" in sets[nm] else "none"}]})
            strict_groups.append((tid, alts, ev[0]))
        elif ev:
            traces.append({"id": tid, "events": ev})
    # negative control: flip one observed token
    bad = None
    for t in traces:
        if t["id"] <= n and len(t["events"]) >= 3:
            import copy
            bad = copy.deepcopy(t)
            bad["id"] = 10 ** 7
            e = bad["events"][len(bad["events"]) // 2]
            e["obs"] = "MOD" if e["obs"] != "MOD" else "CTX"
            break
    cfg = ("CONSTANTS MaxSites = 9\nClassSites = 9\nReadSites = {%s}\nSPECIFICATION TSpec\nINVARIANT ResolveTotalAndOrdered\nCHECK_DEADLOCK FALSE\n"
           % ", ".join('"%s"' % r for r in ALL_READS))
    verdicts = run.validate_traces("Trace_Scopes", cfg, traces + ([bad] if bad else []), name="trace-scopes", workers=4)
    if bad:
        run.traces -= 1
        run.negative_control(not verdicts[bad["id"]]["ok"], "Trace_Scopes accepted a corrupted read")
    alt_ids = {a for _, alts, _ in strict_groups for a in alts}
    run.traces -= len(alt_ids)
    for t in traces:
        if t["id"] in alt_ids:
            continue
        v = verdicts[t["id"]]
        if not v["ok"]:
            e = t["events"][v["i"] - 1]
            run.violation("trace:" + site_signature(e["S"], e["r"], e["strict"], v["clause"].replace("spec:", ""), e["obs"]),
                          "recorded read not explained by Scopes.tla: variable %s at %s with bindings %s saw %s, spec says %s"
                          % (e["name"], e["r"], e["S"], e["obs"], v["clause"]),
                          {"template": srcs.get(t["id"]), "event": e, "verdict": v})
    for tid, alts, ev in strict_groups:
        run.traces += 1
        if not any(verdicts[a]["ok"] for a in alts):
            run.violation("trace:strict-abort:%s:no-read-resolves-to-NameError" % ("+".join(ev["S"]) or "nowhere"),
                          "strict_undefined render raised NameError for %s although no generated read of it is unresolvable (bindings %s)"
                          % (ev["name"], ev["S"]), {"template": srcs.get(tid), "event": ev})
    run.extra["recorded_templates"] = n + n // 2


# --------------------------------------------------------------------------- part 2: the context object
HELPERS = ("show", "showkw", "hold", "held", "mk", "mutate")
MAKO_CTX_NAMES = {"capture", "caller", "self", "local", "parent", "next", "pageargs"}
DATA = ("x", "y", "new")


def decl_template(kind, name):
    body = {
        "none": "",
        "code": "<%% %s = 1 %%>" % name,
        "code_in_def": "<%%def name='d2()'><%% %s = 1 %%></%%def>" % name,
        "augassign": "<%%def name='d3()'><%% %s += 1 %%></%%def>" % name,
        "import_as": "<%% import os as %s %%>" % name,
        "def_stmt": "<%%\ndef %s():\n    pass\n%%>" % name,
        "for_target": "%% for %s in [1]:\n.\n%% endfor\n" % name,
        "with_target": "<%%! import contextlib %%>\n%% with contextlib.nullcontext(1) as %s:\n.\n%% endwith\n" % name,
        "except_target": "%% try:\n.\n%% except Exception as %s:\n.\n%% endtry\n" % name,
        "page_arg": "<%%page args=\"%s=1\"/>" % name,
        "module_code": "<%%! %s = 1 %%>" % name,
    }[kind]
    return body + "\nhi<%def name='d()'>D</%def>\n"


def run_reserved(c):
    from mako.template import Template
    from mako.runtime import Context
    from mako import exceptions
    src = decl_template(c["decl"]["kind"], c["decl"]["name"])
    try:
        t = Template(src, enable_loop=c["enable_loop"])
    except exceptions.NameConflictError:
        return "NameConflictError@construct", src
    except Exception as e:  # noqa
        return "exc:%s@construct" % type(e).__name__, src
    args = {a: "A_" + a for a in c["args"]}
    try:
        e = c["entry"]
        if e == "render":
            t.render(**args)
        elif e == "render_unicode":
            t.render_unicode(**args)
        elif e == "render_context":
            t.render_context(Context(io.StringIO(), **args))
        elif e == "get_def":
            t.get_def("d").render(**args)
        else:
            raise MachineryError("unknown entry " + e)
    except exceptions.NameConflictError:
        return "NameConflictError@render", src
    except MachineryError:
        raise
    except Exception as ex:  # noqa
        return "exc:%s@render" % type(ex).__name__, src
    return "ok", src


CTX_INVS = "INVARIANT ContextImmutable\nINVARIANT KwargsExact\nINVARIANT NoAliasHandedOut\nINVARIANT KwObsExact\nINVARIANT ReservedRejected\nCHECK_DEADLOCK FALSE\n"


def part_reserved(run):
    cfg = 'CONSTANTS Family = "reserved" Depth = 0\nSPECIFICATION Spec\n' + CTX_INVS
    res = run.tlc("ScopesCtx", cfg, name="mc-reserved", workers=4, coverage=True, timeout=600)
    if res.violated:
        run.spec_violation(res)
        return
    for a in ("Construct", "Enter", "End", "Report"):
        if not res.coverage.get(a, [0, 0])[1]:
            raise MachineryError("vacuous: action %s of ScopesCtx never taken" % a)
    cases = {}
    for c in res.json_lines():
        if isinstance(c, dict) and "outcome" in c:
            c["args"] = sorted(c["args"])
            cases[(c["entry"], c["enable_loop"], tuple(c["args"]), c["decl"]["kind"], c["decl"]["name"])] = c
    outcomes = {c["outcome"] for c in cases.values()}
    if outcomes != {"ok", "NameConflictError@construct", "NameConflictError@render"} or len(cases) < 1000:
        raise MachineryError("reserved family: %d cases, outcomes %s" % (len(cases), outcomes))
    run.extra["reserved_cases"] = len(cases)
    for k in sorted(cases):
        c = cases[k]
        obs, src = run_reserved(c)
        run.traces += 1
        if obs != c["outcome"]:
            if c["outcome"] == "NameConflictError@construct":
                sig = "reserved:assign:%s:%s" % (c["decl"]["kind"], "not-rejected-at-compile" if not obs.startswith("exc:") else obs)
            elif c["outcome"] == "NameConflictError@render":
                sig = "reserved:pass:%s:%s" % (c["entry"], "not-rejected" if obs == "ok" else obs)
            else:
                sig = "reserved:spurious:%s:%s:got-%s" % (c["entry"], c["decl"]["kind"], obs)
            run.violation(sig, "entry %s, enable_loop=%s, render arguments %s, template-level assignment %s: spec says %s, real code: %s"
                          % (c["entry"], c["enable_loop"], c["args"], c["decl"], c["outcome"], obs),
                          {"case": c, "template": src, "observed": obs})
    c = cases[sorted(cases)[0]]
    obs, _ = run_reserved(c)
    run.negative_control(obs != "corrupted:" + c["outcome"], "reserved comparer accepted a corrupted outcome")


class Tagged:
    """an object of the body with an identity (k), an equality class (cls) and in-place state (mut):
    two Tagged objects of one class are EQUAL but distinct, like 1 and 1.0 or two fresh [] lists"""

    def __init__(self, k, cls):
        self.k, self.cls, self.mut = k, cls, []

    def __eq__(self, other):
        return isinstance(other, Tagged) and (self.cls, self.mut) == (other.cls, other.mut)

    def __hash__(self):
        return hash(self.cls)


def _tag(obs):
    import re
    m = re.match(r"L(\d+):c(\d+):m(\d+)$", obs)
    if not m:
        raise MachineryError("not an object tag: %r" % (obs,))
    return int(m.group(1)), int(m.group(2)), int(m.group(3))


def history_template(hist, paged=False):
    t = "<%page args=\"x=None, y=None\"/>\n" if paged else ""
    for n in ("x", "y"):
        t += "<%%def name=\"rdt_%s()\">${show(%s)}</%%def>\n" % (n, n)      # referenced only in control lines
        t += "<%%def name=\"rda_%s()\">${show(%s)}</%%def>\n" % (n, n)      # referenced only in anonymous blocks
        t += "<%%def name=\"rd_%s()\">${show(%s)}</%%def>\n" % (n, n)
        t += "<%%def name=\"rdc_%s()\">${show(%s)}</%%def>\n" % (n, n)      # referenced only inside <%%call> bodies
        t += "<%%def name=\"asg_%s()\"><%% %s = 'D' %%>${show(%s)}</%%def>\n" % (n, n, n)
    t += "<%def name=\"kwd()\"><% kk = context.kwargs\nhold(kk) %>${showkw(kk)}</%def>\n<%def name='wr()'>${caller.body()}</%def>\n"
    for h in hist:
        op, n = h["op"], h["n"]
        if op in ("assign", "assign_equal"):
            k, cls, _ = _tag(h["obs"])          # which object the specification binds: identity k of class cls
            t += "<%% %s = mk(%d, %d) %%>${show(%s)}" % (n, k, cls, n)
        elif op == "mutate_local":
            t += "<%% mutate(%s) %%>${show(%s)}" % (n, n)
        elif op == "read_byname_ctl":
            t += "%% if rdt_%s() is not None:\n%% endif\n" % n
        elif op == "read_byname_anon":
            t += "<%%block>${rda_%s()}</%%block>" % n
        elif op == "read_ctx":
            t += "${show(context.get(%r, UNDEFINED))}" % n
        elif op == "read_selfdef":
            t += "${self.rd_%s()}" % n
        elif op == "read_byname":
            t += "${rd_%s()}" % n
        elif op == "read_byname_callbody":
            t += "<%%call expr='wr()'>${rdc_%s()}</%%call>" % n
        elif op == "defassign_self":
            t += "${self.asg_%s()}" % n
        elif op == "defassign_byname":
            t += "${asg_%s()}" % n
        elif op == "kwread_body":
            t += "<% kb = context.kwargs\nhold(kb) %>${showkw(kb)}"
        elif op == "kwread_selfdef":
            t += "${self.kwd()}"
        elif op == "kwread_bynamedef":
            t += "${kwd()}"
        elif op == "kwmutate":
            t += "<%% held()[%r] = 'M' %%>-" % n
        elif op == "end":
            continue
        else:
            raise MachineryError("unknown op %r" % op)
        t += "|\n"
    return t


def _proj(d, own=True):
    """dictionary -> sorted [name, value] pairs; helper functions are not data; anything that is
    neither a data name nor one of mako's own context names is reported as it is"""
    out = []
    for k, v in d.items():
        if k in HELPERS or (own and k in MAKO_CTX_NAMES):
            continue
        out.append([k, v if isinstance(v, str) else "obj:" + type(v).__name__])
    return sorted(out)


def run_history(c, rng=None):
    """render the behaviour; returns the list of observations in the spec's shape"""
    import json
    import re
    from mako.template import Template
    from mako.runtime import Context, UNDEFINED
    box = {}

    reg, alive = {}, []
    mutated = {_tag(h["obs"])[1] for h in c["hist"] if h["op"] == "mutate_local"}
    members = {}
    numeric = rng is not None and rng.random() < 0.5

    def mk(k, cls):
        # members of a class never mutated may be numbers of different types: 101 == 101.0 == Fraction(101) == Decimal(101)
        import decimal
        import fractions
        i = members.setdefault(cls, 0)
        members[cls] += 1
        fam = [int, float, fractions.Fraction, decimal.Decimal]
        o = fam[i](100 + cls) if (numeric and cls not in mutated and i < len(fam)) else Tagged(k, cls)
        alive.append(o)
        reg[id(o)] = (k, cls)
        return o

    def mutate(o):
        o.mut.append(1)
        return ""

    def show(v):
        if v is UNDEFINED:
            return "NONE"
        if v is None:
            return "PNone"
        if id(v) in reg and any(v is o for o in alive):
            return "L%d:c%d:m%d" % (reg[id(v)] + (len(getattr(v, "mut", ())),))
        return v if isinstance(v, str) else "OTHER:%r" % (v,)

    def showkw(d):
        return json.dumps(_proj(d, own=False))

    def hold(d):
        box["d"] = d
        return ""

    def held():
        return box["d"]
    paged = bool(c.get("paged"))
    src = history_template(c["hist"], paged)
    args = {a: "A_" + a for a in c["args"]}
    given = dict(args)
    given.update(show=show, showkw=showkw, hold=hold, held=held, mk=mk, mutate=mutate)
    caller_copy = dict(given)
    try:
        t = Template(src)
        buf = io.StringIO()
        ctx = Context(buf, **given)
        t.render_context(ctx, **(args if paged else {}))       # page arguments receive the render arguments of their name
        parts = re.sub(r"\s+", "", buf.getvalue()).split("|")[:-1]
    except Exception as e:  # noqa
        return ["exc:%s:%s" % (type(e).__name__, str(e)[:60])], src
    obs = []
    for h, p in zip([h for h in c["hist"] if h["op"] != "end"], parts):
        if h["op"].startswith("kwread"):
            try:
                obs.append(json.loads(p))
            except ValueError:
                obs.append("unparsable:" + p)
        elif h["op"] == "kwmutate":
            obs.append("-")
        else:
            obs.append(p)
    final = {"ctx": _proj(ctx._data), "kw": _proj(ctx.kwargs, own=False)}
    if given != caller_copy:
        final["caller"] = "changed"
    obs.append(final)
    return obs, src


def expected_obs(c):
    out = []
    for h in c["hist"]:
        o = h["obs"]
        if h["op"].startswith("kwread"):
            o = sorted(o)
        elif h["op"] == "end":
            o = {"ctx": sorted(o["ctx"]), "kw": sorted(o["kw"])}
        out.append(o)
    return out


def compare_history(run, c, source):
    exp = expected_obs(c)
    obs, src = run_history(c, run.rng)
    run.traces += 1
    if obs == exp:
        return True
    i = next((k for k in range(min(len(exp), len(obs))) if exp[k] != obs[k]), min(len(exp), len(obs)))
    op = c["hist"][i]["op"] if i < len(c["hist"]) else "?"
    prev = [h["op"] for h in c["hist"][:i]]
    feature = ("after-kwmutate" if "kwmutate" in prev else "after-assign_equal" if "assign_equal" in prev
               else "after-mutate_local" if "mutate_local" in prev else "after-assign" if "assign" in prev else "plain")
    o = obs[i] if i < len(obs) else "missing"
    if isinstance(o, str) and o.startswith("exc:"):
        mode = ":".join(o.split(":")[:2])
    elif op == "end" and isinstance(o, dict) and isinstance(exp[i], dict):
        mode = "differs-in-" + "+".join(k for k in ("ctx", "kw", "caller") if o.get(k) != exp[i].get(k))
    else:
        mode = "differs"
    run.violation("ctx:%s:%s:%s" % (op, feature, mode),
                  "context behaviour (%s): step %d (%s) must observe %s, the real template observed %s" % (source, i + 1, op, exp[i] if i < len(exp) else None, o),
                  {"behaviour": c, "template": src, "expected": exp, "observed": obs})
    return False


def part_history(run):
    depth = 3 if run.thorough else 2
    cfg = 'CONSTANTS Family = "history" Depth = %d\nSPECIFICATION Spec\n' % depth + CTX_INVS
    res = run.tlc("ScopesCtx", cfg, name="mc-history", workers=4, coverage=True, timeout=900)
    if res.violated:
        run.spec_violation(res)
        return
    need_actions(res, ("Assign", "AssignEqual", "MutateLocal", "ReadCtx", "ReadSelfDef", "ReadByName", "DefAssign", "KwRead", "KwMutate", "End", "Report"), "ScopesCtx")
    import json
    beh = {}
    for c in res.json_lines():
        if isinstance(c, dict) and "hist" in c and c.get("outcome") == "ok":
            c["args"] = sorted(c["args"])
            beh[json.dumps([c["args"], c["hist"]], sort_keys=True)] = c
    if len(beh) < 500:
        raise MachineryError("history family printed only %d behaviours" % len(beh))
    bad = 0
    for k in sorted(beh):
        if not compare_history(run, beh[k], "exhaustive depth %d" % depth):
            bad += 1
            if bad > 40:
                break
    # longer behaviours by simulation
    num = 1500 if run.thorough else 250
    sdepth = 9
    cfg = 'CONSTANTS Family = "history" Depth = %d\nSPECIFICATION Spec\n' % sdepth + CTX_INVS
    res = run.tlc("ScopesCtx", cfg, name="sim-history", workers=1, simulate="num=%d" % num, depth=sdepth + 6, timeout=900, count=False)
    if res.violated:
        run.spec_violation(res)
        return
    sims = {}
    for c in res.json_lines():
        if isinstance(c, dict) and "hist" in c and c.get("outcome") == "ok":
            c["args"] = sorted(c["args"])
            sims[json.dumps([c["args"], c["hist"]], sort_keys=True)] = c
    if len(sims) < num // 3:
        raise MachineryError("simulation printed only %d behaviours of %d" % (len(sims), num))
    for k in sorted(sims):
        if not compare_history(run, sims[k], "simulated depth %d" % sdepth):
            bad += 1
            if bad > 40:
                break
    # rebinding histories, deeper: new / EQUAL new object / mutation in place between by-name def calls written in
    # the body text, a call body, a control line, an anonymous block; with and without <%page> arguments
    rdepth = 4
    cfg = 'CONSTANTS Family = "rebind" Depth = %d\nSPECIFICATION Spec\n' % rdepth + CTX_INVS
    res = run.tlc("ScopesCtx", cfg, name="mc-rebind", workers=4, coverage=True, timeout=900)
    if res.violated:
        run.spec_violation(res)
        return
    need_actions(res, ("Assign", "AssignEqual", "MutateLocal", "ReadByName"), "ScopesCtx (rebind)")
    reb = {}
    for c in res.json_lines():
        if isinstance(c, dict) and "hist" in c and c.get("outcome") == "ok":
            c["args"] = sorted(c["args"])
            ops = {h["op"].split("_")[0] + ("_" + h["op"].split("_")[1] if h["op"].startswith(("assign_", "mutate_")) else "") for h in c["hist"]}
            # quick: ({}, no page args) and ({x}, page args); histories with a by-name call and a rebinding / mutation
            # (the others are the business of the history family)
            if run.thorough or (bool(c["args"]) == bool(c["paged"]) and "read" in ops and ops & {"assign_equal", "mutate_local"}):
                reb[json.dumps([c["args"], c["paged"], c["hist"]], sort_keys=True)] = c
    if len(reb) < 800 or not any(h["op"] == "assign_equal" for c in reb.values() for h in c["hist"]):
        raise MachineryError("rebind family printed only %d behaviours" % len(reb))
    for k in sorted(reb):
        if not compare_history(run, reb[k], "rebind depth %d" % rdepth):
            bad += 1
            if bad > 40:
                break
    run.extra["ctx_behaviours"] = {"exhaustive": len(beh), "simulated": len(sims), "rebind": len(reb)}
    ks = sorted(sims)
    if ks:
        run.sample({"part": "context-history", "behaviour": sims[ks[0]], "template": history_template(sims[ks[0]]["hist"])}, limit=4)
    # negative control: corrupt one expected observation of a behaviour that agrees
    import copy
    for k in sorted(beh):
        c = copy.deepcopy(beh[k])
        if any(h["op"].startswith("kwread") for h in c["hist"]) and c["args"]:
            obs, _ = run_history(c)
            exp = expected_obs(c)
            good = obs == exp
            for h in c["hist"]:
                if h["op"].startswith("kwread"):
                    h["obs"] = h["obs"][1:]
            run.negative_control(good and obs != expected_obs(c), "history comparer accepted a corrupted kwargs observation")
            break


def check(run):
    import mako
    run.extra["mako_file"] = mako.__file__
    cases = part_resolution(run)
    if cases:
        part_blockscopes(run, cases)
    part_reserved(run)
    part_history(run)
    part_recorded(run)
    run.assumptions += [
        "values are distinguishable callables/strings; what a read site sees is projected to a token by a helper passed through the context",
        "the direct filter read (${'' | name}) observes UNDEFINED through the TypeError of calling it and a builtin through its result",
        "a loop target around a by-name def call is not generated (the property speaks of <%page> arguments and <% %> assignments only)",
        "reserved names as def/block/call-body arguments, include arguments and comprehension targets are not generated (property silent)",
    ]
    return {"rule": "one case = (binding-site set, read site, strict) / one context behaviour / one recorded template; all cases of the "
                    "bounded spaces are enumerated by TLC and each is rendered once (seed varies variable names only); recorded templates are seeded random",
            "exhaustive": True}
