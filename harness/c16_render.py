"""C16, render half: line-level schedules of concurrent renders through one bounded TemplateLookup.

Pages are generated from small abstract programs (the Progs of spec/RenderShared.tla): the same
program is (a) concretised into template files that share an inherited base, a namespace library,
an included file and a cached def, and (b) shipped to TLC inside the trace file, where
Trace_RenderShared computes the expected output (Solo) and judges the recorded events.
Scheduling points: every executed line of mako/*.py and of the generated template modules
(sys.settrace) plus the lookup's mutex; the scheduler of harness/sched.py runs one thread at a time.
"""
import os
import sys

from . import sched
from .core import MachineryError

BASE = 1_000_000_000
_STORE = {}
_CUR = {"S": None}
CACHE_KW = [["region", "short"], ["timeout", "60"], ["verif_x", "7"]]      # the cached def's own cache_* arguments


def _cache_plugin():
    from mako.cache import CacheImpl, register_plugin
    from . import c16_nsmod  # noqa: imported once, outside any scheduled thread

    class DictCache(CacheImpl):
        """A backend without any locking: check-then-set on a plain dict."""

        def get_or_create(self, key, creation_function, **kw):
            S = _CUR.get("S")
            if S is not None and S.me() is not None:
                # what this thread read from the shared Cache._def_regions entry (cache.py _get_cache_kw)
                S.log({"th": S.me(), "ev": "memo", "cell": "def_regions", "key": str(key),
                       "kw": [[a, str(kw[a])] for a in sorted(kw) if a != "context"]})
            k = (self.cache.id, key)
            if k not in _STORE:
                _STORE[k] = creation_function()
            return _STORE[k]

        def set(self, key, value, **kw):
            _STORE[(self.cache.id, key)] = value

        def get(self, key, **kw):
            return _STORE.get((self.cache.id, key))

        def invalidate(self, key, **kw):
            _STORE.pop((self.cache.id, key), None)
    mod = sys.modules[__name__]
    mod.DictCache = DictCache
    register_plugin("mvdict", __name__, "DictCache")


# --------------------------------------------------------------------------- programs -> templates
def gen_body(rng, n_items, marks, depth=0):
    """Random abstract body: list of items; `marks` is a one-element list counting the marks used."""
    items = []
    kinds = ["text", "ctx", "mark", "ns", "inc", "cached", "loop", "call", "mod"] + (["cap"] if depth < 2 else [])
    for _ in range(n_items):
        k = rng.choice(kinds)
        if k == "text":
            items.append(("text", rng.randrange(1, 9)))
        elif k == "mark":
            marks[0] += 1
            items.append(("mark", marks[0]))
        elif k == "cap":
            marks[0] += 1
            inner = [("mark", marks[0])] + gen_body(rng, rng.randrange(1, 4), marks, depth + 1)
            items.append(("cap", inner))
        else:
            items.append((k,))
    return items


def concretise(items):
    """items -> (template text lines, flat program)"""
    lines, prog = [], []
    for it in items:
        k = it[0]
        if k == "text":
            lines.append("x%d" % it[1])
            prog.append({"op": "emit", "tok": "x%d" % it[1]})
        elif k == "ctx":
            lines.append("${who}")
            prog.append({"op": "ctx"})
        elif k == "mark":
            lines.append("${mk(context, %d)}" % it[1])
            prog.append({"op": "mark", "n": it[1]})
        elif k == "ns":
            lines.append("${lib.hello(who)}")
            prog += [{"op": "shared", "c": "lib"}, {"op": "emit", "tok": "h"}, {"op": "ctx"}]
        elif k == "inc":
            lines.append('<%include file="inc.html"/>')
            prog += [{"op": "shared", "c": "inc"}, {"op": "emit", "tok": "i"}, {"op": "ctx"}]
        elif k == "mod":
            lines.append("${pm.shout(who)}")
            prog += [{"op": "emit", "tok": "m"}, {"op": "ctx"}]
        elif k == "call":
            lines.append('<%call expr="lib.wrap()">${who}</%call>')
            prog += [{"op": "shared", "c": "lib"}, {"op": "emit", "tok": "w"}, {"op": "ctx"}, {"op": "emit", "tok": "w"}]
        elif k == "cached":
            lines.append("${cd()}")
            prog += [{"op": "shared", "c": "cache", "kw": CACHE_KW}, {"op": "emit", "tok": "c"}]
        elif k == "loop":
            lines += ["% for j in range(2):", "${loop.index} ${who}", "% endfor"]
            prog += [{"op": "emit", "tok": "0"}, {"op": "ctx"}, {"op": "emit", "tok": "1"}, {"op": "ctx"}]
        elif k == "cap":
            il, ip = concretise(it[1])
            lines += ['<%block filter="trim">'] + il + ["</%block>"]
            prog += [{"op": "push"}] + ip + [{"op": "pop"}]
    return lines, prog


def gen_world(rng, npages, n_items, bodies=None):
    """Returns (files: {name: text}, progs: {page: flat program}); bodies: explicit page bodies instead of random ones."""
    files = {
        "base.html": "[ ${self.title()} | ${next.body()} ]\n",
        "lib.html": '<%def name="hello(n)">h ${n}</%def>\n<%def name="wrap()">w ${caller.body()} w</%def>\n',
        "inc.html": "i ${who}\n",
    }
    progs = {}
    for p in range(1, npages + 1):
        marks = [0]
        if bodies:
            body = [("mark", 0)] + list(bodies[p - 1])
            marks[0] = len(body)
        else:
            body = [("mark", 0)] + gen_body(rng, n_items, marks)
        marks[0] += 1
        body.append(("mark", marks[0]))
        lines, prog = concretise(body)
        head = ['<%inherit file="base.html"/>', '<%namespace name="lib" file="lib.html"/>', '<%namespace name="pm" module="harness.c16_nsmod"/>',
                '<%def name="title()">T ${who}</%def>', '<%def name="cd()" cached="True" cache_key="cd" ' + " ".join('cache_%s="%s"' % (a, v) for a, v in CACHE_KW) + ">c</%def>"]
        files["p%d.html" % p] = "\n".join(head + lines) + "\n"
        progs["p%d#title" % p] = [{"op": "emit", "tok": "T"}, {"op": "ctx"}]      # t.get_def("title").render(...)
        progs["p%d" % p] = ([{"op": "shared", "c": "base"}, {"op": "emit", "tok": "["}, {"op": "emit", "tok": "T"}, {"op": "ctx"},
                              {"op": "emit", "tok": "|"}] + prog + [{"op": "emit", "tok": "]"}])
    # a page cached as a whole (<%page cached>): its content must not depend on the context, no marks inside
    files["pc.html"] = ('<%page cached="True" cache_key="pg" ' + " ".join('cache_%s="%s"' % (a, v) for a, v in CACHE_KW) + "/>\npg k\n")
    progs["pc"] = [{"op": "shared", "c": "cache", "kw": CACHE_KW}, {"op": "emit", "tok": "pg"}, {"op": "emit", "tok": "k"}]
    files["ps.html"] = "f0 ${who}\n"          # the URI that put_string / put_template race for
    for g in ("gets1", "gets2", "gets3"):
        progs[g] = []                                                               # lookup calls only: no output
    return files, progs


# --------------------------------------------------------------------------- one execution
class _SchedLock:
    def __init__(self, S):
        self.S = S
        self.owner = None

    def acquire(self, blocking=True, timeout=-1):
        name = self.S.me()
        if name is None:
            return True
        if blocking:
            self.S.point({"label": "acquire", "hot": True, "enabled": lambda: self.owner is None})
            self.owner = name
            return True
        self.S.point({"label": "acquire", "hot": True})
        if self.owner is None:
            self.owner = name
            return True
        return False

    def release(self):
        name = self.S.me()
        if name is None:
            return
        if self.owner is None:
            raise RuntimeError("release unlocked lock")
        self.owner = None

    __enter__ = acquire

    def __exit__(self, *a):
        self.release()


HOT_FUNCS = {("lookup.py", None), ("util.py", "<lambda>"), ("util.py", "<genexpr>"), ("util.py", "<listcomp>"), ("util.py", "__getitem__"), ("util.py", "__setitem__"), ("util.py", "_manage_size"),
             ("util.py", "__get__"), ("util.py", "__init__"), ("cache.py", None), ("template.py", "cache"),
             ("template.py", "reserved_names"), ("template.py", "__init__"), ("runtime.py", "_lookup_template"),
             ("runtime.py", "_render"), ("runtime.py", "_include_file"), ("runtime.py", "_inherit_from"),
             ("runtime.py", "_populate_self_namespace"), ("runtime.py", "_push_buffer"), ("runtime.py", "_pop_buffer"),
             ("runtime.py", "_push_writer"), ("runtime.py", "_pop_buffer_and_writer")}


class _Tracer:
    def __init__(self, S, mako_dir, all_files, hot=None):
        self.S = S
        self.mako_dir = mako_dir
        self.all_files = all_files
        self.hot = HOT_FUNCS if hot is None else set(tuple(x) for x in hot)
        self.cache = {}
        self.lines = 0

    def _want(self, code):
        w = self.cache.get(code)
        if w is None:
            fn = code.co_filename
            if fn.endswith("_html") or fn.endswith(".html.py"):
                w = (True, self.hot is HOT_FUNCS)
            elif fn.startswith(self.mako_dir):
                b = os.path.basename(fn)
                hot = (b, None) in self.hot or (b, code.co_name) in self.hot
                runtime_set = b in ("runtime.py", "lookup.py", "util.py", "template.py", "cache.py")
                w = (self.all_files or runtime_set, hot)
            else:
                w = (False, False)
            self.cache[code] = w
        return w

    def tracer(self, frame, event, arg):
        w = self._want(frame.f_code)
        if not w[0]:
            return None
        op = {"label": "line", "hot": w[1]}

        def local(frame, event, arg):
            if event == "line":
                self.lines += 1
                self.S.point(op)
            return local
        return local


def run_render_execution(sc, chooser, root, timeout=30.0):
    """sc: {"threads": {name: (page, ctx)}, "cap": n, "all_files": bool}; files already in `root`."""
    import mako
    import mako.lookup as ml
    import mako.template as mt
    import mako.util as mu
    _STORE.clear()
    S = sched.Scheduler(chooser, timeout=timeout)
    _CUR["S"] = S
    mako_dir = os.path.dirname(mako.__file__)
    tr = _Tracer(S, mako_dir, sc.get("all_files", False), sc.get("hot"))
    cap = sc["cap"]
    dirs = [root] + ([os.path.join(root, "d2")] if sc.get("dirs2") else [])
    moddir = None
    if sc.get("moddir"):
        # a fresh module directory per execution: the first compile of every URI writes its module file, reloads after an
        # LRU eviction import it again
        _CUR["n"] = _CUR.get("n", 0) + 1
        moddir = os.path.join(root, "mods%d" % _CUR["n"])
    kw = {}
    if sc.get("modname"):
        # modulename_callable instead of module_directory: the lookup asks the application where the module file goes
        _CUR["n"] = _CUR.get("n", 0) + 1
        mdir = os.path.join(root, "mn%d" % _CUR["n"])
        os.makedirs(mdir, exist_ok=True)
        kw["modulename_callable"] = lambda filename, uri: os.path.join(mdir, uri.strip("/").replace("/", "_") + ".html.py")
    lk = ml.TemplateLookup(dirs, collection_size=cap if cap else -1, cache_impl="mvdict", module_directory=moddir,
                           filesystem_checks=sc.get("fsc", True), cache_enabled=sc.get("cache_enabled", True), **kw)
    lk._mutex = _SchedLock(S)
    if cap:
        class LoggedLRU(mu.LRUCache):
            tag = "?"

            def __setitem__(self, k, v):
                name = S.me()
                if name is not None:
                    S.log({"th": name, "ev": "store_begin", "w": self.tag, "n": len(self)})
                mu.LRUCache.__setitem__(self, k, v)
                if name is not None:
                    S.log({"th": name, "ev": "store_end", "w": self.tag, "n": len(self)})
        lk._collection = LoggedLRU(cap)
        lk._collection.tag = "coll"
        lk._uri_cache = LoggedLRU(cap)
        lk._uri_cache.tag = "uric"
    stacks = {}
    keep = []

    def marker(name):
        def mk(context, n):
            st = context._buffer_stack
            keep.append(st)
            keep.append(st[0] if st else None)
            cs = context.caller_stack
            keep.append(cs)
            own = (stacks.setdefault(id(st), name) == name and (not st or stacks.setdefault(id(st[0]), name) == name)
                   and stacks.setdefault(id(cs), name) == name)
            S.log({"th": name, "ev": "mark", "n": n, "who": str(context.get("who")), "depth": len(st), "own": bool(own)})
            return ""
        return mk

    def worker(name, page, ctx):
        def f():
            S.log({"th": name, "ev": "begin"})
            exc = ""
            sys.settrace(tr.tracer)
            try:
                if page.startswith("gets"):
                    toks = []
                    for op, uri, rel in sc["gets"][page]:
                        if op == "get":
                            lk.get_template(uri)
                        elif op == "has":
                            lk.has_template(uri)
                        elif op == "adjust":
                            lk.adjust_uri(uri, rel)
                        elif op == "getr":          # get + render: which version of the URI did this call serve?
                            S.log({"th": name, "ev": "get_begin", "uri": uri})
                            o = lk.get_template(uri).render(who=ctx).split()
                            S.log({"th": name, "ev": "got", "uri": uri, "ver": int(o[0][1:]), "who": o[1]})
                        elif op in ("put", "puttmpl"):
                            text = "s%d ${who}\n" % rel
                            if op == "put":
                                lk.put_string(uri, text)
                            else:
                                lk.put_template(uri, mt.Template(text, lookup=lk, uri=uri))
                            S.log({"th": name, "ev": "put", "uri": uri, "ver": rel})
                elif page.endswith("#title"):
                    t = shared[page[:-6]] if sc.get("prefetch") else lk.get_template(page[:-6] + ".html")
                    toks = t.get_def("title").render(who=ctx, mk=marker(name)).split()
                else:
                    if sc.get("direct"):
                        # no lookup mutex: every thread constructs its own Template from the same file and module file
                        t = mt.Template(uri=page + ".html", filename=os.path.join(root, page + ".html"), lookup=lk,
                                        module_directory=moddir, cache_impl="mvdict")
                    elif sc.get("prefetch"):
                        t = shared[page]                # one long-lived Template object handed to every thread
                    else:
                        t = lk.get_template(page + ".html")
                    out = t.render(who=ctx, mk=marker(name))
                    toks = out.split()
            except sched.Abort:
                raise
            except BaseException as e:  # noqa
                toks = ["EXC", type(e).__name__, str(e)[:80]]
                exc = type(e).__name__ + "@" + _site(e, mako_dir)
            finally:
                sys.settrace(None)
            S.log({"th": name, "ev": "end", "out": toks, "exc": exc})
        return f
    shared = {}
    if sc.get("prefetch"):
        for page, _ in sc["threads"].values():
            b = page.split("#")[0]
            if not b.startswith("gets") and b not in shared:
                shared[b] = lk.get_template(b + ".html")
    for name in sorted(sc["threads"]):
        page, ctx = sc["threads"][name]
        S.spawn(name, worker(name, page, ctx))
    status = S.run()
    S.log({"th": "sched", "ev": "finish", "status": status, "blocked": list(S.blocked), "mutex": lk._mutex.owner or "free",
           "coll": len(lk._collection) if cap else 0, "uric": len(lk._uri_cache) if cap else 0})
    return {"events": S.trace, "status": status, "schedule": _compress([d["chosen"] for d in S.decisions]),
            "points": len(S.decisions), "lines": tr.lines}


def _site(e, mako_dir):
    """innermost frame of the traceback that lies in mako itself: module.function"""
    sites = []
    tb = e.__traceback__
    while tb is not None:
        code = tb.tb_frame.f_code
        if code.co_filename.startswith(mako_dir):
            sites.append(os.path.basename(code.co_filename)[:-3] + "." + code.co_name)
        tb = tb.tb_next
    return ">".join(sites[-2:]) or "?"


def _compress(names):
    out = []
    for n in names:
        if out and out[-1][0] == n:
            out[-1][1] += 1
        else:
            out.append([n, 1])
    return out


def solo_outputs(sc, root):
    """Every thread's render run alone, on a fresh lookup (first-use initialisation included)."""
    solo = {}
    for name in sorted(sc["threads"]):
        one = dict(sc, threads={name: sc["threads"][name]})
        ex = run_render_execution(one, sched.Replay([]), root)
        ends = [e for e in ex["events"] if e["ev"] == "end"]
        if ex["status"] != "ok" or not ends:
            raise MachineryError("solo render did not finish: %s" % ex["status"])
        solo[name] = ends[-1]["out"]
    return solo


def write_files(root, files, dirs2=False):
    os.makedirs(root, exist_ok=True)
    os.makedirs(os.path.join(root, "d2"), exist_ok=True)
    for fn, text in files.items():
        # with two directories the shared files live in the second one
        p = os.path.join(root, "d2", fn) if dirs2 and fn in ("inc.html", "lib.html") else os.path.join(root, fn)
        with open(p, "w") as f:
            f.write(text)
        os.utime(p, (BASE, BASE))


def render_trace_cfg(sc, pages):
    return ('CONSTANTS Threads = {%s} Pages = {%s} Progs <- TraceProgs CtxVals = {%s} Cells = {} Cap = %d SharedBuf = FALSE PublishEarly = FALSE\n'
            'SPECIFICATION TSpec\nCHECK_DEADLOCK FALSE\n'
            % (", ".join('"%s"' % t for t in sorted(sc["threads"])), ", ".join('"%s"' % p for p in sorted(pages)),
               ", ".join('"%s"' % c for c in sorted({c for _, c in sc["threads"].values()})), sc["cap"]))


def _render_job(job):
    """Forked worker: run a batch of schedules of one scenario; returns executions."""
    import random
    sc, root, kind = job["sc"], job["root"], job["kind"]
    _cache_plugin()
    write_files(root, job["files"], sc.get("dirs2", False))
    out = {"name": job["name"], "execs": [], "solo": None, "error": None}
    try:
        out["solo"] = solo_outputs(sc, root)
        names = sorted(sc["threads"])
        if kind == "pb":
            def one(ch):
                return run_render_execution(sc, ch, root)
            try:
                for ex, _ in sched.explore_bounded(one, job["bound"], job.get("limit"), hot_only=True):
                    out["execs"].append(ex)
            except sched.ExplorationLimit:
                out["incomplete"] = True
        else:
            length = job.get("length", 1500)
            for i in range(job["num"]):
                rng = random.Random("%s-%s-%d" % (job["seed"], job["name"], i))
                if kind == "pct":
                    ch = sched.PCT(rng, names, job.get("depth", 3), length)
                else:
                    ch = sched.RandomSwitch(rng, job.get("p", 0.02))
                out["execs"].append(run_render_execution(sc, ch, root))
    except MachineryError as e:
        out["error"] = str(e)
    return out


def render_jobs(run, thorough):
    import random
    jobs = []
    k = 6 if thorough else 1

    def add(name, threads, npages, n_items, cap, kind, all_files=False, bodies=None, hot=None, extra=None, **kw):
        rng = random.Random("%d-%s" % (run.seed, name))
        files, progs = gen_world(rng, npages, n_items, bodies)
        sc = {"threads": threads, "cap": cap, "all_files": all_files}
        sc.update(extra or {})
        if hot:
            sc["hot"] = hot
        jobs.append(dict(name=name, sc=sc, files=files, progs=progs,
                         root=run.subdir("rw-" + name), kind=kind, seed=run.seed, **kw))
    two_pages = {"A": ("p1", "A"), "B": ("p2", "B")}
    same_page = {"A": ("p1", "A"), "B": ("p1", "B")}
    three = {"A": ("p1", "A"), "B": ("p2", "B"), "C": ("p1", "C")}
    # thorough = 5x the quick schedule budgets of every line-level family (complete exploration is kept for the lock-level
    # tier of harness/c16.py only): the tier must finish in about 20 minutes on a moderately loaded 16-core machine
    k = m = 5 if thorough else 1
    add("r2-pages-random", two_pages, 2, 6, 2, "random", num=40 * k, p=0.02)
    add("r2-pages-pct", two_pages, 2, 6, 2, "pct", num=40 * k, depth=3, length=2500)
    add("r2-same-random", same_page, 1, 7, 2, "random", num=40 * k, p=0.03)
    add("r2-same-pct", same_page, 1, 7, 2, "pct", num=40 * k, depth=2, length=2500)
    add("r3-random", three, 2, 5, 2, "random", num=30 * k, p=0.02)
    add("r3-pct", three, 2, 5, 2, "pct", num=30 * k, depth=3, length=3500)
    add("r2-all-lines-pct", two_pages, 2, 4, 2, "pct", all_files=True, num=8 * k, depth=3, length=20000)
    add("r2-tiny-pb1", same_page, 1, 1, 2, "pb", bound=1, limit=100 * m)
    add("r2-tiny-pb2", same_page, 1, 1, 2, "pb", bound=2, limit=60 * m)
    add("r2-unbounded-random", two_pages, 2, 6, 0, "random", num=20 * k, p=0.05)
    # directed preemption-bound-1 sweeps: the first thread is preempted before EVERY line of the functions around one
    # check-then-set memo site while the other thread runs a complete first render
    cached_twice = [[("cached",), ("ctx",), ("cached",)]]
    add("r2-memo-cache-pb1", same_page, 1, 0, 2, "pb", bound=1, limit=400 * m, bodies=cached_twice,
        hot=[["cache.py", None], ["template.py", "cache"], ["util.py", "__get__"], ["runtime.py", "cache"]])
    add("r2-memo-template-pb1", same_page, 1, 0, 2, "pb", bound=1, limit=100 * m, bodies=[[("ns",), ("cached",)]],
        hot=[["template.py", "__init__"], ["template.py", "reserved_names"], ["template.py", "_get_module_info_for_template"],
             ["template.py", "get_module_source_metadata"], ["template.py", "_compile_text"], ["util.py", "__get__"]])
    add("r2-memo-lru-pb1", two_pages, 2, 0, 1, "pb", bound=1, limit=100 * m,
        bodies=[[("inc",), ("ns",)], [("ns",), ("inc",)]],
        hot=[["lookup.py", "get_template"], ["lookup.py", "_load"], ["lookup.py", "_check"], ["util.py", "__getitem__"],
             ["util.py", "__setitem__"], ["util.py", "_manage_size"]])
    add("r2-memo-lexer-pb1", two_pages, 2, 0, 2, "pb", all_files=True, bound=1, limit=15 * m,
        bodies=[[("ctx",)], [("inc",)]], hot=[["lexer.py", "match_reg"]])
    add("r3-memo-cache-pb1", {"A": ("p1", "A"), "B": ("p1", "B"), "C": ("p1", "C")}, 1, 0, 2, "pb", bound=1,
        limit=120 * m, bodies=[[("cached",), ("ctx",)]],
        hot=[["cache.py", None], ["template.py", "cache"], ["util.py", "__get__"]])
    # the lookup half under a bounded collection: three threads doing get_template / has_template / adjust_uri over more URIs
    # than the collection holds (BoundUnderConcurrency, no exception, nobody blocked)
    lookups = {"gets1": [["get", "p1.html", None], ["get", "inc.html", None], ["adjust", "inc.html", "p1.html"], ["get", "lib.html", None],
                         ["has", "p2.html", None], ["get", "base.html", None], ["adjust", "lib.html", "p2.html"]],
               "gets2": [["get", "lib.html", None], ["adjust", "inc.html", "p1.html"], ["get", "p2.html", None], ["has", "nothing.html", None],
                         ["get", "inc.html", None], ["get", "p1.html", None]],
               "gets3": [["get", "base.html", None], ["get", "p2.html", None], ["adjust", "base.html", "p1.html"], ["get", "inc.html", None],
                         ["adjust", "inc.html", "p1.html"], ["get", "lib.html", None]]}
    getters = {"A": ("gets1", "A"), "B": ("gets2", "B"), "C": ("gets3", "C")}
    # directed, lookup-only (fast executions): every single preemption inside LRUCache.__setitem__ / _manage_size (and whatever
    # callables they iterate with) and inside the second-chance / store path of _load, while the other thread adds, reads
    # and trims entries of the same two LRUs
    churn = {"gets1": [["adjust", "a.html", "p1.html"], ["get", "p1.html", None], ["adjust", "b.html", "p1.html"], ["get", "inc.html", None],
                       ["adjust", "inc.html", "p1.html"], ["get", "p1.html", None], ["adjust", "c.html", "p1.html"]],
             "gets2": [["adjust", "inc.html", "p1.html"], ["get", "inc.html", None], ["adjust", "d.html", "p2.html"], ["get", "p1.html", None],
                       ["adjust", "a.html", "p1.html"], ["get", "lib.html", None], ["adjust", "inc.html", "p1.html"]]}
    churners = {"A": ("gets1", "A"), "B": ("gets2", "B")}
    lru_hot = [["util.py", "__setitem__"], ["util.py", "_manage_size"], ["util.py", "<lambda>"], ["util.py", "<genexpr>"],
               ["util.py", "<listcomp>"], ["util.py", "__init__"]]
    add("l2-lru-publish-trim-cap1-pb1", churners, 1, 1, 1, "pb", bound=1, limit=500 * m, extra={"gets": churn},
        hot=lru_hot)
    add("l2-lru-publish-trim-cap2-pb1", churners, 1, 1, 2, "pb", bound=1, limit=300 * m, extra={"gets": churn},
        hot=lru_hot)
    add("l2-second-chance-store-pb1", churners, 1, 1, 1, "pb", bound=1, limit=300 * m, extra={"gets": churn},
        hot=[["lookup.py", "_load"], ["lookup.py", "get_template"], ["lookup.py", "_check"], ["lookup.py", "adjust_uri"]])
    add("l3-gets-cap1-random", getters, 2, 2, 1, "random", num=30 * k, p=0.04, extra={"gets": lookups})
    add("l3-gets-cap2-pct", getters, 2, 2, 2, "pct", num=30 * k, depth=3, length=3000, extra={"gets": lookups})
    # a module directory and two template directories; a def rendered on its own (get_def) next to full renders
    mixed = {"A": ("p1", "A"), "B": ("p1#title", "B"), "C": ("p2", "C")}
    add("r3-moddir-2dirs-random", mixed, 2, 5, 1, "random", num=25 * k, p=0.02, extra={"moddir": True, "dirs2": True})
    add("r2-moddir-pct", two_pages, 2, 5, 2, "pct", num=25 * k, depth=3, length=3000, extra={"moddir": True})
    # ---- option vectors of the lookup ------------------------------------------------------------------------------
    # module_directory: first requests for one URI write / import its module file (through the lookup, and by two threads
    # constructing Template(filename=..., module_directory=...) themselves -- no lookup mutex there)
    modfile_hot = [["template.py", "_compile_from_file"], ["template.py", "_compile_module_file"], ["template.py", "__init__"],
                   ["lookup.py", "_load"]]
    add("r2-same-moddir-pb1", same_page, 1, 0, 2, "pb", bound=1, limit=100 * m, bodies=[[("inc",), ("cached",)]],
        extra={"moddir": True}, hot=modfile_hot)
    add("r2-direct-moddir-pb1", same_page, 1, 0, 2, "pb", bound=1, limit=120 * m, bodies=[[("ctx",), ("inc",)]],
        extra={"moddir": True, "direct": True}, hot=modfile_hot)
    add("r3-direct-moddir-random", {"A": ("p1", "A"), "B": ("p1", "B"), "C": ("p1", "C")}, 1, 4, 2, "random", num=20 * k, p=0.03,
        extra={"moddir": True, "direct": True})
    add("r2-modname-random", two_pages, 2, 5, 2, "random", num=20 * k, p=0.02, extra={"modname": True})
    # filesystem_checks=False; exactly as many URIs as the collection may hold (3 = 2 + 2/2: p1, base, lib); cache_enabled=False
    add("r2-nochecks-atbound-pct", same_page, 1, 0, 2, "pct", num=25 * k, depth=3, length=2500,
        bodies=[[("ns",), ("cached",), ("ctx",), ("mod",), ("call",)]], extra={"fsc": False})
    add("r2-nocache-random", same_page, 1, 6, 2, "random", num=20 * k, p=0.03, extra={"cache_enabled": False})
    # <%page cached>: the first cached render of one template from two threads (Template.cache is created lazily)
    add("r2-pagecache-pb1", {"A": ("pc", "A"), "B": ("pc", "B")}, 1, 0, 2, "pb", bound=1, limit=200 * m,
        hot=[["cache.py", None], ["template.py", "cache"], ["util.py", "__get__"]])
    add("r3-pagecache-random", {"A": ("pc", "A"), "B": ("pc", "B"), "C": ("p1", "C")}, 1, 4, 2, "random", num=20 * k, p=0.03)
    # ---- shared objects other than the lookup -----------------------------------------------------------------------
    # one long-lived Template object (fetched before the threads start) rendered by three threads; get_def() renders;
    # the module namespace (<%namespace module=...>): one Python module object used by every render
    add("r3-shared-template-random", {"A": ("p1", "A"), "B": ("p1", "B"), "C": ("p1#title", "C")}, 1, 7, 2, "random", num=25 * k,
        p=0.03, extra={"prefetch": True})
    add("r3-getdef-pct", {"A": ("p1#title", "A"), "B": ("p1#title", "B"), "C": ("p1", "C")}, 1, 5, 2, "pct", num=25 * k, depth=3,
        length=2500)
    add("r2-nsmodule-pb1", same_page, 1, 0, 2, "pb", bound=1, limit=100 * m, bodies=[[("mod",), ("ctx",), ("mod",)]],
        hot=[["runtime.py", "__init__"], ["runtime.py", "__getattr__"], ["runtime.py", "_populate_self_namespace"]])
    # ---- put_string / put_template racing with get_template of the same URI (unbounded collection: LRU eviction of put
    # entries is C14's finding F05) ----------------------------------------------------------------------------------
    puts = {"gets1": [["put", "ps.html", 1], ["get", "inc.html", None], ["puttmpl", "ps.html", 2]],
            "gets2": [["getr", "ps.html", None], ["getr", "ps.html", None], ["getr", "ps.html", None]],
            "gets3": [["getr", "ps.html", None], ["get", "p1.html", None], ["getr", "ps.html", None]]}
    add("l3-puts-pb2", getters, 1, 1, 0, "pb", bound=2, limit=150 * m, extra={"gets": puts},
        hot=[["lookup.py", "get_template"], ["lookup.py", "_load"], ["lookup.py", "_check"], ["lookup.py", "put_string"],
             ["lookup.py", "put_template"]])
    add("l2-puts-load-pb1", {"A": ("gets1", "A"), "B": ("gets2", "B")}, 1, 1, 0, "pb", bound=1, limit=300 * m,
        extra={"gets": puts},
        hot=[["lookup.py", "_load"], ["lookup.py", "put_string"], ["lookup.py", "put_template"]])
    add("l3-puts-random", getters, 1, 1, 0, "random", num=40 * k, p=0.05, extra={"gets": puts})
    # directed: every single preemption inside TemplateLookup.adjust_uri / filename_to_uri (the URI cache is an LRU that
    # other threads trim) while the other thread renders a page that adds URI-cache entries
    add("r2-uricache-pb1", two_pages, 2, 0, 1, "pb", bound=1, limit=400,
        bodies=[[("inc",), ("inc",), ("ns",)], [("ns",), ("inc",)]],
        hot=[["lookup.py", "adjust_uri"], ["lookup.py", "filename_to_uri"]])
    return jobs


def judge_renders(run, jobs, outs, tw, tlc_pool):
    """Submits the batch validations; returns a function that collects the verdicts."""
    import copy
    groups = {}
    tid = 0
    for ji, (job, o) in enumerate(zip(jobs, outs)):
        if o["error"] and o["error"].startswith("solo render did not finish"):
            run.violation("render:solo:NoThreadBlocked", "a single thread rendering alone does not finish (%s)" % o["error"],
                          {"scenario": job["name"], "config": job["sc"], "templates": job["files"], "progs": job["progs"], "schedule": []})
            continue
        if o["error"]:
            raise MachineryError("render scheduler: %s (%s)" % (o["error"], job["name"]))
        sc = job["sc"]
        pre = "j%d" % ji                                             # page names are made unique per scenario
        key = (tuple(sorted(sc["threads"])), sc["cap"])
        g = groups.setdefault(key, {"sc": sc, "progs": {}, "traces": [], "ncs": []})
        g["progs"].update({pre + p: prog for p, prog in job["progs"].items()})
        hdr = {"page": {n: pre + p for n, (p, c) in sc["threads"].items()}, "ctx": {n: c for n, (p, c) in sc["threads"].items()},
               "solo": o["solo"]}
        for ex in o["execs"]:
            tid += 1
            g["traces"].append(dict(hdr, id=tid, events=ex["events"], schedule=ex["schedule"], job=ji))
    glist = list(groups.values())
    if not any(g["traces"] for g in glist):
        if run.violations:
            return lambda: None
        raise MachineryError("no render schedules recorded")
    def usable(t):      # a trace fit for deriving negative controls: everybody returned normally with some output
        ends = [e for e in t["events"] if e["ev"] == "end"]
        marks = [e for e in t["events"] if e["ev"] == "mark"]
        fin = t["events"][-1]
        return (len(ends) == len(t["page"]) and all(not e.get("exc") and len(e["out"]) > 2 for e in ends) and len(marks) > 2
                and fin.get("ev") == "finish" and fin.get("status") == "ok")
    cands = [(g, t) for g in glist if g["sc"]["cap"] for t in g["traces"] if usable(t)]
    if not cands:
        if run.violations:
            return lambda: None
        # nothing finished normally: validate what there is (the trace spec judges it); no controls possible
        cands = None
    ncs_for = None
    if cands:
        cands.sort(key=lambda gt: 0 if any(x["ev"] == "memo" for x in gt[1]["events"]) else 1)
        g0, t = cands[0]
        ncs_for = g0
        ends = [i for i, e in enumerate(t["events"]) if e["ev"] == "end"]
        marks = [i for i, e in enumerate(t["events"]) if e["ev"] == "mark"]
        a = copy.deepcopy(t)
        a["id"] = 10 ** 6 + 1
        a["events"][ends[0]]["out"][2] = "Z"                 # somebody else's context value in the output
        b = copy.deepcopy(t)
        b["id"] = 10 ** 6 + 2
        b["events"][marks[len(marks) // 2]]["depth"] += 1       # a buffer that is not the thread's own
        c = copy.deepcopy(t)
        c["id"] = 10 ** 6 + 3
        c["events"][-1]["coll"] = 9                            # collection beyond its bound
        d = copy.deepcopy(t)
        d["id"] = 10 ** 6 + 4
        del d["events"][marks[1]]                              # a mark that did not happen
        e = copy.deepcopy(t)
        e["id"] = 10 ** 6 + 5
        e["events"][-1]["mutex"] = "A"                         # the lookup's lock left held at the end
        ncs_for["ncs"] = [a, b, c, d, e]
        memos = [i for i, x in enumerate(t["events"]) if x["ev"] == "memo" and x["kw"]]
        if memos:
            f = copy.deepcopy(t)
            f["id"] = 10 ** 6 + 6
            f["events"][memos[-1]]["kw"] = f["events"][memos[-1]]["kw"][1:]     # a cache call without one of the def's cache_* arguments
            ncs_for["ncs"].append(f)

    def validate(g):
        traces = g["traces"] + g["ncs"]
        traces[0] = dict(traces[0], progs=g["progs"])               # the programs travel in the first trace
        traces = [traces[0]] + [dict(x, progs={}) for x in traces[1:]]
        return run.validate_traces("Trace_RenderShared", render_trace_cfg(g["sc"], g["progs"]), traces,
                                   name="vr-g%d" % glist.index(g), workers=tw, timeout=900)
    futs = [tlc_pool.submit(validate, g) for g in glist]

    def finish():
        summary = {}
        outside = run.extra.setdefault("outside_property_observations", {})
        for g, f in zip(glist, futs):
            verdicts = f.result()
            run.traces -= len(g["ncs"])
            for nc in g["ncs"]:
                run.negative_control(not verdicts[nc["id"]]["ok"], "Trace_RenderShared accepted a corrupted trace (%d)" % nc["id"])
            for t in g["traces"]:
                job, o = jobs[t["job"]], outs[t["job"]]
                sm = summary.setdefault(job["name"], {"schedules": 0, "kind": job["kind"], "rejected": 0, "threads": len(job["sc"]["threads"]),
                                                      "incomplete": bool(o.get("incomplete"))})
                sm["schedules"] += 1
                v = verdicts[t["id"]]
                run.transitions += len(t["events"])
                if "gets" in job["sc"] and any(x["ev"] == "put" for x in t["events"]):
                    # put_string / put_template are not operations of C16: what the linearizability clause sees is reported
                    # as an observation outside the property, never as a violation
                    ob = outside.setdefault("put-vs-load", {"schedules": 0, "lost_put": 0, "other": 0, "example": None})
                    ob["schedules"] += 1
                    for o_ in v.get("obs", []):
                        if o_ == "put-vs-load:older-than-completed-put":
                            ob["lost_put"] += 1
                            if ob["example"] is None:
                                ob["example"] = {"scenario": job["name"], "schedule": t["schedule"],
                                                 "events": [x for x in t["events"] if x["ev"] in ("get_begin", "got", "put")]}
                        else:
                            ob["other"] += 1
                if not v["ok"]:
                    sm["rejected"] += 1
                    i = v["i"]
                    e = t["events"][i - 1] if i else None
                    sig = "render:%s:%s" % (e.get("ev") if e else "?", v["clause"])
                    if e and e.get("exc"):
                        sig = "render:exception:" + e["exc"]
                    run.violation(sig,
                                  "concurrent render not explained by RenderShared at event %d (%s): %s; solo output %s"
                                  % (i, v["clause"], e, o["solo"].get(e.get("th")) if e else None),
                                  {"scenario": job["name"], "config": job["sc"], "templates": job["files"], "progs": job["progs"],
                                   "schedule": t["schedule"],
                                   "events": t["events"][max(0, i - 6):i + 1], "verdict": v})
        for job, o in zip(jobs, outs):
            pts = [ex["points"] for ex in o["execs"]]
            if job["name"] in summary:
                summary[job["name"]]["avg_scheduling_points"] = sum(pts) // max(1, len(pts))
        if ncs_for is None and not run.violations:
            raise MachineryError("no render trace fit for negative controls")
        run.extra["render_schedules"] = summary
        j0, o0 = jobs[0], outs[0]
        if o0["execs"]:
            run.sample({"direction": "V-render", "scenario": j0["name"], "page_p1": j0["files"]["p1.html"], "solo": o0["solo"],
                        "schedule": o0["execs"][0]["schedule"][:12]})
    return finish


def render_mc(run, thorough, tw):
    """(name, cfg, expect_violation) for the RenderShared model-checking runs."""
    base = ('CONSTANTS Threads = {%s} Pages = {%s} Progs <- MCProgs CtxVals = {%s} Cells = {"base", "lib", "inc", "cache"} Cap = %d SharedBuf = %s PublishEarly = FALSE\n'
            'SPECIFICATION Spec\nINVARIANT RenderIsolation\nINVARIANT BoundUnderConcurrency\nINVARIANT SizeIsCount\nINVARIANT MemoStable\n'
            'INVARIANT MemoCompleteWhenVisible\n'
            'PROPERTY PrivateStacks\n%sCHECK_DEADLOCK FALSE\n')
    live = "PROPERTY AllRendersFinish\n"
    out = [("rs-2t", base % ('"A", "B"', '"p1", "p2"', '"A", "B"', 2, "FALSE", live), None),
           ("rs-3t", base % ('"A", "B", "C"', '"p3"' if not thorough else '"p2", "p3"', '"A", "B"', 1 if not thorough else 2, "FALSE", live), None),
           ("rs-control-shared-buffer", (base % ('"A", "B"', '"p1", "p2"', '"A", "B"', 2, "TRUE", "")).replace("PROPERTY PrivateStacks\n", ""),
            "RenderIsolation")]
    out.append(("rs-control-publish-early", (base % ('"A", "B"', '"p3"', '"A", "B"', 2, "FALSE", "")).replace("PublishEarly = FALSE", "PublishEarly = TRUE"),
                "MemoCompleteWhenVisible"))
    if thorough:
        out.append(("rs-2t-cap1", base % ('"A", "B"', '"p1", "p2"', '"A", "B"', 1, "FALSE", live), None))
    return out
