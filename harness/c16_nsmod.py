"""A plain Python module used as `<%namespace name="pm" module="harness.c16_nsmod"/>` by the C16 render scenarios:
one module object shared by every render of every thread; its functions get the calling render's Context."""


def shout(context, x):
    context.write("m " + str(x))
    return ""
